"""check <ID> [--tier quick|thorough] [--replay file]"""
import argparse
import importlib
import json
import os
import sys
import traceback

os.environ.setdefault("OMP_NUM_THREADS", "1")
os.environ.setdefault("OPENBLAS_NUM_THREADS", "1")
os.environ.setdefault("MKL_NUM_THREADS", "1")
os.environ.setdefault("PYTHONHASHSEED", "0")
os.environ.setdefault("OQUPY_VERIF", "1")
sys.path.insert(0, os.path.dirname(os.path.dirname(os.path.abspath(__file__))))

from harness import core  # noqa: E402

# the library is always imported from the repository under test (VERIF_REPO, default /repo) - also in this parent
# process, whose modules the forked workers inherit
if core.REPO not in sys.path:
    sys.path.insert(0, core.REPO)


def main():
    ap = argparse.ArgumentParser()
    ap.add_argument("pid")
    ap.add_argument("--tier", default=os.environ.get("VERIF_TIER", "quick"),
                    choices=["quick", "thorough"])
    ap.add_argument("--replay", default=None)
    a = ap.parse_args()
    seed = int(os.environ.get("VERIF_SEED", "0") or 0)
    pid = a.pid.upper()
    extra = pid.startswith("X-")
    try:
        mod = importlib.import_module(("harness.extras." + pid[2:].lower()) if extra else ("harness.props." + pid.lower()))
    except ImportError:
        traceback.print_exc()
        print("MACHINERY-ERROR: no check for", pid)
        return 2
    ctx = core.Ctx(pid, a.tier, seed, level=getattr(mod, "LEVEL", "model_checking"))
    if extra:
        ctx.evidence_dir = "evidence-extra"
    try:
        if a.replay:
            ctx.evidence_dir = os.path.join("out", "replay-evidence")     # a replay never rewrites the check's evidence
            with open(a.replay) as f:
                rep = json.load(f)
            mod.replay(ctx, rep)
        else:
            mod.run(ctx)
        return ctx.finish()
    except core.MachineryError as e:
        print("MACHINERY-ERROR:", e)
        return 2
    except Exception:  # pylint: disable=broad-except
        traceback.print_exc()
        print("MACHINERY-ERROR: unexpected exception in check", pid)
        return 2


if __name__ == "__main__":
    sys.exit(main())
