"""Exact probes: inputs for which the floating-point output of the real code decodes
without ambiguity to the abstract state of the TLA+ specifications.

Imported inside worker processes (after core._init_worker put /repo on sys.path).
"""
import numpy as np


def rng_for(seed, *salt):
    import hashlib
    h = hashlib.sha256(("%s|%s" % (seed, "|".join(map(str, salt)))).encode()).digest()
    return np.random.default_rng(int.from_bytes(h[:8], "little"))


# ------------------------------------------------------------------ probe bath

def probe_weights(seed, ncell, scale=2e-3):
    """Generic (seeded) complex weights w_c of the lattice cells c = 0..ncell-1.
    Re w_c > 0 (physical: positive real part of the triangle integral)."""
    r = rng_for(seed, "weights")
    re = scale * (0.5 + r.random(ncell))
    im = scale * (0.5 + r.random(ncell)) * r.choice([-1.0, 1.0], ncell)
    return re + 1j * im


def make_probe_sd(weights, dt, log=None, temperature=0.0):
    """A CustomSD whose eta_function is an exact lattice function F with
    second differences w_c: the *real* CustomSD.correlation_2d_integral
    (triangle/square/rectangle differences) then returns sums of w_c."""
    import oqupy
    from oqupy.bath_correlations import CustomSD

    w = np.asarray(weights, dtype=complex)
    ncell = len(w)
    # D(c) = F(c+1) - F(c) = sum_{k<=c} w_k ; F(0) = 0
    dvals = np.cumsum(w)
    fvals = np.concatenate([[0.0], np.cumsum(dvals)])  # F(0..ncell)

    class ProbeSD(CustomSD):
        def __init__(self):
            super().__init__(lambda x: x, 1.0, "hard", temperature)
            self.probe_log = log if log is not None else []
            self.probe_dt = dt

        def lattice(self, tau):
            x = tau / self.probe_dt
            k = int(round(x))
            if abs(x - k) < 1e-9:
                if k < 0:
                    return 0.0
                if k >= len(fvals):
                    raise RuntimeError("probe lattice exceeded: %r" % tau)
                return fvals[k]
            # off-grid request: linear interpolation (always decodes as a mismatch)
            lo = int(np.floor(x))
            if lo < 0 or lo + 1 >= len(fvals):
                return 0.0
            return fvals[lo] + (x - lo) * (fvals[lo + 1] - fvals[lo])

        def eta_function(self, tau, epsrel=None, subdiv_limit=None, matsubara=False):
            v = self.lattice(tau)
            return complex(v).real if matsubara else complex(v)

        def correlation(self, tau, epsrel=None, subdiv_limit=None, matsubara=False):
            raise NotImplementedError("probe bath has no C(tau)")

        def correlation_2d_integral(self, delta, time_1, time_2=None, shape="square",
                                    epsrel=None, subdiv_limit=None, matsubara=False):
            self.probe_log.append((shape, float(delta), float(time_1),
                                   None if time_2 is None else float(time_2)))
            return CustomSD.correlation_2d_integral(
                self, delta, time_1, time_2=time_2, shape=shape, epsrel=epsrel,
                subdiv_limit=subdiv_limit, matsubara=matsubara)

    return ProbeSD()


def requests_in_grid_units(log, dt):
    """Project the probe's request log to <<shape, t1, t2>> in grid units,
    dropping repeated requests (stuttering)."""
    out = []
    seen = set()
    for shape, delta, t1, t2 in log:
        sid = {"upper-triangle": 0, "square": 1, "rectangle": 2}.get(shape, 9)
        a = t1 / dt
        b = 0.0 if t2 is None else t2 / dt
        ok = abs(delta - dt) < 1e-12 and abs(a - round(a)) < 1e-9 and abs(b - round(b)) < 1e-9
        key = (sid, int(round(a)), int(round(b))) if ok else (sid, a, b, delta / dt)
        if key not in seen:
            seen.add(key)
            out.append(list(key))
    return out


# ------------------------------------------------------------ permutation clock

def shift_matrix(d, s):
    """|x> -> |x+s mod d>."""
    m = np.zeros((d, d))
    for x in range(d):
        m[(x + s) % d, x] = 1.0
    return m


def shift_hamiltonian(d, s, tau):
    """Hermitian H with expm(-1j*H*tau) = shift_matrix(d, s) (exact up to 1e-15)."""
    k = np.arange(d)
    f = np.exp(2j * np.pi * np.outer(k, k) / d) / np.sqrt(d)   # F[x,k]
    theta = (-2 * np.pi * k * s / d)
    theta = (theta + np.pi) % (2 * np.pi) - np.pi               # principal values
    h = f @ np.diag(-theta / tau) @ f.conj().T                   # exp(-i H tau) = F diag(e^{i theta}) F^dag
    return (h + h.conj().T) / 2


def clock_system(mode, d, s1, s2, dt, start_time, energies=None, rot=None, calls=None, shifts=None):
    """A real OQuPy system whose half-step propagators are cyclic shifts (`shifts`: one per
    successive half step, extended periodically; default <<s1, s2>>), optionally with the phase of a
    commuting diagonal Hamiltonian `energies` when all shifts are 0.  mode: 'static' (System),
    'td' (TimeDependentSystem, piecewise constant H(t))."""
    import oqupy
    v = np.eye(d) if rot is None else rot
    e = np.zeros(d) if energies is None else np.asarray(energies, float)
    shifts = [s1, s2] if shifts is None else list(shifts)
    hams = []
    for s in shifts:
        h = shift_hamiltonian(d, s, dt / 2) + np.diag(e)
        hams.append(v @ h @ v.conj().T)
    if mode == "static":
        assert all(s == shifts[0] for s in shifts)
        return oqupy.System(hams[0])
    if mode == "td":
        def ham(t):
            if calls is not None:
                calls.append(float(t))
            half = int(np.floor((t - start_time) / (dt / 2) + 1e-9))
            return hams[half % len(hams)]
        return oqupy.TimeDependentSystem(ham)
    raise ValueError(mode)


def generic_rho(d, seed, rot=None):
    """Full-rank density matrix with every entry non-zero (so every element decodes)."""
    r = rng_for(seed, "rho", d)
    a = r.normal(size=(d, d)) + 1j * r.normal(size=(d, d))
    rho = a @ a.conj().T + 0.5 * np.eye(d)
    rho = rho / np.trace(rho)
    # make sure no entry is tiny
    if np.min(np.abs(rho)) < 1e-2:
        rho = rho + 0.05 * (np.ones((d, d)) + 0j) / d
        rho = (rho + rho.conj().T) / 2
        rho = rho / np.trace(rho)
    if rot is not None:
        rho = rot @ rho @ rot.conj().T
    return rho


def haar_unitary(d, seed, *salt):
    r = rng_for(seed, "haar", d, *salt)
    z = (r.normal(size=(d, d)) + 1j * r.normal(size=(d, d))) / np.sqrt(2)
    q, rr = np.linalg.qr(z)
    ph = np.diag(rr) / np.abs(np.diag(rr))
    return q * ph


def structured_unitary(d, kind):
    if kind == "id":
        return np.eye(d, dtype=complex)
    if kind == "perm":
        return shift_matrix(d, 1).astype(complex)
    if kind == "fourier":
        k = np.arange(d)
        return np.exp(2j * np.pi * np.outer(k, k) / d) / np.sqrt(d)
    if kind == "real":
        # real orthogonal (Householder of a fixed vector)
        vv = np.arange(1, d + 1, dtype=float)
        vv /= np.linalg.norm(vv)
        return (np.eye(d) - 2 * np.outer(vv, vv)).astype(complex)
    raise ValueError(kind)


def norm_seq(x):
    """TLC's ToJson prints functions over 0..n as objects with string keys,
    over 1..n as arrays: normalise both to a list."""
    if isinstance(x, dict):
        return [x[k] for k in sorted(x, key=int)]
    return list(x)
