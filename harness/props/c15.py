r"""C15 - results are covariant under translation of the time origin.

Spec: specs/Translation.tla states every quantity the library derives from absolute times
(sampling times of user callables, labels, nearest step of float control / correlation
times) as a function of (time - start_time) and TLC checks that the pattern relative to
the start is the same for every start in the set (incl. negative and non-multiples of
dt).  The expected *states* come from the specifications that do not mention the start
time at all (Influence.tla, PTContract.tla, Correlations.tla).  Binding, for every shift
tau in {0, 1.0, -0.3, 0.37 dt}:
 (a) Tempo and PtTempo+compute_dynamics with explicitly time-dependent clock Hamiltonians
     H(t - tau): states equal the spec's, labels shifted by exactly tau, the times handed to
     H(t) minus tau equal the spec's sampling pattern;
 (b) MeanFieldTempo and compute_dynamics_with_field with H(t - tau, a) and f(t - tau, ., a):
     states and fields equal those of tau = 0, field-equation call times minus tau equal the
     spec's pattern;
 (c) control times given as floats + tau act at the same steps;
 (d) correlation times given as floats + tau select the same indices and values.
"""
import numpy as np

from harness import core, probes, influence_engine as ieng, ptc_engine as eng
from harness.props import c07, c18

LEVEL = "model_checking"

CFG = """
INIT Init
NEXT Next
INVARIANT Covariant
INVARIANT EmitCase
"""
DT = 0.25
TICK = DT / 100
TAUS_TICKS = [0, 400, -120, 37]


def mf_job(job):
    """(b) metamorphic: shifted vs unshifted mean-field runs; call times vs the spec's pattern."""
    import oqupy
    tau, method, pattern, n = job
    sx = np.array([[0, 1], [1, 0]], dtype=complex)
    sz = np.diag([1.0 + 0j, -1.0])
    sm = np.array([[0, 0], [1, 0]], dtype=complex)
    dt = 0.125

    def run(shift):
        calls = []
        fs = oqupy.TimeDependentSystemWithField(
            lambda t, a: 0.5 * sz + 0.4 * np.cos(2.0 * (t - shift)) * sx + 0.3 * (a * sm.conj().T + np.conj(a) * sm))

        def eom(t, states, a):
            calls.append(float(t))
            return -0.7j * a - 0.2j * np.trace(states[0] @ sm) + 0.3 * (t - shift)
        mfs = oqupy.MeanFieldSystem([fs], field_eom=eom)
        calls.clear()           # the constructor probes field_eom at an arbitrary time
        rho = np.array([[0.6, 0.2 - 0.1j], [0.2 + 0.1j, 0.4]])
        sd = probes.make_probe_sd(probes.probe_weights(4, 24, scale=2e-2), dt)
        bath = oqupy.Bath(0.5 * sz, sd)
        params = oqupy.TempoParameters(dt=dt, epsrel=1e-13, dkmax=2, subdiv_limit=None)
        if method == "mftempo":
            d = oqupy.MeanFieldTempo(mfs, [bath], params, [rho], 0.3 - 0.1j, shift).compute(
                shift + n * dt + dt / 4, progress_type="silent")
        else:
            pt = oqupy.PtTempo(bath, shift, shift + n * dt + dt / 4, params).get_process_tensor(progress_type="silent")
            d = oqupy.compute_dynamics_with_field(mfs, 0.3 - 0.1j, process_tensor_list=[pt], initial_state_list=[rho],
                                                  start_time=shift, subdiv_limit=None, progress_type="silent")
        return d, calls
    out = []
    try:
        d0, c0 = run(0.0)
        d1, c1 = run(tau)
    except Exception as ex:  # pylint: disable=broad-except
        return [{"what": "exception", "detail": "%s: %s" % (type(ex).__name__, str(ex)[:150])}]
    if np.max(np.abs(np.array(d1.times) - np.array(d0.times) - tau)) > 1e-12:
        out.append({"what": "times-not-shifted"})
    if np.max(np.abs(np.array(d1.fields) - np.array(d0.fields))) > 1e-9:
        out.append({"what": "fields-differ", "err": float(np.max(np.abs(np.array(d1.fields) - np.array(d0.fields))))})
    if np.max(np.abs(np.array(d1.system_dynamics[0].states) - np.array(d0.system_dynamics[0].states))) > 1e-9:
        out.append({"what": "states-differ"})
    # field-equation call times minus tau: the spec's pattern (t_k, t_k, t_k + dt per step; repeated
    # derivative evaluations are stuttering)
    want = sorted(set(round(x / 100.0, 9) for x in pattern))         # in units of dt
    got = sorted(set(round((t - tau) / dt, 6) for t in c1))
    if got != [round(w, 6) for w in want]:
        out.append({"what": "eom-call-times", "expected_rel_dt": want, "observed_rel_dt": got})
    return out


SX = np.array([[0, 1], [1, 0]], dtype=complex)
SZ = np.diag([1.0 + 0j, -1.0])


def estimate_job(job):
    """(e) parameters estimated from the bath and a time-dependent system (guess_tempo_parameters, used by
    tempo_compute / pt_tempo_compute when no parameters are given): the times at which the user's callables are
    sampled follow the shift, so the estimate is the same (metamorphic, tau vs 0)."""
    import warnings
    import oqupy
    tau, kind = job
    out = []

    def estimate(shift):
        log = []

        def ham(t):
            log.append(t - shift)
            u = t - shift
            return (0.3 + 2.5 * np.exp(-(u - 0.4) ** 2 / 0.02)) * SX + 0.5 * np.cos(3 * u) * SZ

        def rate(t):
            u = t - shift
            return 0.1 + 1.5 * u ** 2

        def lop(t):
            return SX + 1j * np.sin(t - shift) * SZ
        corr = oqupy.PowerLawSD(alpha=0.1, zeta=1.0, cutoff=1.0, cutoff_type="exponential", temperature=0.0)
        bath = oqupy.Bath(0.5 * SZ, corr)
        if kind == "td":
            system = oqupy.TimeDependentSystem(ham, gammas=[rate], lindblad_operators=[lop])
        else:
            system = oqupy.TimeDependentSystemWithField(lambda t, a: ham(t) + 0.1 * (a * SX).real)
        del log[:]      # the constructors probe the callables at a fixed time (type checks): not part of the estimate
        with warnings.catch_warnings():
            warnings.simplefilter("ignore")
            p = oqupy.guess_tempo_parameters(bath, shift + 0.0, shift + 1.0, system=system, tolerance=1e-2)
        return p, sorted(log)
    try:
        p0, l0 = estimate(0.0)
        p1, l1 = estimate(tau)
    except Exception as ex:  # pylint: disable=broad-except
        return [{"what": "exception", "detail": "%s: %s" % (type(ex).__name__, str(ex)[:160])}]
    if len(l0) != len(l1) or (l0 and max(abs(a - b) for a, b in zip(l0, l1)) > 1e-9):
        out.append({"what": "sampling-times-depend-on-origin", "n0": len(l0), "n1": len(l1),
                    "first": [l0[:2], l1[:2]], "last": [l0[-1:], l1[-1:]]})
    for attr in ("dt", "dkmax", "epsrel"):
        a, b = getattr(p0, attr), getattr(p1, attr)
        if not (a == b or (a is not None and b is not None and abs(a - b) <= 1e-9 * abs(a))):
            out.append({"what": "estimated-parameter-depends-on-origin", "parameter": attr, "tau0": a, "tau": b})
    return out


def run(ctx):
    quick = ctx.tier == "quick"
    n = 3
    r = ctx.tlc("Translation", CFG, label="sampling pattern relative to the start time", workers=1,
                constants={"Dt": "100", "N": str(n), "StartSet": "{" + ",".join(str(t) for t in TAUS_TICKS) + "}",
                           "FloatOffsets": "{-30, 0, 30, 70, 130, 170, 230, 270, 330}", "Emit": "TRUE"})
    by_start = {c["start"]: c for c in r.cases}
    rel = {tuple(c["hsamples"]) for c in r.cases} | {tuple(c["labels"]) for c in r.cases}
    if len({tuple(c["hsamples"]) for c in r.cases}) != 1:
        raise core.MachineryError("Translation.tla: pattern depends on the start")
    taus = [t * TICK for t in TAUS_TICKS]
    # far from the origin (binary-exact, so that the shifted grid is exactly representable): anything that compares or
    # caches times with a relative tolerance shows here.  Parts (a), (c), (d) compare with start-free specifications.
    far = [131072.0, -65536.09375]
    # (d) also uses the shifts -dt and -3 dt: a float time or an interval bound then falls on the absolute time 0.0 exactly

    # (a) Tempo / PtTempo with time-dependent clock Hamiltonians, every tau
    consts = {"MaxN": str(n), "MinN": str(n), "KSet": "{1,2,1000}", "ASet": "{1000,1}",
              "OSet": "{<<1,-1>>, <<0,1,3>>}", "ShiftSet": "{<<1,0>>, <<2,1>>}", "AlgSet": '{"row","col"}'}
    cases = ieng.generate(ctx, consts, "time-dependent clock systems (states do not mention the start time)")
    jobs = []
    for idx, case in enumerate(cases):
        for ti, tau in enumerate(taus + far):
            if quick and (idx + ti) % 2:
                continue
            v_ = {"sysmode": "td", "subdiv": None if ti % 2 == 0 else 64, "start": tau}
            if (idx + ti) % 3 == 0:
                v_["warm_start"] = 0.125       # the system object was used before, for a run starting 0.125 later
            jobs.append({"case": case, "variant": v_, "seed": ctx.seed})
    for job, res in zip(jobs, core.pmap(ieng.run_variant, jobs, chunksize=4)):
        cid = dict(ieng.case_id(job["case"], job["variant"]), part="a")
        ctx.case(cid, nontrivial=job["variant"]["start"] != 0)
        for mm in res["mismatch"]:
            ctx.violation("C15:%s:%s" % ("tempo" if job["case"]["alg"] == "row" else "pt+dynamics", mm["what"]),
                          "%s: %s" % (cid, mm), {"a": job})
    # (b) mean-field, metamorphic
    pattern = by_start[0]["eomtimes"]
    mjobs = [(tau, m, pattern, n) for tau in taus[1:] for m in ("mftempo", "cdwf")]
    for j, mm in zip(mjobs, core.pmap(mf_job, mjobs)):
        ctx.case({"part": "b", "tau": j[0], "method": j[1]}, nontrivial=True)
        for x in mm:
            ctx.violation("C15:%s:%s" % (j[1], x["what"]), "tau=%s: %s" % (j[0], x), {"b": [j[0], j[1], list(j[2]), j[3]]})
    # (c) float control times + tau
    ck = '{"int","f-","f+"}'
    cr = ctx.tlc("PTContract", c18.CFG, label="control schedules with float times", workers=4,
                 constants={"D": "3", "EDims": "<<3>>", "A0": "<<1>>", "N": "2", "M": "6", "SysGates": "{<<1,2>>}",
                            "EnvGates": '{"CSP"}', "Controls": c18.schedules(2, '{"f-","f+"}', "{2,5}", 2),
                            "Devs": "{}", "FixedPlan": "<< >>", "Dephase": "FALSE", "Emit": "TRUE"})
    cjobs = [{"case": c, "variant": {"start": tau, "dt": DT}, "seed": ctx.seed}
             for c in cr.cases for tau in taus + far
             # one float control per step and side (mixed orders are C18's known finding)
             if len({(x[0], x[1]) for x in c["ctl"]}) == len(c["ctl"])]
    for job, mm in zip(cjobs, core.pmap(eng.run_case, cjobs, chunksize=8)):
        ctx.case({"part": "c", "ctl": job["case"]["ctl"], "tau": job["variant"]["start"]}, nontrivial=bool(job["case"]["ctl"]))
        for x in mm:
            ctx.violation("C15:controls:%s" % x["what"], "tau=%s ctl=%s: %s" % (job["variant"]["start"], job["case"]["ctl"], x),
                          {"c": job})
    # ... and the same schedules through compute_dynamics_with_field (the mean-field driver resolves float control times
    # against its own start time)
    fjobs = [{"case": j["case"], "api": "cdf", "seed": ctx.seed, "start": j["variant"]["start"]}
             for i, j in enumerate(cjobs) if j["case"]["ctl"] and i % 3 == 0]
    for job, mm in zip(fjobs, core.pmap(c18.run_api, fjobs, chunksize=8)):
        ctx.case({"part": "c", "api": "compute_dynamics_with_field", "ctl": job["case"]["ctl"], "tau": job["start"]}, nontrivial=True)
        for x in mm:
            ctx.violation("C15:controls:with_field:%s" % x["what"], "tau=%s ctl=%s: %s" % (job["start"], job["case"]["ctl"], x),
                          {"cf": job})
    # (d) float correlation times + tau
    base_r = ctx.tlc("PTContract", c07.PTC_CFG, label="correlation values", workers=4,
                     constants={"D": "4", "EDims": "<<4>>", "A0": "<<1>>", "N": "3", "M": "8",
                                "SysGates": "{<<1,2>>,<<0,3>>}", "EnvGates": '{"CSP","SC"}',
                                "FixedPlan": ('<< <<"h1",0,<<1,2>>>>, <<"env",0,1,"CSP">>, <<"h2",0,<<0,3>>>>, '
                                              '<<"h1",1,<<1,2>>>>, <<"env",1,1,"SC">>, <<"h2",1,<<0,3>>>>, '
                                              '<<"h1",2,<<1,2>>>>, <<"env",2,1,"CSP">>, <<"h2",2,<<0,3>>>> >>'),
                                "Controls": '{ {<<t, FALSE, 4, 1, "int">>} : t \\in 0..3 }', "Devs": "{}",
                                "Dephase": "FALSE", "Emit": "TRUE"})
    rho0 = probes.generic_rho(4, ctx.seed)
    vals = c07.value_tables(base_r.cases, rho0)
    base = dict(base_r.cases[0], ctl=[], recs=[])
    fl = ('{[k |-> "float", q |-> x] : x \\in {0,1,3,4,5,11,12}} \\cup '
          '{[k |-> "ival", q1 |-> x, q2 |-> y] : x \\in {0,5,12}, y \\in {1,4,11}}')
    corr = ctx.tlc("Correlations", c07.CORR_CFG, label="float time specifications", workers=1,
                   constants={"N": "3", "SpecSets": "<<%s, %s>>" % (fl, fl), "Devs": "{}", "Emit": "TRUE"})
    djobs = [{"case": c, "mode": "ord", "base": base, "vals": vals, "seed": ctx.seed, "start": tau}
             for i, c in enumerate(corr.cases) for ti, tau in enumerate(taus + far + [-DT, -3 * DT]) if not quick or (i + ti) % 3 == 0]
    for job, mm in zip(djobs, core.pmap(c07.run_corr, djobs, chunksize=8)):
        ctx.case({"part": "d", "specs": job["case"]["specs"], "tau": job["start"]}, nontrivial=job["start"] != 0)
        for x in mm:
            ctx.violation("C15:correlations:%s" % x["what"], "tau=%s specs=%s: %s" % (job["start"], job["case"]["specs"], x),
                          {"d": {"specs": job["case"]["specs"], "tau": job["start"]}})
    # (e) estimated parameters
    ejobs = [(tau, kind) for tau in taus if tau != 0 for kind in ("td", "field")]
    for j, mm in zip(ejobs, core.pmap(estimate_job, ejobs)):
        ctx.case({"part": "e", "tau": j[0], "system": j[1]}, nontrivial=True)
        for x in mm:
            ctx.violation("C15:estimate:%s" % x["what"], "tau=%s %s: %s" % (j[0], j[1], x), {"e": list(j)})
    ctx.rule = ("shifts tau in {0, 1.0, -0.3, 0.37 dt; for (a), (c), (d) also 131072 and -65536.09375} x (a) Influence.tla behaviours with time-dependent Hamiltonians through "
                "Tempo and PtTempo+compute_dynamics, (b) mean-field methods, (c) float control schedules, (d) float correlation "
                "time specifications, (e) parameters estimated from a time-dependent system; non-trivial = tau != 0")
    ctx.exhaustive = False
    ctx.assumptions += ["(b) is metamorphic (tau vs 0) with tolerance 1e-9; (a), (c), (d) compare with the start-free specification"]


def replay(ctx, rep):
    core._init_worker()
    c = rep["case"]
    if "a" in c:
        mm = ieng.run_variant(c["a"])["mismatch"]
    elif "b" in c:
        mm = mf_job(tuple(c["b"]))
    elif "c" in c:
        mm = eng.run_case(c["c"])
    elif "cf" in c:
        mm = c18.run_api(c["cf"])
    elif "e" in c:
        mm = estimate_job(tuple(c["e"]))
    else:
        raise core.MachineryError("rerun the check for correlation cases (value tables come from TLC)")
    ctx.case({"replay": True})
    for x in mm:
        ctx.violation("C15:replay:" + x["what"], str(x), c)
