"""C05 - basis covariance; every Hermitian coupling operator is accepted.

Spec: Degeneracy.tla enumerates every eigenvalue tuple (repeated and zero eigenvalues
included); Influence.tla's expected states never mention the presentation basis V.
Binding: (a) for every tuple and every V in {permutation, Fourier, real orthogonal,
Haar-random} the real Bath must accept V diag(o) V^dagger and report a unitary
transform U and a real diagonal D with U D U^dagger = O and spectrum(D) = o;
(b) every Influence behaviour is replayed as (V H V^dagger, V O V^dagger, V rho0 V^dagger)
through Tempo, PtTempo+compute_dynamics and MeanFieldTempo, rotated back and compared
with the one spec state.
"""
import numpy as np

from harness import core, influence_engine as eng, probes
from harness.props.c06 import DEG_CFG

LEVEL = "model_checking"
ROTS = ["perm", "fourier", "real", "haar"]


def check_bath(job):
    import oqupy
    o, rot_kind, seed = job
    o = np.array(o, dtype=float)
    d = len(o)
    v = probes.haar_unitary(d, seed, str(list(o))) if rot_kind == "haar" else probes.structured_unitary(d, rot_kind)
    op = v @ np.diag(o) @ v.conj().T
    op = (op + op.conj().T) / 2
    corr = probes.make_probe_sd(probes.probe_weights(seed, 4), 0.25)
    try:
        bath = oqupy.Bath(op, corr)
    except Exception as ex:  # pylint: disable=broad-except
        return [{"what": "bath-rejected", "detail": "%s: %s" % (type(ex).__name__, str(ex)[:80])}]
    out = []
    u = bath.unitary_transform
    dd = bath.coupling_operator
    if np.max(np.abs(u.conj().T @ u - np.eye(d))) > 1e-9:
        out.append({"what": "not-unitary", "err": float(np.max(np.abs(u.conj().T @ u - np.eye(d))))})
    if np.max(np.abs(dd - np.diag(np.diag(dd)))) > 1e-9 or np.max(np.abs(np.diag(dd).imag)) > 1e-9:
        out.append({"what": "not-real-diagonal"})
    if np.max(np.abs(u @ dd @ u.conj().T - op)) > 1e-9:
        out.append({"what": "not-reproducing"})
    if np.max(np.abs(np.sort(np.diag(dd).real) - np.sort(o))) > 1e-9:
        out.append({"what": "spectrum"})
    return out


def run(ctx):
    quick = ctx.tier == "quick"
    space = "UNION {[1..d -> (-1)..2] : d \\in 2..3}" if quick else "UNION {[1..d -> (-1)..2] : d \\in 2..4}"
    r = ctx.tlc("Degeneracy", DEG_CFG, label="all eigenvalue tuples over -1..2",
                constants={"OSpace": space, "Emit": "TRUE"}, workers=1)
    tuples = [c["o"] for c in r.cases]
    if not quick:
        # dimension 5: sorted tuples only (multisets), enumerated here from the same value range
        import itertools
        tuples += [list(t) for t in itertools.combinations_with_replacement(range(-1, 3), 5)]
    jobs = [(o, rk, ctx.seed) for o in tuples for rk in ROTS]
    res = core.pmap(check_bath, jobs, chunksize=16)
    for (o, rk, _), mm in zip(jobs, res):
        ctx.case({"o": o, "rot": rk, "check": "Bath accepts / diagonalises"},
                 nontrivial=len(set(o)) < len(o))
        for m in mm:
            ctx.violation("C05:bath:" + m["what"], "o=%s V=%s %s" % (o, rk, m), {"o": o, "rot": rk})

    consts = {"MaxN": "3", "MinN": "2", "KSet": "{1,2,1000}", "ASet": "{1000,1}",
              "OSet": "{<<1,-1>>, <<0,1,3>>, <<1,1,0>>, <<0,0,0>>}" if quick
                      else "{<<1,-1>>, <<0,2>>, <<0,1,3>>, <<1,1,0>>, <<0,0,0>>, <<0,1,1,2>>, <<2,2,0,0>>}",
              "ShiftSet": "{<<0,0>>, <<1,0>>, <<1,1>>}", "AlgSet": '{"row","col"}'}
    cases = eng.generate(ctx, consts, "behaviours to be presented in rotated bases")
    jobs = []
    for idx, case in enumerate(cases):
        for rk in (ROTS if not quick else [ROTS[idx % 4], "haar"]):
            jobs.append({"case": case, "variant": {"rot": rk, "unique": bool((idx + len(rk)) % 2)}, "seed": ctx.seed})
        if case["alg"] == "row" and len(case["sh"]) == 2 and case["sh"][0] == case["sh"][1]:
            jobs.append({"case": case, "variant": {"rot": "haar", "method": "mf"}, "seed": ctx.seed})
        if case["alg"] == "col" and idx % 2 == 0:
            # PT-TEMPO writing its process tensor (with the basis transforms) to a file that is imported again
            jobs.append({"case": case, "variant": {"rot": "haar", "pt_roundtrip": ("simple", "file")[(idx // 2) % 2]},
                         "seed": ctx.seed})
    results = core.pmap(eng.run_variant, jobs, chunksize=8)
    for job, res_ in zip(jobs, results):
        cid = eng.case_id(job["case"], job["variant"])
        ctx.case(cid, nontrivial=True)
        for mm in res_["mismatch"]:
            key = "C05:%s:%s" % (job["variant"].get("method", job["case"]["alg"]), mm["what"])
            ctx.violation(key, "case %s: %s" % (cid, mm), {"case": job["case"], "variant": job["variant"]})
    ctx.rule = ("(a) eigenvalue tuples over -1..2, d=2..3 (quick) / 2..5 (thorough) x V in {perm, fourier, real, haar}: "
                "Bath contract; (b) Influence.tla behaviours x V replayed through Tempo / PtTempo+compute_dynamics / "
                "MeanFieldTempo and rotated back; non-trivial (a) = repeated eigenvalue, (b) all")
    ctx.exhaustive = True
    ctx.assumptions += ["Haar unitaries drawn from VERIF_SEED; tolerance 1e-9"]


def replay(ctx, rep):
    core._init_worker()
    c = rep["case"]
    if "variant" in c:
        res = eng.run_variant({"case": c["case"], "variant": c["variant"], "seed": rep.get("seed", 0)})
        ctx.case(eng.case_id(c["case"], c["variant"]))
        for mm in res["mismatch"]:
            ctx.violation("C05:replay:" + mm["what"], str(mm), c)
    else:
        for m in check_bath((c["o"], c["rot"], rep.get("seed", 0))):
            ctx.violation("C05:bath:" + m["what"], str(m), c)
        ctx.case(c)
