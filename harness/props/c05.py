"""C05 - basis covariance; every Hermitian coupling operator is accepted.

Spec: Degeneracy.tla enumerates every eigenvalue tuple (repeated and zero eigenvalues
included); Influence.tla's expected states never mention the presentation basis V.
Binding: (a) for every tuple and every V in {permutation, Fourier, real orthogonal,
Haar-random} the real Bath must accept V diag(o) V^dagger and report a unitary
transform U and a real diagonal D with U D U^dagger = O and spectrum(D) = o;
(b) every Influence behaviour is replayed as (V H V^dagger, V O V^dagger, V rho0 V^dagger)
through Tempo, PtTempo+compute_dynamics and MeanFieldTempo, rotated back and compared
with the one spec state.
"""
import numpy as np

from harness import core, influence_engine as eng, probes
from harness.props.c06 import DEG_CFG

LEVEL = "model_checking"
ROTS = ["perm", "fourier", "real", "haar", "plane"]       # "plane": a rotation of levels 0 and d-1 only


def check_bath(job):
    import oqupy
    o, rot_kind, seed = job
    o = np.array(o, dtype=float)
    d = len(o)
    if rot_kind == "plane":
        # mixes only the first and the last level: the operator's only off-diagonal elements sit in the far corners
        v = np.eye(d, dtype=complex)
        cth, sth = np.cos(0.7), np.sin(0.7) * np.exp(0.4j)
        v[0, 0], v[0, d - 1], v[d - 1, 0], v[d - 1, d - 1] = cth, -np.conj(sth), sth, cth
    else:
        v = probes.haar_unitary(d, seed, str(list(o))) if rot_kind == "haar" else probes.structured_unitary(d, rot_kind)
    op = v @ np.diag(o) @ v.conj().T
    op = (op + op.conj().T) / 2
    corr = probes.make_probe_sd(probes.probe_weights(seed, 4), 0.25)
    try:
        bath = oqupy.Bath(op, corr)
    except Exception as ex:  # pylint: disable=broad-except
        return [{"what": "bath-rejected", "detail": "%s: %s" % (type(ex).__name__, str(ex)[:80])}]
    out = []
    u = bath.unitary_transform
    dd = bath.coupling_operator
    if np.max(np.abs(u.conj().T @ u - np.eye(d))) > 1e-9:
        out.append({"what": "not-unitary", "err": float(np.max(np.abs(u.conj().T @ u - np.eye(d))))})
    if np.max(np.abs(dd - np.diag(np.diag(dd)))) > 1e-9 or np.max(np.abs(np.diag(dd).imag)) > 1e-9:
        out.append({"what": "not-real-diagonal"})
    if np.max(np.abs(u @ dd @ u.conj().T - op)) > 1e-9:
        out.append({"what": "not-reproducing"})
    if np.max(np.abs(np.sort(np.diag(dd).real) - np.sort(o))) > 1e-9:
        out.append({"what": "spectrum"})
    return out


def dissipative_job(job):
    """Numerical (metamorphic, not decided by the specification): a system with Lindblad terms - non-Hermitian and
    non-normal operators, time dependent rates - simulated as given and as (V H V+, V A V+, V O V+, V rho0 V+) with a
    genuinely complex V must give V rho(t) V+ (TEMPO, PT-TEMPO + compute_dynamics, bath-free, mean field)."""
    import oqupy
    method, d, kind, seed = job
    r = probes.rng_for(seed, "c05-diss", method, d, kind)
    v = probes.haar_unitary(d, seed, "diss", d) if kind == "haar" else probes.structured_unitary(d, "fourier")

    def herm():
        a = r.normal(size=(d, d)) + 1j * r.normal(size=(d, d))
        return (a + a.conj().T) / 2
    h0, h1 = herm() * 0.7, herm() * 0.4
    ops = [r.normal(size=(d, d)) + 1j * r.normal(size=(d, d)), np.diag(np.arange(d, dtype=complex)), np.eye(d, k=1, dtype=complex)]
    rates = [0.2, 0.35, 0.5]
    o = np.diag(np.linspace(1.0, -1.0, d))
    rho0 = probes.generic_rho(d, seed)
    dt, n = 0.1, 4
    corr = oqupy.PowerLawSD(alpha=0.3, zeta=1.0, cutoff=3.0, cutoff_type="exponential", temperature=0.4)
    params = oqupy.TempoParameters(dt=dt, epsrel=1e-10, dkmax=3)

    def run_in(rot):
        c = lambda m: rot @ m @ rot.conj().T
        if method == "mf":
            fs = oqupy.TimeDependentSystemWithField(
                lambda t, a: c(h0 + np.cos(t) * h1) + 0.2 * a.real * c(o),
                gammas=[lambda t, g=g: g * (1 + 0.5 * np.sin(t)) for g in rates],
                lindblad_operators=[lambda t, x=x: c(x) for x in ops])
            mfs = oqupy.MeanFieldSystem([fs], field_eom=lambda t, st, a: -0.4j * a - 0.3j * np.trace(st[0] @ c(ops[2])))
            dyn = oqupy.MeanFieldTempo(mfs, [oqupy.Bath(c(o), corr)], params, [c(rho0)], 0.2 + 0.1j, 0.0).compute(
                n * dt + dt / 4, progress_type="silent")
            return np.array(dyn.system_dynamics[0].states), np.array(dyn.fields)
        if kind == "haar":
            system = oqupy.System(c(h0), gammas=rates, lindblad_operators=[c(x) for x in ops])
        else:
            system = oqupy.TimeDependentSystem(lambda t: c(h0 + np.cos(t) * h1),
                                               gammas=[lambda t, g=g: g * (1 + 0.5 * np.sin(t)) for g in rates],
                                               lindblad_operators=[lambda t, x=x: c(x) for x in ops])
        if method == "tempo":
            return np.array(oqupy.Tempo(system, oqupy.Bath(c(o), corr), params, c(rho0), 0.0).compute(
                n * dt + dt / 4, progress_type="silent").states), None
        if method == "pt":
            pt = oqupy.PtTempo(oqupy.Bath(c(o), corr), 0.0, n * dt + dt / 4, params).get_process_tensor(progress_type="silent")
            return np.array(oqupy.compute_dynamics(system, initial_state=c(rho0), process_tensor=pt,
                                                   progress_type="silent").states), None
        return np.array(oqupy.compute_dynamics(system, initial_state=c(rho0), dt=dt, num_steps=n,
                                               progress_type="silent").states), None
    try:
        s0, f0 = run_in(np.eye(d, dtype=complex))
        s1, f1 = run_in(v)
    except Exception as ex:  # pylint: disable=broad-except
        import traceback
        return [{"what": "exception", "detail": "%s: %s" % (type(ex).__name__, str(ex)[:160]), "tb": traceback.format_exc()[-300:]}]
    back = np.array([v.conj().T @ x @ v for x in s1])
    err = float(np.max(np.abs(back - s0)))
    out = []
    if err > 2e-7:
        out.append({"what": "not-covariant", "err": err})
    if f0 is not None and np.max(np.abs(f0 - f1)) > 2e-7:
        out.append({"what": "field-not-invariant", "err": float(np.max(np.abs(f0 - f1)))})
    return out


def guess_job(job):
    """Parameters estimated from the bath and the system (guess_tempo_parameters, used when no parameters are given) do not
    depend on the basis: a rotated presentation must lead to the same time grid and memory."""
    import oqupy
    import warnings
    d, kind, seed = job
    r = probes.rng_for(seed, "c05-guess", d, kind)
    v = probes.haar_unitary(d, seed, "guess", d) if kind == "haar" else probes.structured_unitary(d, "fourier")
    h = np.diag(np.linspace(0.4, -0.4, d)).astype(complex)
    low = np.eye(d, k=1, dtype=complex)                      # a lowering operator: not Hermitian, not normal
    o = np.diag(np.linspace(1.0, -1.0, d)).astype(complex)
    corr = oqupy.PowerLawSD(alpha=0.1, zeta=1.0, cutoff=2.0, cutoff_type="exponential", temperature=0.3)
    out = []

    def guess(rot, tds):
        c = lambda m: rot @ m @ rot.conj().T
        if tds:
            system = oqupy.TimeDependentSystem(lambda t: c(h) * (1 + 0.1 * np.cos(t)), gammas=[lambda t: 2.5 + 0.5 * np.sin(t)],
                                               lindblad_operators=[lambda t: c(low)])
        else:
            system = oqupy.System(c(h), gammas=[2.5], lindblad_operators=[c(low)])      # the dissipator limits the time step
        with warnings.catch_warnings():
            warnings.simplefilter("ignore")
            p = oqupy.guess_tempo_parameters(oqupy.Bath(c(o), corr), 0.0, 2.0, system=system, tolerance=1e-2)
        return p.dt, p.dkmax, p.epsrel
    try:
        for tds in (False, True):
            a = guess(np.eye(d, dtype=complex), tds)
            b = guess(v, tds)
            if abs(a[0] - b[0]) > 1e-9 * a[0] or a[1] != b[1] or abs(a[2] - b[2]) > 1e-9 * a[2]:
                out.append({"what": "estimated-parameters-depend-on-the-basis", "time_dependent": tds, "reference": list(a),
                            "rotated": list(b)})
    except Exception as ex:  # pylint: disable=broad-except
        out.append({"what": "exception", "detail": "%s: %s" % (type(ex).__name__, str(ex)[:160])})
    return out


def bathdyn_job(job):
    """Numerical (metamorphic): bath-mode occupations and two-time bath correlations derived from the system correlations
    (TwoTimeBathCorrelations) are numbers, not operators: the same in every basis."""
    import oqupy
    from oqupy import bath_dynamics
    d, kind, seed = job
    v = probes.haar_unitary(d, seed, "bathdyn", d) if kind == "haar" else probes.structured_unitary(d, "fourier")
    o = np.diag(np.linspace(0.5, -0.5, d)).astype(complex)
    h = np.diag(np.linspace(0.3, -0.3, d)).astype(complex) + 0.4 * (np.eye(d, k=1) + np.eye(d, k=-1))
    rho0 = probes.generic_rho(d, seed)
    corr = oqupy.PowerLawSD(alpha=0.3, zeta=1.0, cutoff=2.0, cutoff_type="exponential", temperature=0.5)
    params = oqupy.TempoParameters(dt=0.1, epsrel=1e-10, dkmax=None)

    def run_in(rot):
        c = lambda m: rot @ m @ rot.conj().T
        bath = oqupy.Bath(c(o), corr)
        pt = oqupy.PtTempo(bath, 0.0, 0.61, params).get_process_tensor(progress_type="silent")
        b = bath_dynamics.TwoTimeBathCorrelations(oqupy.System(c(h)), bath, pt, initial_state=c(rho0))
        occ = b.occupation(1.3, progress_type="silent")[1]
        cc = [b.correlation(1.3, 0.2, freq_2=0.9, time_2=0.5, dagg=dg, progress_type="silent") for dg in ((1, 0), (0, 0))]
        return np.concatenate([np.asarray(occ, dtype=complex), np.asarray(cc, dtype=complex)])
    try:
        a = run_in(np.eye(d, dtype=complex))
        b_ = run_in(v)
    except Exception as ex:  # pylint: disable=broad-except
        return [{"what": "exception", "detail": "%s: %s" % (type(ex).__name__, str(ex)[:160])}]
    err = float(np.max(np.abs(a - b_)))
    return [] if err < 1e-7 else [{"what": "bath-observables-depend-on-the-basis", "err": err, "scale": float(np.max(np.abs(a)))}]


def run(ctx):
    quick = ctx.tier == "quick"
    space = "UNION {[1..d -> (-1)..2] : d \\in 2..3}" if quick else "UNION {[1..d -> (-1)..2] : d \\in 2..4}"
    r = ctx.tlc("Degeneracy", DEG_CFG, label="all eigenvalue tuples over -1..2",
                constants={"OSpace": space, "Emit": "TRUE"}, workers=1)
    tuples = [c["o"] for c in r.cases]
    if not quick:
        # dimension 5: sorted tuples only (multisets), enumerated here from the same value range
        import itertools
        tuples += [list(t) for t in itertools.combinations_with_replacement(range(-1, 3), 5)]
    jobs = [(o, rk, ctx.seed) for o in tuples for rk in ROTS]
    res = core.pmap(check_bath, jobs, chunksize=16)
    for (o, rk, _), mm in zip(jobs, res):
        ctx.case({"o": o, "rot": rk, "check": "Bath accepts / diagonalises"},
                 nontrivial=len(set(o)) < len(o))
        for m in mm:
            ctx.violation("C05:bath:" + m["what"], "o=%s V=%s %s" % (o, rk, m), {"o": o, "rot": rk})

    consts = {"MaxN": "3", "MinN": "2", "KSet": "{1,2,1000}", "ASet": "{1000,1}",
              "OSet": "{<<1,-1>>, <<0,1,3>>, <<1,1,0>>, <<0,0,0>>}" if quick
                      else "{<<1,-1>>, <<0,2>>, <<0,1,3>>, <<1,1,0>>, <<0,0,0>>, <<0,1,1,2>>, <<2,2,0,0>>}",
              "ShiftSet": "{<<0,0>>, <<1,0>>, <<1,1>>}", "AlgSet": '{"row","col"}'}
    cases = eng.generate(ctx, consts, "behaviours to be presented in rotated bases")
    jobs = []
    for idx, case in enumerate(cases):
        for rk in (ROTS[:4] if not quick else [ROTS[idx % 4], "haar"]):
            jobs.append({"case": case, "variant": {"rot": rk, "unique": bool((idx + len(rk)) % 2)}, "seed": ctx.seed})
        if case["alg"] == "row" and len(case["sh"]) == 2 and case["sh"][0] == case["sh"][1]:
            jobs.append({"case": case, "variant": {"rot": "haar", "method": "mf"}, "seed": ctx.seed})
        if case["alg"] == "col" and idx % 2 == 1:
            jobs.append({"case": case, "variant": {"rot": "haar", "peek_raw": True}, "seed": ctx.seed})
        if case["alg"] == "col" and idx % 2 == 0:
            # PT-TEMPO writing its process tensor (with the basis transforms) to a file that is imported again
            jobs.append({"case": case, "variant": {"rot": "haar", "pt_roundtrip": ("simple", "file")[(idx // 2) % 2]},
                         "seed": ctx.seed})
    results = core.pmap(eng.run_variant, jobs, chunksize=8)
    for job, res_ in zip(jobs, results):
        cid = eng.case_id(job["case"], job["variant"])
        ctx.case(cid, nontrivial=True)
        for mm in res_["mismatch"]:
            key = "C05:%s:%s" % (job["variant"].get("method", job["case"]["alg"]), mm["what"])
            ctx.violation(key, "case %s: %s" % (cid, mm), {"case": job["case"], "variant": job["variant"]})
    djobs = [(m, d, k, ctx.seed) for m in ("tempo", "pt", "free", "mf") for d in ((2, 3) if quick else (2, 3, 4))
             for k in ("haar", "fourier")]
    for j, mm in zip(djobs, core.pmap(dissipative_job, djobs)):
        ctx.case({"check": "dissipative system in a complex basis (numerical)", "method": j[0], "d": j[1], "V": j[2]}, nontrivial=True)
        for x in mm:
            ctx.violation("C05:dissipative:%s:%s" % (j[0], x["what"]), "%s: %s" % (j[:3], x), {"dissipative": list(j)})
    bjobs = [(d, k, ctx.seed) for d in (2, 3) for k in ("haar", "fourier")]
    for j, mm in zip(bjobs, core.pmap(bathdyn_job, bjobs)):
        ctx.case({"check": "bath occupations / correlations in a rotated basis (numerical)", "d": j[0], "V": j[1]}, nontrivial=True)
        for x in mm:
            ctx.violation("C05:bath-dynamics:%s" % x["what"], "%s: %s" % (j[:2], x), {"bathdyn": list(j)})
    gjobs = [(d, k, ctx.seed) for d in (2, 3) for k in ("haar", "fourier")]
    for j, mm in zip(gjobs, core.pmap(guess_job, gjobs)):
        ctx.case({"check": "estimated parameters in a rotated basis", "d": j[0], "V": j[1]}, nontrivial=True)
        for x in mm:
            ctx.violation("C05:guess:%s" % x["what"], "%s: %s" % (j[:2], x), {"guess": list(j)})
    ctx.rule = ("(a) eigenvalue tuples over -1..2, d=2..3 (quick) / 2..5 (thorough) x V in {perm, fourier, real, haar}: "
                "Bath contract; (b) Influence.tla behaviours x V replayed through Tempo / PtTempo+compute_dynamics / "
                "MeanFieldTempo and rotated back; non-trivial (a) = repeated eigenvalue, (b) all")
    ctx.exhaustive = True
    ctx.assumptions += ["Haar unitaries drawn from VERIF_SEED; tolerance 1e-9",
                        "systems with Lindblad terms (non-normal operators, time-dependent rates): metamorphic numerical comparison of "
                        "the rotated with the unrotated run (2e-7 at epsrel 1e-10)"]


def replay(ctx, rep):
    core._init_worker()
    c = rep["case"]
    if "variant" in c:
        res = eng.run_variant({"case": c["case"], "variant": c["variant"], "seed": rep.get("seed", 0)})
        ctx.case(eng.case_id(c["case"], c["variant"]))
        for mm in res["mismatch"]:
            ctx.violation("C05:replay:" + mm["what"], str(mm), c)
    elif "bathdyn" in c:
        ctx.case(c)
        for x in bathdyn_job(tuple(c["bathdyn"])):
            ctx.violation("C05:replay:" + x["what"], str(x), c)
    elif "guess" in c:
        ctx.case(c)
        for x in guess_job(tuple(c["guess"])):
            ctx.violation("C05:replay:" + x["what"], str(x), c)
    elif "dissipative" in c:
        ctx.case(c)
        for x in dissipative_job(tuple(c["dissipative"])):
            ctx.violation("C05:replay:" + x["what"], str(x), c)
    else:
        for m in check_bath((c["o"], c["rot"], rep.get("seed", 0))):
            ctx.violation("C05:bath:" + m["what"], str(m), c)
        ctx.case(c)
