r"""C04 - every reported state is a physical density matrix.

Spec: specs/Physical.tla.  Generator part: TLC enumerates the discrete configuration space
(method x memory setting x degeneracy reduction x dimension x kind of system x coupling
class x temperature class x kind of initial state).  Monitor part (code -> spec trace
validation): every run of the real code is recorded as a trace of per-step records (trace,
Hermiticity and positivity deviations quantised in units of the admissible tolerance, and
the PT-TEBD norm); TLC consumes every record of every run and evaluates the physicality
invariant at every step: Hermitian and unit trace always, positive semidefinite only with
full memory, chain norm one, Gibbs state normalised / Hermitian / positive.
Continuous parameters (couplings up to alpha = 1.5, temperatures, Hamiltonian strengths)
are drawn from VERIF_SEED.  In addition all exact-probe replays of C01-C03 assert
Hermiticity and unit trace of the real states at every step.
"""
import json
import math
import os
import tempfile

import numpy as np

from harness import core, probes

LEVEL = "model_checking"

CFG_GEN = """
INIT GenInit
NEXT GenNext
INVARIANT EmitCfg
"""
CFG_TRACE = """
INIT TraceInit
NEXT TraceNext
INVARIANT EmitBad
POSTCONDITION TraceAccepted
"""
EPSREL = 1e-7
TOLFACTOR = 30.0        # admissible deviation = TOLFACTOR * epsrel * (step + 1): a parameter, not derived
DT = 0.1
NSTEPS = 6
ALPHA = {1: 0.05, 2: 0.5, 3: 1.5}
TEMP = {0: 0.0, 1: 1.0}


def quant(x, k):
    tol = TOLFACTOR * EPSREL * (k + 1) + 1e-10
    return int(min(1000, math.ceil(abs(x) / tol)))


def spin_ops(d):
    if d == 2:
        sx = np.array([[0, 1], [1, 0]], dtype=complex) / 2
        sz = np.diag([0.5, -0.5]).astype(complex)
        sy = np.array([[0, -1j], [1j, 0]]) / 2
    else:
        s = 1 / np.sqrt(2)
        sx = np.array([[0, s, 0], [s, 0, s], [0, s, 0]], dtype=complex)
        sy = np.array([[0, -1j * s, 0], [1j * s, 0, -1j * s], [0, 1j * s, 0]])
        sz = np.diag([1.0, 0.0, -1.0]).astype(complex)
    return sx, sy, sz


def initial_state(d, kind, rng):
    if kind == "pure":
        v = rng.normal(size=d) + 1j * rng.normal(size=d)
        v /= np.linalg.norm(v)
        return np.outer(v, v.conj())
    if kind == "mixed":
        a = rng.normal(size=(d, d)) + 1j * rng.normal(size=(d, d))
        rho = a @ a.conj().T
        return rho / np.trace(rho)
    a = rng.normal(size=(d, d - 1)) + 1j * rng.normal(size=(d, d - 1))       # rank d-1
    rho = a @ a.conj().T
    return rho / np.trace(rho)


def run_config(job):
    import oqupy
    cfg, seed, idx = job
    rng = probes.rng_for(seed, "c04", idx)
    d = cfg["d"]
    sx, sy, sz = spin_ops(d)
    alpha, temp = ALPHA[cfg["alpha"]] * (0.8 + 0.4 * rng.random()), TEMP[cfg["temp"]] * (0.7 + 0.6 * rng.random())
    w0, wx = 0.5 + rng.random(), 0.5 + rng.random()
    corr = oqupy.PowerLawSD(alpha=alpha, zeta=1.0, cutoff=3.0, cutoff_type="exponential", temperature=temp)
    kw = {}
    if cfg["mem"] != "full":
        kw["dkmax"] = 3
    if cfg["mem"] == "dkmax+addcorr":
        kw["add_correlation_time"] = 2 * DT
    params = oqupy.TempoParameters(dt=DT, epsrel=EPSREL, **kw)
    h0 = w0 * sz + wx * sx + 0.4 * sy           # a complex Hermitian Hamiltonian
    gam, lop = 0.3, sx - 1j * sy
    if idx % 2:
        # the same decay channel between the eigenstates of another (complex) basis: A+A has complex off-diagonal elements
        vv = probes.haar_unitary(d, seed, "c04-lop", idx)
        lop = vv @ lop @ vv.conj().T
    if cfg["sys"] == "static":
        system = oqupy.System(h0)
    elif cfg["sys"] == "timedep":
        system = oqupy.TimeDependentSystem(lambda t: w0 * sz + wx * np.cos(2 * t) * sx + 0.3 * np.sin(t) * sy)
    elif cfg["sys"] == "defective":
        # a decay ladder |2> -> |1> -> |0> with equal rates and a diagonal Hamiltonian: the Liouvillian has Jordan blocks
        lad1 = np.zeros((d, d), dtype=complex)
        lad2 = np.zeros((d, d), dtype=complex)
        lad1[1, 2] = 1.0
        lad2[0, 1] = 1.0
        h0 = np.diag(np.linspace(0.3, -0.3, d)).astype(complex)
        system = oqupy.System(h0, gammas=[0.8, 0.8], lindblad_operators=[lad1, lad2])
        gam, lop = 0.8, lad1
    else:
        system = oqupy.System(h0, gammas=[gam], lindblad_operators=[lop])
    rho0 = initial_state(d, cfg["init"], rng)
    coupling = {"diagonal": sz, "real": 0.6 * sz + 0.8 * sx, "complex": 0.5 * sz + 0.5 * sx + 0.7 * sy,
                "degenerate": np.diag([1.0, 1.0, -1.0][:d]).astype(complex)}[cfg["coupling"]]
    bath = oqupy.Bath(coupling, corr)
    ptfile = True if cfg["file"] else None          # a temporary file-backed process tensor
    end = NSTEPS * DT + DT / 4
    states, norms = [], None
    try:
        if cfg["method"] == "tempo":
            states = oqupy.Tempo(system, bath, params, rho0, 0.0, unique=cfg["unique"]).compute(end, progress_type="silent").states
        elif cfg["method"] == "pt+dynamics":
            pt = oqupy.PtTempo(bath, 0.0, end, params, unique=cfg["unique"], process_tensor_file=ptfile).get_process_tensor(
                progress_type="silent")
            states = oqupy.compute_dynamics(system, initial_state=rho0, process_tensor=pt, progress_type="silent").states
            if ptfile:
                pt.remove()
        elif cfg["method"] == "mftempo":
            if cfg["sys"] == "timedep":
                fs = oqupy.TimeDependentSystemWithField(lambda t, a: w0 * sz + (wx * np.cos(2 * t) + 0.2 * a.real) * sx)
            else:
                fs = oqupy.TimeDependentSystemWithField(lambda t, a: h0 + 0.2 * a.real * sx, gammas=[lambda t: gam],
                                                        lindblad_operators=[lambda t: lop])
            mfs = oqupy.MeanFieldSystem([fs], field_eom=lambda t, st, a: -0.5j * a - 0.3j * np.trace(st[0] @ (sx - 1j * sy)))
            d_ = oqupy.MeanFieldTempo(mfs, [bath], params, [rho0], 0.3 + 0.1j, 0.0, unique=cfg["unique"]).compute(
                end, progress_type="silent")
            states = d_.system_dynamics[0].states
        elif cfg["method"] == "tebd":
            pt = oqupy.PtTempo(bath, 0.0, end, params, process_tensor_file=ptfile).get_process_tensor(progress_type="silent")
            chain = oqupy.SystemChain([d, d, d])
            for i in range(3):
                chain.add_site_hamiltonian(i, h0 * (1 + 0.1 * i))
            chain.add_nn_hamiltonian(0, sz, sz * 0.7)
            chain.add_nn_hamiltonian(1, sx, sx * 0.5)
            # an antisymmetric exchange D (sx sy - sy sx): Hermitian, but not a real-symmetric two-site operator
            chain.add_nn_hamiltonian(0, sx, sy * 0.4)
            chain.add_nn_hamiltonian(0, sy, sx * (-0.4))
            if cfg["sys"] == "defective":
                chain.add_site_dissipation(1, lad1, 0.8)
                chain.add_site_dissipation(1, lad2, 0.8)
            if cfg["sys"] == "dissipative":
                chain.add_site_dissipation(2, lop, gam)
                # incoherent hopping: two-site dissipators with non-normal operators on either site
                chain.add_nn_dissipation(0, lop, lop.conj().T, 0.4)
                chain.add_nn_dissipation(1, np.eye(d, dtype=complex), lop, 0.2)
            mps = oqupy.AugmentedMPS([rho0.copy(), initial_state(d, "mixed", rng), initial_state(d, "pure", rng)])
            ctrl = None
            if cfg["sys"] == "timedep":
                # control operations on the chain: a non-unital channel (decay towards level 0), pre and post
                # measurement, and a unitary kick - all trace preserving and completely positive
                p_ = 0.35
                ks = [np.diag([1.0] + [np.sqrt(1 - p_)] * (d - 1)).astype(complex)]
                for lev in range(1, d):
                    k_ = np.zeros((d, d), dtype=complex)
                    k_[lev - 1, lev] = np.sqrt(p_)
                    ks.append(k_)
                damp = sum(np.kron(k_, k_.conj()) for k_ in ks)
                from scipy.linalg import expm
                u_ = expm(-0.4j * (sx + 0.5 * sy))
                kick = np.kron(u_, u_.conj())
                ctrl = oqupy.ChainControl([d, d, d])
                ctrl.add_single_site_control(damp, 1, 1, post=False)
                ctrl.add_single_site_control(kick, 0, 2, post=True)
                ctrl.add_single_site_control(damp, 2, NSTEPS - 1, post=True)
            t = oqupy.PtTebd(mps, chain, [pt, None, None], oqupy.PtTebdParameters(dt=DT, order=2, epsrel=EPSREL),
                             dynamics_sites=[0, 1, (1, 2), (0, 2)], chain_control=ctrl)
            if cfg.get("restart"):
                # continued from the exported chain state (bond dimension > 1, explicit lambdas) at a step without a
                # pre-measurement control (that combination is C14's known finding)
                k0 = 3
                res = t.compute(k0, progress_type="silent")
                t2 = oqupy.PtTebd(t.get_augmented_mps(), chain, [pt, None, None],
                                  oqupy.PtTebdParameters(dt=DT, order=2, epsrel=EPSREL), dynamics_sites=[0, 1, (1, 2), (0, 2)],
                                  chain_control=ctrl, start_step=k0)
                res2 = t2.compute(NSTEPS, progress_type="silent")
                norms = list(res["norm"]) + list(res2["norm"])[1:]
                states = [(a, b, c, e) for r_ in (res, res2) for a, b, c, e in
                          list(zip(r_["dynamics"][0].states, r_["dynamics"][1].states, r_["dynamics"][(1, 2)].states,
                                   r_["dynamics"][(0, 2)].states))[(1 if r_ is res2 else 0):]]
            else:
                res = t.compute(NSTEPS, progress_type="silent")
                norms = res["norm"]
                states = [(a, b, c, e) for a, b, c, e in zip(res["dynamics"][0].states, res["dynamics"][1].states,
                                                             res["dynamics"][(1, 2)].states, res["dynamics"][(0, 2)].states)]
            if ptfile:
                pt.remove()
        elif cfg["method"] == "gibbs":
            # the zero of energy is a convention: every other configuration counts energies from far below the spectrum
            # (all levels at 16..17 T above zero)
            hg = h0 + (16.0 * float(corr.temperature) * np.eye(d) if idx % 2 == 0 else 0.0)
            g = oqupy.GibbsTempo(oqupy.System(hg), bath, oqupy.GibbsParameters(n_steps=NSTEPS, epsrel=EPSREL))
            g.compute(progress_type="silent")
            states = [g.get_state()]
    except Exception as ex:  # pylint: disable=broad-except
        import traceback
        return {"id": idx, "cfg": cfg, "steps": [], "error": "%s: %s" % (type(ex).__name__, str(ex)[:160]) + traceback.format_exc()[-300:]}
    steps = []
    raw = []
    for k, st in enumerate(states):
        mats = st if isinstance(st, tuple) else (st,)
        tr = max(abs(np.trace(m) - (1 if norms is None else norms[k])) for m in mats)
        herm = max(np.max(np.abs(m - m.conj().T)) for m in mats)
        mine = max(max(0.0, -np.linalg.eigvalsh((m + m.conj().T) / 2).min()) for m in mats)
        nrm = 0.0 if norms is None else abs(norms[k] - 1)
        steps.append({"k": k, "tr": quant(tr, k), "herm": quant(herm, k), "mineig": quant(mine, k), "norm": quant(nrm, k)})
        raw.append([float(tr), float(herm), float(mine), float(nrm)])
    return {"id": idx, "cfg": cfg, "steps": steps, "raw": raw}


def run(ctx):
    quick = ctx.tier == "quick"
    gen = ctx.tlc("Physical", CFG_GEN, label="configuration space", constants={"Emit": "TRUE"}, workers=1,
                  env={"TRACE_FILE": "/dev/null"})
    cfgs = gen.cases
    rng = probes.rng_for(ctx.seed, "c04-sample")
    order = list(rng.permutation(len(cfgs)))
    if quick:
        # stratified: at least one configuration of every (method, coupling kind, storage, system kind, memory) class
        seen, take = {}, []
        for i in order:
            c = cfgs[i]
            g = (c["method"], c["coupling"], c["file"], c["sys"], c["mem"], c["restart"], c["unique"] and c["coupling"] == "degenerate")
            if seen.get(g, 0) < 2:
                seen[g] = seen.get(g, 0) + 1
                take.append(i)
    else:
        take = order
    jobs = [(cfgs[i], ctx.seed, int(i)) for i in take]
    runs = core.pmap(run_config, jobs, chunksize=2)
    good = []
    for r in runs:
        if r.get("error"):
            ctx.case({"cfg": r["cfg"]}, validated=False)
            ctx.violation("C04:%s:exception" % r["cfg"]["method"], "%s: %s" % (r["cfg"], r["error"]), {"cfg": r["cfg"], "idx": r["id"]})
        else:
            good.append(r)
    # code -> spec: TLC consumes every record of every run and evaluates the invariant at every step
    fd, path = tempfile.mkstemp(prefix="vphys_", suffix=".json")
    try:
        with os.fdopen(fd, "w") as f:
            json.dump([{"id": r["id"], "cfg": r["cfg"], "steps": r["steps"]} for r in good], f)
        tr = ctx.tlc("Physical", CFG_TRACE, label="monitor: %d runs, %d recorded states" % (
            len(good), sum(len(r["steps"]) for r in good)), constants={"Emit": "FALSE"}, workers=1,
            env={"TRACE_FILE": path})
    finally:
        os.remove(path)
    bad = {}
    for c in tr.cases:
        for rid, k in c.get("bad", []):
            bad.setdefault(rid, []).append(k)
    worst = [0.0, 0.0, 0.0, 0.0]
    for r in good:
        nontrivial = r["cfg"]["alpha"] >= 2 or r["cfg"]["mem"] != "full"
        ctx.case({"cfg": r["cfg"], "states": len(r["steps"])}, nontrivial=nontrivial)
        for k, rw in enumerate(r["raw"]):
            tol = TOLFACTOR * EPSREL * (k + 1) + 1e-10
            for j in range(4):
                if j != 2 or r["cfg"]["mem"] == "full":
                    worst[j] = max(worst[j], rw[j] / tol)
        if r["id"] in bad:
            k = bad[r["id"]][0]
            st = r["steps"][k]
            which = [n for n in ("tr", "herm", "norm") if st[n] > 1] + (["mineig"] if st["mineig"] > 1 and r["cfg"]["mem"] == "full" else [])
            ctx.violation("C04:%s:%s" % (r["cfg"]["method"], "+".join(which)),
                          "cfg=%s step=%d deviations(raw)=%s (trace, hermiticity, -min eigenvalue, norm)" % (r["cfg"], k, r["raw"][k]),
                          {"cfg": r["cfg"], "idx": r["id"]})
    ctx.extra["worst_deviation_in_units_of_tolerance"] = {"trace": worst[0], "hermiticity": worst[1],
                                                          "positivity(full memory)": worst[2], "tebd norm": worst[3]}
    ctx.extra["tolerance"] = "%.0f * epsrel(%g) * (step + 1) + 1e-10" % (TOLFACTOR, EPSREL)
    ctx.rule = ("configurations enumerated by TLC (Physical.tla ConfigSpace, %d in total; %d drawn with VERIF_SEED in this tier) "
                "with seed-drawn continuous parameters; every recorded state of every run validated by the TLC monitor; "
                "non-trivial = coupling alpha >= 0.5 or a memory cutoff" % (len(cfgs), len(take)))
    ctx.exhaustive = not quick
    ctx.assumptions += ["the admissible deviation (%s) is a parameter of the check, not derived" % ctx.extra["tolerance"],
                        "positivity is only demanded with full memory"]


def replay(ctx, rep):
    core._init_worker()
    c = rep["case"]
    r = run_config((c["cfg"], rep.get("seed", 0), c["idx"]))
    ctx.case({"replay": True})
    if r.get("error"):
        ctx.violation("C04:replay:exception", r["error"], c)
        return
    for st, rw in zip(r["steps"], r["raw"]):
        if st["tr"] > 1 or st["herm"] > 1 or st["norm"] > 1 or (st["mineig"] > 1 and c["cfg"]["mem"] == "full"):
            ctx.violation("C04:replay:unphysical", "step %d raw %s" % (st["k"], rw), c)
            break
