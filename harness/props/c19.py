r"""C19 - no computation leaves background activity behind, whether it returns or fails.

Spec: specs/Progress.tla - caller and timer-callback threads as processes, one action per
statement that touches shared state (Timer creation, start, cancel, lock acquire/release).
TLC checks NoOrphanTimer / NoLateOutput on every interleaving of the repaired protocol
("locked") with the caller returning normally or through an exit (with-block), shows that
the protocol as found ("asis") and an exit-less abort ("noexit": APIs that call
enter()/exit() by hand) violate them, and checks EventuallyQuiet under fairness.
Binding:
 (B) schedule replay - behaviours sampled by TLC are executed on the real ProgressBar
     with oqupy.util.Timer / Lock replaced by fakes whose methods are preemption points;
     a scheduler grants steps in the order of the behaviour and checks at every grant that
     the real thread is at the statement the specification expects, and finally that all
     timer states agree;
 (C) fault enumeration - every API x progress type x failing step with a timer that
     never fires: after the call raised or returned no timer may be armed;
 (D) the same once per API with real threading.Timer in a child process: no live
     thread, no output for 2.5 s, interpreter exits.
"""
import json
import os
import subprocess

import numpy as np

from harness import core, probes, progress_engine as pe

LEVEL = "model_checking"

CFG_MC = """
INIT Init
NEXT Next
INVARIANT NoOrphanTimer
INVARIANT NoLateOutput
CONSTRAINT BoundedTimers
VIEW View
"""
CFG_LIVE = """
SPECIFICATION FairSpec
PROPERTY EventuallyQuiet
CONSTRAINT BoundedTimers
VIEW View
"""
CFG_GEN = """
INIT Init
NEXT Next
INVARIANT EmitCase
CONSTRAINT BoundedTimers
"""

SX = np.array([[0, 1], [1, 0]], dtype=complex)
SZ = np.diag([1.0 + 0j, -1.0])
DT = 0.25
N = 3


class Boom(Exception):
    pass


FAULT = {"cls": Boom}       # what the failing callable raises: an ordinary exception, or a BaseException (Ctrl-C, sys.exit)


def failing_after(k, fn):
    """wrap fn: raises Boom on call number k (0-based); k < 0 never"""
    state = {"n": 0, "armed": False}

    def wrapped(*a, **kw):
        if state["armed"]:
            if state["n"] == k:
                state["n"] += 1
                raise FAULT["cls"]("injected at call %d" % k)
            state["n"] += 1
        return fn(*a, **kw)
    wrapped.state = state
    return wrapped


def identity_pt(n, d=2, dt=DT):
    from oqupy.process_tensor import SimpleProcessTensor
    p = SimpleProcessTensor(d, dt=dt)
    for k in range(n):
        p.set_mpo_tensor(k, np.eye(d * d).reshape(1, 1, d * d, d * d))
    p.compute_caps()
    return p


def api_call(api, ptype, k):
    """Build the inputs of one API with a fault at invocation k and return a thunk."""
    import oqupy
    rho0 = np.array([[0.7, 0.2], [0.2, 0.3]], dtype=complex)
    ham = failing_after(k, lambda t: 0.5 * SX + 0.1 * t * SZ)
    sd = probes.make_probe_sd(probes.probe_weights(2, 16, scale=1e-2), DT)
    bath = oqupy.Bath(0.5 * SZ, sd)
    params = oqupy.TempoParameters(dt=DT, epsrel=1e-9, dkmax=2, subdiv_limit=None)
    arm = []
    if api == "compute_dynamics":
        s = oqupy.TimeDependentSystem(ham)
        arm.append(ham)
        thunk = lambda: oqupy.compute_dynamics(s, initial_state=rho0, process_tensor=identity_pt(N),
                                               subdiv_limit=None, progress_type=ptype)
    elif api == "compute_dynamics_with_field":
        eom = failing_after(k, lambda t, st, a: -0.1j * a)
        fs = oqupy.TimeDependentSystemWithField(lambda t, a: 0.5 * SX)
        mfs = oqupy.MeanFieldSystem([fs], field_eom=eom)
        arm.append(eom)
        thunk = lambda: oqupy.compute_dynamics_with_field(mfs, 0.5, dt=DT, num_steps=N, initial_state_list=[rho0],
                                                          subdiv_limit=None, progress_type=ptype)
    elif api in ("state_gradient:hamiltonian", "state_gradient:target"):
        hp = failing_after(k if api.endswith("hamiltonian") else -1, lambda x: x * SX)
        # ParameterizedSystem inspects the signature: wrap with an explicit one-argument function
        psys = oqupy.ParameterizedSystem(lambda x: hp(x))
        tgt = failing_after(0 if api.endswith("target") else -1, lambda rho: np.eye(2, dtype=complex))
        arm += [hp, tgt]
        pars = np.full((2 * N, 1), 0.3)
        thunk = lambda: oqupy.state_gradient(system=psys, initial_state=rho0, target_derivative=lambda r: tgt(r),
                                             process_tensors=[identity_pt(N)], parameters=pars, progress_type=ptype)
    elif api == "Tempo":
        s = oqupy.TimeDependentSystem(ham)
        t = oqupy.Tempo(s, bath, params, rho0, 0.0)
        arm.append(ham)
        thunk = lambda: t.compute(N * DT + DT / 4, progress_type=ptype)
    elif api == "MeanFieldTempo":
        eom = failing_after(k, lambda t, st, a: -0.1j * a)
        fs = oqupy.TimeDependentSystemWithField(lambda t, a: 0.5 * SX)
        mfs = oqupy.MeanFieldSystem([fs], field_eom=eom)
        t = oqupy.MeanFieldTempo(mfs, [bath], params, [rho0], 0.5, 0.0)
        arm.append(eom)
        thunk = lambda: t.compute(N * DT + DT / 4, progress_type=ptype)
    elif api == "PtTempo":
        class FailingSD(type(sd)):
            pass
        calls = {"n": 0}
        orig = sd.eta_function

        def eta(tau, *a, **kw):
            calls["n"] += 1
            if calls["n"] - 1 == 3 + 2 * k:
                raise Boom("eta")
            return orig(tau, *a, **kw)
        sd.eta_function = eta
        p2 = oqupy.TempoParameters(dt=DT, epsrel=1e-9, dkmax=1, add_correlation_time=DT)
        b2 = oqupy.Bath(0.5 * SZ, sd)
        b2._correlations.eta_function = eta
        pt = oqupy.PtTempo(b2, 0.0, (N + 2) * DT + DT / 4, p2)
        thunk = lambda: pt.compute(progress_type=ptype)
    elif api == "GibbsTempo":
        jf = failing_after(40 + 25 * k, lambda w: 0.1 * w * np.exp(-w))
        corr = oqupy.CustomSD(lambda w: jf(w), cutoff=5.0, cutoff_type="hard", temperature=0.7)
        g = oqupy.GibbsTempo(oqupy.System(0.5 * SX), oqupy.Bath(np.diag([0.5, -0.5]), corr),
                             oqupy.GibbsParameters(n_steps=4, epsrel=1e-6))
        arm.append(jf)
        thunk = lambda: g.compute(progress_type=ptype)
    elif api == "PtTebd":
        chain = oqupy.SystemChain([2, 2])
        chain.add_site_hamiltonian(0, 0.5 * SX)
        chain.add_nn_hamiltonian(0, 0.3 * SZ, SZ)
        mps = oqupy.AugmentedMPS([rho0.copy(), rho0.copy()])
        # a process tensor that is too short: the tensor operation fails at step k+1
        tebd = oqupy.PtTebd(mps, chain, [identity_pt(max(k, 0) + 1), None],
                            oqupy.PtTebdParameters(dt=DT, order=2, epsrel=1e-9), dynamics_sites=[0])
        thunk = lambda: tebd.compute(N + 1 if k >= 0 else 1, progress_type=ptype)
    elif api in ("PtTebd:multithread", "PtTebd:multiprocess"):
        # a tensor-shape fault that surfaces inside a worker of the library's pool (step k + 1)
        chain = oqupy.SystemChain([2, 2, 2])
        for i in range(3):
            chain.add_site_hamiltonian(i, 0.5 * SZ)
        chain.add_nn_hamiltonian(0, 0.7 * SX, SX)
        chain.add_nn_hamiltonian(1, 0.7 * SX, SX)
        pt = identity_pt(N + 1)
        if k >= 0:
            pt.set_mpo_tensor(min(k, N), np.ones((1, 1, 4, 9)))
        mps = oqupy.AugmentedMPS([rho0.copy(), rho0.copy(), rho0.copy()])
        tebd = oqupy.PtTebd(mps, chain, [None, pt, None], oqupy.PtTebdParameters(dt=DT, order=2, epsrel=1e-9),
                            dynamics_sites=[0], backend_config={"parallel": api.split(":")[1]})
        thunk = lambda: tebd.compute(N + 1, progress_type=ptype)
    elif api == "compute_correlations":
        s = oqupy.TimeDependentSystem(ham)
        arm.append(ham)
        thunk = lambda: oqupy.compute_correlations(s, identity_pt(N), SZ, SZ, slice(None), slice(None),
                                                   initial_state=rho0, progress_type=ptype)
    elif api == "compute_correlations:single":
        # one first time only: a single propagation does all the work
        s = oqupy.TimeDependentSystem(ham)
        arm.append(ham)
        thunk = lambda: oqupy.compute_correlations(s, identity_pt(N), SZ, SZ, 0, slice(None),
                                                   initial_state=rho0, progress_type=ptype)
    elif api == "compute_correlations_nt":
        s = oqupy.TimeDependentSystem(ham)
        arm.append(ham)
        thunk = lambda: oqupy.compute_correlations_nt(s, identity_pt(N), [SZ, SZ, SZ], [0, 1, slice(None)], ["left", "right", "left"],
                                                      initial_state=rho0, progress_type=ptype)
    elif api == "compute_dynamics:final-only":
        # only the final state is recorded
        s = oqupy.TimeDependentSystem(ham)
        arm.append(ham)
        thunk = lambda: oqupy.compute_dynamics(s, initial_state=rho0, process_tensor=identity_pt(N), record_all=False,
                                               subdiv_limit=None, progress_type=ptype)
    elif api == "compute_dynamics_with_field:final-only":
        eom = failing_after(k, lambda t, st, a: -0.1j * a)
        fs = oqupy.TimeDependentSystemWithField(lambda t, a: 0.5 * SX)
        mfs = oqupy.MeanFieldSystem([fs], field_eom=eom)
        arm.append(eom)
        thunk = lambda: oqupy.compute_dynamics_with_field(mfs, 0.5, dt=DT, num_steps=N, initial_state_list=[rho0], record_all=False,
                                                          subdiv_limit=None, progress_type=ptype)
    elif api == "nothing-to-do":
        # calls that have no step left to take: a grid of zero steps, a target that has been reached before
        s = oqupy.TimeDependentSystem(ham)
        arm.append(ham)
        t = oqupy.Tempo(oqupy.System(0.5 * SX), bath, params, rho0, 0.0)
        chain = oqupy.SystemChain([2, 2])
        chain.add_site_hamiltonian(0, 0.5 * SX)
        tebd = oqupy.PtTebd(oqupy.AugmentedMPS([rho0.copy(), rho0.copy()]), chain, [None, None],
                            oqupy.PtTebdParameters(dt=DT, order=2, epsrel=1e-9), dynamics_sites=[0])

        def thunk():
            oqupy.compute_dynamics(s, initial_state=rho0, dt=DT, num_steps=0, subdiv_limit=None, progress_type=ptype)
            t.compute(0.0, progress_type=ptype)
            t.compute(2 * DT, progress_type=ptype)
            t.compute(DT, progress_type=ptype)
            tebd.compute(1, progress_type=ptype)
            tebd.compute(1, progress_type=ptype)
            oqupy.compute_dynamics(s, initial_state=rho0, dt=DT, num_steps=N, subdiv_limit=None, progress_type=ptype)
    else:
        raise ValueError(api)
    for f in arm:
        f.state["armed"] = True
    return thunk


APIS = ["compute_dynamics", "compute_dynamics_with_field", "state_gradient:hamiltonian", "state_gradient:target",
        "Tempo", "MeanFieldTempo", "PtTempo", "GibbsTempo", "PtTebd", "compute_correlations", "PtTebd:multithread",
        "compute_correlations:single", "compute_correlations_nt", "compute_dynamics:final-only",
        "compute_dynamics_with_field:final-only", "nothing-to-do"]
MANUAL_SITES = {"compute_dynamics": "compute_dynamics", "compute_dynamics_with_field": "compute_dynamics_with_field",
                "compute_dynamics:final-only": "compute_dynamics", "compute_dynamics_with_field:final-only": "compute_dynamics_with_field",
                "nothing-to-do": "compute_dynamics",
                "state_gradient:hamiltonian": "compute_gradient_and_dynamics",
                "state_gradient:target": "compute_gradient_and_dynamics"}


def fault_job(job):
    import contextlib
    import io
    import oqupy.util as util
    api, ptype, k = job[:3]
    FAULT["cls"] = {"KeyboardInterrupt": KeyboardInterrupt, "SystemExit": SystemExit}.get(job[3] if len(job) > 3 else "", Boom)
    saved = util.Timer
    registry = pe.install_passive_timer()
    out = []
    raised = None
    try:
        thunk = api_call(api, ptype, k)
        registry.clear()
        buf = io.StringIO()
        import threading
        import time
        before = set(threading.enumerate())
        kept = None
        with contextlib.redirect_stdout(buf):
            try:
                thunk()
            except BaseException as ex:  # pylint: disable=broad-except
                raised = type(ex).__name__
                kept = ex            # what a logging framework / pytest.raises does: the exception stays referenced
        armed = sum(1 for t in registry if t.state == "armed")
        if armed:
            out.append({"what": "orphan-timer", "armed": armed, "raised": raised, "timers": len(registry)})
        time.sleep(0.3)
        alive = [t.name for t in threading.enumerate() if t not in before and t.is_alive()]
        if alive:
            out.append({"what": "live-thread-after-call", "threads": alive[:4], "raised": raised})
        del kept
    except Exception as ex:  # pylint: disable=broad-except
        import traceback
        out.append({"what": "harness", "detail": traceback.format_exc()[-500:]})
    finally:
        util.Timer = saved
        FAULT["cls"] = Boom
    return {"mm": out, "raised": raised, "timers": len(registry)}


CHILD = r'''
import sys, threading, time, json, io, os
sys.path.insert(0, %(repo)r); sys.path.insert(0, %(verif)r)
os.environ["OMP_NUM_THREADS"] = "1"
import warnings; warnings.simplefilter("ignore")
from harness.props import c19
class Counting(io.TextIOBase):
    def __init__(self): self.n = 0
    def write(self, s): self.n += 1; return len(s)
    def flush(self): pass
out = Counting()
real_stdout = sys.stdout
sys.stdout = out
thunk = c19.api_call(%(api)r, "bar", %(k)d)
raised = None
kept = None
try:
    thunk()
except Exception as ex:
    raised = type(ex).__name__
    kept = ex      # the exception object stays referenced (logging framework, pytest.raises, ...)
n0 = out.n
time.sleep(2.5)
alive = [t.name for t in threading.enumerate() if t is not threading.main_thread() and t.is_alive()]
sys.stdout = real_stdout
print(json.dumps({"raised": raised, "late_writes": out.n - n0, "alive": alive}))
sys.stdout.flush()
os._exit(0 if not alive else 3)
'''


def real_thread_job(job):
    api, k = job
    code = CHILD % {"repo": core.REPO, "verif": core.VERIF, "api": api, "k": k}
    p = subprocess.run([core.PY, "-c", code], stdout=subprocess.PIPE, stderr=subprocess.PIPE, text=True, timeout=300)
    try:
        info = json.loads(p.stdout.strip().splitlines()[-1])
    except Exception:  # pylint: disable=broad-except
        return [{"what": "harness", "detail": (p.stdout + p.stderr)[-400:]}]
    out = []
    if info["alive"]:
        out.append({"what": "live-thread-after-call", "threads": info["alive"], "raised": info["raised"]})
    if info["late_writes"]:
        out.append({"what": "output-after-call", "writes": info["late_writes"], "raised": info["raised"]})
    return out


def sched_job(case):
    try:
        return pe.replay_schedule(case)
    except Exception:  # pylint: disable=broad-except
        import traceback
        return [{"what": "harness", "detail": traceback.format_exc()[-500:]}]


def run(ctx):
    quick = ctx.tier == "quick"
    base = {"NUpdates": "2" if quick else "3", "MaxTimers": "5" if quick else "6", "Emit": "FALSE", "OutFail": "FALSE",
            "ExitOrder": '"stop-first"'}
    # (A) the design: interleavings of caller and callbacks
    ctx.tlc("Progress", CFG_MC, label="repaired protocol, return / exit: all interleavings", workers=8,
            constants=dict(base, Protocol='"locked"', AbortModes='{"none","exit"}'))
    for label, proto, ab in [("protocol as found (must violate)", '"asis"', '{"none"}'),
                             ("repaired protocol, exception without exit (must violate)", '"locked"', '{"noexit"}')]:
        r = ctx.tlc("Progress", CFG_MC, label=label, workers=8, must_hold=False,
                    constants=dict(base, Protocol=proto, AbortModes=ab))
        if r.ok:
            raise core.MachineryError("Progress.tla does not distinguish: " + label)
    # the output stream may fail at any redraw (closed stream, broken pipe, a value the format rejects)
    ctx.tlc("Progress", CFG_MC, label="repaired protocol, any redraw may raise: all interleavings", workers=8,
            constants=dict(base, Protocol='"locked"', AbortModes='{"none","exit"}', OutFail="TRUE"))
    r = ctx.tlc("Progress", CFG_MC, label="deviation: exit() redraws before it stops the timer, failing output (must violate)",
                workers=8, must_hold=False,
                constants=dict(base, Protocol='"locked"', AbortModes='{"none"}', OutFail="TRUE", ExitOrder='"print-first"'))
    if r.ok:
        raise core.MachineryError("Progress.tla does not distinguish the exit order under failing output")
    ctx.tlc("Progress", CFG_LIVE, label="liveness under fairness: activity dies out", workers=4,
            constants=dict(base, Protocol='"locked"', AbortModes='{"none","exit"}', MaxTimers="4"))
    # (B) schedule replay on the real ProgressBar
    nsim = 400 if quick else 20000
    gen = ctx.tlc("Progress", CFG_GEN, label="sampled schedules for replay", workers=1,
                  constants=dict(base, Protocol='"locked"', AbortModes='{"none","exit","noexit"}', Emit="TRUE",
                                 MaxTimers="6"),
                  simulate="num=%d" % nsim, extra=["-depth", "80", "-seed", str(ctx.seed + 5)])
    gen2 = ctx.tlc("Progress", CFG_GEN, label="sampled schedules with failing output for replay", workers=1,
                   constants=dict(base, Protocol='"locked"', AbortModes='{"none","exit"}', Emit="TRUE", MaxTimers="6",
                                  OutFail="TRUE"),
                   simulate="num=%d" % nsim, extra=["-depth", "80", "-seed", str(ctx.seed + 6)])
    seen, cases = set(), []
    for c in list(gen.cases) + [c for c in gen2.cases if any(h[1] == "print_fail" for h in c["hist"])]:
        hk = json.dumps(c["hist"])
        if hk in seen or c["ntimers"] >= 6:
            continue
        if not c["quiescent"]:
            continue            # cut off by the timer bound
        seen.add(hk)
        cases.append(c)
    res = core.pmap(sched_job, cases, chunksize=8)
    for c, mm in zip(cases, res):
        fires = sum(1 for h in c["hist"] if h[1] == "fire")
        ctx.case({"schedule": c["hist"], "abort": c["abort"]}, nontrivial=fires > 0)
        for x in mm:
            if x["what"] == "harness":
                raise core.MachineryError(x["detail"])
            ctx.violation("C19:ProgressBar:%s" % x["what"], "abort=%s schedule=%s: %s" % (c["abort"], c["hist"], x),
                          {"schedule_case": c})
    ctx.extra["schedules_replayed"] = len(cases)
    # (C) API x progress type x failing step, timers that never fire
    ks = [-1, 0, 1, 2] if quick else [-1, 0, 1, 2, 3, 4, 5]
    jobs = [(api, pt, k) for api in APIS for pt in ("bar", "simple", "silent", None) for k in ks
            if not (pt in ("simple", "silent") and k > 0)]
    # the user interrupts (Ctrl-C) or a callable calls sys.exit(): not an Exception, the timers must still be stopped
    jobs += [(api, "bar", 1, cls) for api in APIS if "multi" not in api for cls in (("KeyboardInterrupt",) if quick else
                                                                                  ("KeyboardInterrupt", "SystemExit"))]
    res = core.pmap(fault_job, jobs, chunksize=2)
    for job_, r in zip(jobs, res):
        api, pt, k = job_[:3]
        ctx.case({"api": api, "progress_type": pt, "fail_at_call": k, "raised": r["raised"], "timers": r["timers"],
                  "fault": job_[3] if len(job_) > 3 else "Exception"},
                 nontrivial=r["raised"] is not None and r["timers"] > 0)
        for x in r["mm"]:
            if x["what"] == "harness":
                raise core.MachineryError(x["detail"])
            if api in MANUAL_SITES and x.get("raised"):
                key = "C19:%s:no-exit-on-exception" % MANUAL_SITES[api]
            else:
                key = "C19:%s:%s" % (api, x["what"])
            ctx.violation(key, "api=%s progress=%s fail_at=%s: %s" % (api, pt, k, x),
                          {"api": api, "ptype": pt, "k": k, "fault": job_[3] if len(job_) > 3 else ""})
    # (D) real timers, once per API
    rjobs = [(api, 1) for api in APIS] + [(api, -1) for api in APIS[:2]]
    res = core.pmap(real_thread_job, rjobs)
    for (api, k), mm in zip(rjobs, res):
        ctx.case({"api": api, "real_timer": True, "fail_at_call": k})
        for x in mm:
            if x["what"] == "harness":
                raise core.MachineryError(x["detail"])
            if api in MANUAL_SITES and x.get("raised"):
                key = "C19:%s:no-exit-on-exception" % MANUAL_SITES[api]
            else:
                key = "C19:%s:%s" % (api, x["what"])
            ctx.violation(key, "real timer, api=%s fail_at=%s: %s" % (api, k, x), {"api": api, "k": k, "real": True})
    ctx.rule = ("(A) all interleavings in Progress.tla; (B) %d TLC-sampled schedules replayed on the real ProgressBar with "
                "deterministic fake Timer/Lock (non-trivial = at least one timer fires); (C) every API x progress type x "
                "failing call index with a passive timer (non-trivial = the call raised and timers were created); (D) real "
                "timers in a child process per API" % len(cases))
    ctx.exhaustive = False
    ctx.assumptions += ["preemption only at Timer(), start(), cancel(), lock acquire/release (the statements that touch "
                        "shared state)", "real-timer run waits 2.5 s"]


def replay(ctx, rep):
    core._init_worker()
    c = rep["case"]
    if "schedule_case" in c:
        mm = pe.replay_schedule(c["schedule_case"])
    elif c.get("real"):
        mm = real_thread_job((c["api"], c["k"]))
    else:
        mm = fault_job((c["api"], c["ptype"], c["k"], c.get("fault", "")))["mm"]
    ctx.case({"replay": True})
    for x in mm:
        ctx.violation("C19:replay:" + x["what"], str(x), c)
