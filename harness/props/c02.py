r"""C02 - TEMPO and PT-TEMPO + compute_dynamics give the same dynamics; the first n
steps of a longer process tensor equal a process tensor built for n steps.

Spec: Influence.tla - RowMatchesDoc /\ ColMatchesDoc (both algorithm models produce the
documented influence set, hence each other's) and ColPrefix (restriction of an N-step
column cover to rows <= n is the n-step cover).  Binding: non-commuting permutation
("clock") systems - constant (System) and explicitly time-dependent (TimeDependentSystem,
piecewise-constant H(t), subdiv_limit None and 256) - so that the path of every matrix
element and hence its integer exponent is known to the spec; both methods are replayed
and decoded at every step; compute_dynamics(num_steps=n) on the N-step process tensor
is compared with the same spec state restricted to n; the times handed to H(t) are
validated against the sampling pattern of each step.
"""
import numpy as np

from harness import core, influence_engine as eng

LEVEL = "model_checking"


def run(ctx):
    quick = ctx.tier == "quick"
    consts = {
        "MaxN": "4" if quick else "5",
        "MinN": "2",
        "KSet": "{1,2,3,1000}" if quick else "{1,2,3,4,5,1000}",
        "ASet": "{1000,0,1,999}" if quick else "{1000,0,1,2,999}",
        "OSet": "{<<1,-1>>, <<0,1,3>>, <<1,1,0>>}",
        "ShiftSet": "{<<1,0>>, <<0,1>>, <<1,1>>, <<2,1>>, <<1,2,0,1,2,1,0,2,1,1,0,2>>, <<0,1,1,0,2,1,1,2>>}",
        "AlgSet": '{"row","col"}',
    }
    cases = eng.generate(ctx, consts, "non-commuting clock systems, both algorithms")
    if not quick:
        # four-level systems: short runs only (the untruncated networks grow like 16^N)
        c4 = dict(consts, MaxN="3", KSet="{1,2,1000}", ASet="{1000,1}", OSet="{<<0,1,2,4>>, <<1,0,1,0>>}",
                  ShiftSet="{<<1,0>>, <<2,1>>, <<1,3,0,2,1,1>>}")
        cases += eng.generate(ctx, c4, "four-level clock systems")
    jobs = []
    for idx, case in enumerate(cases):
        sh = case["sh"]
        vs = []
        if len(sh) == 2 and sh[0] == sh[1]:
            vs.append({"sysmode": "static"})
        vs.append({"sysmode": "td", "subdiv": None, "start": 0.5})
        if idx % 4 == 0:
            vs.append({"sysmode": "td", "subdiv": 256, "start": -0.25})
        if case["alg"] == "col" and case["N"] >= 3:
            for nsub in range(1, case["N"]):
                if (idx + nsub) % 2 == 0 or not quick:
                    vs.append({"sysmode": "td", "subdiv": None, "num_steps": nsub})
        if idx % 3 == 0:
            vs.append({"sysmode": "td", "unique": True})
        if idx % 3 == 1:
            vs.append({"sysmode": "td", "unique": True, "rot": "haar"})      # non-diagonal coupling with degeneracy reduction
        for v in vs:
            jobs.append({"case": case, "variant": v, "seed": ctx.seed})
    results = core.pmap(eng.run_variant, jobs, chunksize=4)
    for job, res in zip(jobs, results):
        cid = eng.case_id(job["case"], job["variant"])
        ctx.case(cid, nontrivial=True)
        for mm in res["mismatch"]:
            key = "C02:%s:%s" % (job["case"]["alg"], mm["what"])
            ctx.violation(key, "case %s: %s" % (cid, mm), {"case": job["case"], "variant": job["variant"]})
    ctx.rule = ("terminal states of Influence.tla with non-zero clock shifts (alg x N x dkmax x add_correlation_time x "
                "eigenvalues x shifts) x {System, TimeDependentSystem sampled, TimeDependentSystem integrated, "
                "num_steps=n<N on the N-step PT, unique}; both algorithms are compared with the same spec state, "
                "hence with each other")
    ctx.exhaustive = True
    ctx.assumptions += ["agreement 'within truncation tolerance' for generic (non-permutation) Hamiltonians is numerical and not covered; epsrel=1e-15 in probe runs"]


def replay(ctx, rep):
    core._init_worker()
    c = rep["case"]
    res = eng.run_variant({"case": c["case"], "variant": c["variant"], "seed": rep.get("seed", 0)})
    ctx.case(eng.case_id(c["case"], c["variant"]))
    for mm in res["mismatch"]:
        ctx.violation("C02:%s:%s" % (c["case"]["alg"], mm["what"]), str(mm), c)
