r"""C02 - TEMPO and PT-TEMPO + compute_dynamics give the same dynamics; the first n
steps of a longer process tensor equal a process tensor built for n steps.

Spec: Influence.tla - RowMatchesDoc /\ ColMatchesDoc (both algorithm models produce the
documented influence set, hence each other's) and ColPrefix (restriction of an N-step
column cover to rows <= n is the n-step cover).  Binding: non-commuting permutation
("clock") systems - constant (System) and explicitly time-dependent (TimeDependentSystem,
piecewise-constant H(t), subdiv_limit None and 256) - so that the path of every matrix
element and hence its integer exponent is known to the spec; both methods are replayed
and decoded at every step; compute_dynamics(num_steps=n) on the N-step process tensor
is compared with the same spec state restricted to n; the times handed to H(t) are
validated against the sampling pattern of each step.
"""
import numpy as np

from harness import core, influence_engine as eng

LEVEL = "model_checking"


def generic_job(job):
    """Numerical cross-check of the last sentence of the property (not decided by the specification): for generic
    non-commuting systems (random Hermitian H, Lindblad terms, explicit time dependence), real spectral densities and
    diagonal / non-diagonal couplings, TEMPO and PT-TEMPO + compute_dynamics agree to within a small multiple of the
    truncation tolerance (<= 100 epsrel), and the agreement tightens when the tolerance is tightened."""
    import oqupy
    from harness import probes
    seed, td, lind, kmem, unique = job
    r = np.random.default_rng(seed)
    sx = np.array([[0, 1], [1, 0]], complex)
    sy = np.array([[0, -1j], [1j, 0]])
    sz = np.diag([1.0, -1.0]).astype(complex)
    a, b, c = r.random(3)
    if td:
        system = oqupy.TimeDependentSystem(
            lambda t: (0.3 + a) * sx * np.cos(2 * t) + (0.2 + b) * sz + c * 0.3 * sy,
            gammas=[lambda t: 0.2 * (1 + 0.5 * np.sin(t))] if lind else None,
            lindblad_operators=[lambda t: sx - 1j * sy] if lind else None)
    else:
        system = oqupy.System((0.3 + a) * sx + (0.2 + b) * sz + 0.3 * c * sy, gammas=[0.2] if lind else None,
                              lindblad_operators=[sx - 1j * sy] if lind else None)
    corr = oqupy.PowerLawSD(alpha=0.2 + 0.3 * r.random(), zeta=1.0 if seed % 2 else 3.0, cutoff=3.0,
                            cutoff_type="exponential", temperature=0.0 if seed % 3 else 0.8)
    bath = oqupy.Bath([0.5 * sz, 0.5 * sx, 0.3 * sx + 0.4 * sz][seed % 3], corr)
    kw = {} if kmem is None else {"dkmax": kmem, "add_correlation_time": 0.3}
    rho0 = probes.generic_rho(2, seed)
    n, start = 8, 0.25
    diffs = []
    for eps in (1e-5, 1e-8):
        params = oqupy.TempoParameters(dt=0.1, epsrel=eps, **kw)
        d1 = oqupy.Tempo(system, bath, params, rho0, start, unique=unique).compute(start + n * 0.1 + 0.02, progress_type="silent")
        pt = oqupy.PtTempo(bath, start, start + n * 0.1 + 0.02, params, unique=unique).get_process_tensor(progress_type="silent")
        d2 = oqupy.compute_dynamics(system, initial_state=rho0, process_tensor=pt, start_time=start, progress_type="silent")
        diffs.append(float(np.max(np.abs(np.array(d1.states) - np.array(d2.states)))))
    out = []
    if diffs[0] > 100 * 1e-5 or diffs[1] > 100 * 1e-8:
        out.append({"what": "generic-agreement", "diffs": diffs})
    if not diffs[1] < diffs[0]:
        out.append({"what": "agreement-does-not-tighten", "diffs": diffs})
    return out


def run(ctx):
    quick = ctx.tier == "quick"
    gjobs = [(ctx.seed + i, bool(i % 2), bool((i // 2) % 2), (None, 4)[i % 2], bool(i % 3 == 0)) for i in range(6 if quick else 24)]
    for j, mm in zip(gjobs, core.pmap(generic_job, gjobs)):
        ctx.case({"generic": {"seed": j[0], "time_dependent": j[1], "lindblad": j[2], "dkmax": j[3], "unique": j[4]}}, nontrivial=True)
        for x in mm:
            ctx.violation("C02:numeric:%s" % x["what"], "%s: %s" % (j, x), {"generic": list(j)})
    consts = {
        "MaxN": "4" if quick else "5",
        "MinN": "2",
        "KSet": "{1,2,3,1000}" if quick else "{1,2,3,4,5,1000}",
        "ASet": "{1000,0,1,999}" if quick else "{1000,0,1,2,999}",
        "OSet": "{<<1,-1>>, <<0,1,3>>, <<1,1,0>>}",
        "ShiftSet": "{<<1,0>>, <<0,1>>, <<1,1>>, <<2,1>>, <<1,2,0,1,2,1,0,2,1,1,0,2>>, <<0,1,1,0,2,1,1,2>>}",
        "AlgSet": '{"row","col"}',
    }
    cases = eng.generate(ctx, consts, "non-commuting clock systems, both algorithms")
    if not quick:
        # four-level systems: short runs only (the untruncated networks grow like 16^N)
        c4 = dict(consts, MaxN="3", KSet="{1,2,1000}", ASet="{1000,1}", OSet="{<<0,1,2,4>>, <<1,0,1,0>>}",
                  ShiftSet="{<<1,0>>, <<2,1>>, <<1,3,0,2,1,1>>}")
        cases += eng.generate(ctx, c4, "four-level clock systems")
    jobs = []
    for idx, case in enumerate(cases):
        sh = case["sh"]
        vs = []
        if len(sh) == 2 and sh[0] == sh[1]:
            vs.append({"sysmode": "static"})
        vs.append({"sysmode": "td", "subdiv": None, "start": 0.5})
        if idx % 4 == 0:
            vs.append({"sysmode": "td", "subdiv": 256, "start": -0.25})
        if case["alg"] == "col" and case["N"] >= 3:
            for nsub in range(1, case["N"]):
                if (idx + nsub) % 2 == 0 or not quick:
                    vs.append({"sysmode": "td", "subdiv": None, "num_steps": nsub})
        if idx % 3 == 0:
            vs.append({"sysmode": "td", "unique": True})
        if idx % 3 == 1:
            vs.append({"sysmode": "td", "unique": True, "rot": "haar"})      # non-diagonal coupling with degeneracy reduction
        if idx % 5 == 0:
            if case["alg"] == "row":
                vs.append({"sysmode": "td", "legs": True})          # TEMPO continued in a second call
            else:
                # PT-TEMPO in a rotated basis, the tensor exported and imported again before compute_dynamics
                vs.append({"sysmode": "td", "rot": "haar", "pt_roundtrip": ("simple", "file")[(idx // 5) % 2]})
                vs.append({"sysmode": "td", "rot": "haar", "peek_raw": True})     # the raw tensors are looked at before use
        if case["K"] != eng.KNONE and idx % 3 == 2:
            # memory given as tcut = K * dt with a decimal dt (the quotient tcut / dt is not an integer in floating point):
            # both methods must still keep exactly K steps of memory
            vs.append({"sysmode": "td", "memory": "tcut", "dt": (0.1, 0.2, 0.3, 0.01, 0.7)[idx % 5]})
        for v in vs:
            jobs.append({"case": case, "variant": v, "seed": ctx.seed})
    results = core.pmap(eng.run_variant, jobs, chunksize=4)
    for job, res in zip(jobs, results):
        cid = eng.case_id(job["case"], job["variant"])
        ctx.case(cid, nontrivial=True)
        for mm in res["mismatch"]:
            key = "C02:%s:%s" % (job["case"]["alg"], mm["what"])
            ctx.violation(key, "case %s: %s" % (cid, mm), {"case": job["case"], "variant": job["variant"]})
    ctx.rule = ("terminal states of Influence.tla with non-zero clock shifts (alg x N x dkmax x add_correlation_time x "
                "eigenvalues x shifts) x {System, TimeDependentSystem sampled, TimeDependentSystem integrated, "
                "num_steps=n<N on the N-step PT, unique}; both algorithms are compared with the same spec state, "
                "hence with each other")
    ctx.exhaustive = True
    ctx.assumptions += ["agreement 'within truncation tolerance' for generic (non-permutation) Hamiltonians: numerical cross-check only (<= 100 epsrel at epsrel 1e-5 and 1e-8, and tightening); epsrel=1e-15 in probe runs"]


def replay(ctx, rep):
    core._init_worker()
    c = rep["case"]
    if "generic" in c:
        ctx.case({"replay": True})
        for x in generic_job(tuple(c["generic"])):
            ctx.violation("C02:replay:" + x["what"], str(x), c)
        return
    res = eng.run_variant({"case": c["case"], "variant": c["variant"], "seed": rep.get("seed", 0)})
    ctx.case(eng.case_id(c["case"], c["variant"]))
    for mm in res["mismatch"]:
        ctx.violation("C02:%s:%s" % (c["case"]["alg"], mm["what"]), str(mm), c)
