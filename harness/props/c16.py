r"""C16 - process tensors survive export, import and file-backed computation unchanged.

Spec: specs/PTRoundTrip.tla - abstract process tensor (everything observable), the exact
sequence of file operations export() must perform for it, the reader's reconstruction,
and RoundTrip == Read(Export(pt)) = pt, checked by TLC for every shape in the bound
(length, rank-3/rank-4 pattern, dt or none, transforms none/unitary/non-unitary, caps
present or not, named or not) x import type.  Binding: for every such case a real
SimpleProcessTensor with that shape is built (ancilla environments), exported through
the recording h5py proxy - the recorded operation trace must equal the spec's - imported
as 'file' or 'simple', and every getter plus every consumer (compute_dynamics,
compute_correlations, state_gradient, PtTebd) must agree with the original.
File-backed PT-TEMPO vs in-memory PT-TEMPO is compared gauge-invariantly.
"""
import os
import shutil
import tempfile

import numpy as np

from harness import core, probes, ptc_engine as eng

LEVEL = "model_checking"

CFG = """
INIT Init
NEXT Next
INVARIANT RoundTrip
INVARIANT EmitCase
"""
DT = 0.25
SX = np.array([[0, 1], [1, 0]], dtype=complex)
SZ = np.diag([1.0 + 0j, -1.0])


def build_from_abstract(apt):
    n = apt["len"]
    ranks = probes.norm_seq(apt["ranks"])
    plan = [["env", r, 1, ("CSP" if ranks[r] == 3 else ("SW", "SC")[r % 2])] for r in range(n)]
    case = {"d": 2, "m": 4, "n": n, "edims": [2], "a0": [1], "plan": plan}
    tr = apt["transforms"]
    variant = {"rank3": True, "caps": "computed" if len(apt["caps"]) else "none",
               "pt_dt": apt["dt"] != "none",
               "transforms": {"none": False, "unitary": True, "scaled": "scaled", "in-only": "in-only",
                              "out-only": "out-only"}[tr]}
    pt = eng.build_pts(case, variant, DT)[0]
    if apt["name"] != "__unnamed__":
        pt.name = apt["name"]
        pt.description = apt["description"]
    return pt


def same(a, b, tol=1e-12):
    if a is None or b is None:
        return a is None and b is None
    a, b = np.asarray(a), np.asarray(b)
    if a.ndim == 3 and b.ndim == 4 or a.ndim == 4 and b.ndim == 3:
        # a rank-3 MPO tensor means "delta between input and output leg": the two classes differ in
        # whether the untransformed getter expands it; compare the expanded forms
        from oqupy import util
        a = util.create_delta(a, [0, 1, 2, 2]) if a.ndim == 3 else a
        b = util.create_delta(b, [0, 1, 2, 2]) if b.ndim == 3 else b
    return a.shape == b.shape and (a.size == 0 or np.max(np.abs(a - b)) <= tol)


def consumers(pt, has_caps):
    """Results of every consumer for a process tensor (dict name -> array)."""
    import oqupy
    out = {}
    rho0 = np.array([[0.7, 0.2 - 0.1j], [0.2 + 0.1j, 0.3]])
    kw = {} if pt.dt is not None else {"dt": DT}
    n = len(pt)
    if not has_caps:
        return out      # no consumer accepts a process tensor without cap tensors (loud ValueError)
    if has_caps:
        dyn = oqupy.compute_dynamics(oqupy.System(0.7 * SX + 0.2 * SZ), initial_state=rho0, process_tensor=pt,
                                     progress_type="silent", **kw)
        out["dynamics"] = np.array(dyn.states)
        _, corr = oqupy.compute_correlations(oqupy.System(0.7 * SX + 0.2 * SZ), pt, SZ, SX, slice(None), [n, 0],
                                             initial_state=rho0, progress_type="silent", **kw)
        out["correlations"] = np.nan_to_num(corr, nan=-7.0)
    # (a process tensor without cap tensors cannot be contracted by compute_dynamics at all;
    #  only the gradient, which ignores caps, consumes it)
    if pt.dt is not None:
        psys = oqupy.ParameterizedSystem(lambda x, y: x * SX + y * SZ)
        pars = np.array([[0.3 + 0.1 * k, 0.2 - 0.05 * k] for k in range(2 * n)])
        res = oqupy.state_gradient(system=psys, initial_state=rho0, target_derivative=np.array([[0.2, 0.1], [0.1, 0.8]]),
                                   process_tensors=[pt], parameters=pars, progress_type="silent")
        out["gradient"] = np.array(res["gradient"])
        if has_caps:
            chain = oqupy.SystemChain([2, 2])
            chain.add_site_hamiltonian(0, 0.5 * SX)
            chain.add_site_hamiltonian(1, 0.3 * SZ)
            chain.add_nn_hamiltonian(0, 0.4 * SZ, SZ)
            mps = oqupy.AugmentedMPS([rho0.copy(), np.diag([0.5, 0.5]).astype(complex)])
            tebd = oqupy.PtTebd(mps, chain, [pt, None], oqupy.PtTebdParameters(dt=pt.dt, order=2, epsrel=1e-12),
                                dynamics_sites=[0, (0, 1)])
            r = tebd.compute(n, progress_type="silent")
            out["tebd"] = np.array(r["dynamics"][(0, 1)].states)
    return out


def roundtrip_job(job):
    import oqupy
    import oqupy.process_tensor as ptmod
    import h5py as real_h5py
    from harness.ptfile_child import Recorder, H5Proxy
    case, tmpdir, idx = job
    apt = case["pt"]
    out = []
    path = os.path.join(tmpdir, "rt_%d.h5" % idx)
    try:
        orig = build_from_abstract(apt)
        rec = Recorder(0, 0)
        ptmod.h5py = H5Proxy(real_h5py, rec)
        try:
            orig.export(path)
        finally:
            ptmod.h5py = real_h5py
        # the writer's operation trace vs the specification's Export(pt)
        want = [(e["op"], e["name"], e["val"]) for e in probes.norm_seq(case["events"])]
        got = [(e["op"], e["name"], "v" if e["name"] == "oqupy_version" else e["val"]) for e in rec.events]
        if got != want:
            k = next((i for i, (a, b) in enumerate(zip(got, want)) if a != b), min(len(got), len(want)))
            out.append({"what": "export-trace", "at": k, "expected": want[k] if k < len(want) else None,
                        "observed": got[k] if k < len(got) else None})
        imp = oqupy.import_process_tensor(path, case["itype"])
        n = apt["len"]
        checks = {
            "len": len(imp) == len(orig) == n,
            "dt": imp.dt == orig.dt,
            "dim": imp.hilbert_space_dimension == orig.hilbert_space_dimension,
            "transform_in": same(imp.transform_in, orig.transform_in),
            "transform_out": same(imp.transform_out, orig.transform_out),
            "name": imp.name == orig.name,
            "description": imp.description == orig.description,
            "bond_dims": same(imp.get_bond_dimensions(), orig.get_bond_dimensions()),
            "initial": imp.get_initial_tensor() is None and orig.get_initial_tensor() is None,
        }
        for i in range(n):
            checks["mpo%d" % i] = same(imp.get_mpo_tensor(i), orig.get_mpo_tensor(i))
            checks["mpo%d-raw" % i] = same(imp.get_mpo_tensor(i, transformed=False),
                                           orig.get_mpo_tensor(i, transformed=False))
        for i in range(n + 2):
            checks["cap%d" % i] = same(imp.get_cap_tensor(i), orig.get_cap_tensor(i))
        for k, ok in checks.items():
            if not ok:
                out.append({"what": "getter", "which": k})
        if not out:
            a = consumers(orig, bool(len(apt["caps"])))
            b = consumers(imp, bool(len(apt["caps"])))
            for k in a:
                if not same(a[k], b[k], 1e-11):
                    out.append({"what": "consumer", "which": k})
        if case["itype"] == "file":
            imp.close()
        # the file is replaced (overwrite=True) by another process tensor - one step longer, another label - and
        # imported again under the same path: the import reflects what the file holds now
        rk = list(probes.norm_seq(apt["ranks"]))
        other = dict(apt, len=n + 1, ranks=rk + [rk[-1]], name="second", description="second content")
        second = build_from_abstract(other)
        second.export(path, overwrite=True)
        for typ in ("simple", "file"):
            imp3 = oqupy.import_process_tensor(path, typ)
            if len(imp3) != n + 1 or imp3.name != "second" or not all(
                    same(imp3.get_mpo_tensor(i), second.get_mpo_tensor(i)) for i in range(n + 1)):
                out.append({"what": "import-after-overwrite-returns-old-content", "which": typ, "len": len(imp3), "name": imp3.name})
            if typ == "file":
                imp3.close()
        if case["itype"] == "file":
            # the same tensors written one by one into a file-backed tensor, caps computed by the file-backed object:
            # identical caps and consumers (the in-memory tensor is the reference)
            path3 = path + ".built.h5"
            try:
                # (transforms that do not preserve the trace vector included: the caps are the contraction of the *transformed*
                # tensors with the plain trace vector, whatever class holds the tensors)
                ref = build_from_abstract(dict(apt, caps=[1]))
                fb = ptmod.FileProcessTensor("write", filename=path3, hilbert_space_dimension=ref.hilbert_space_dimension,
                                             dt=ref.dt, transform_in=ref.transform_in, transform_out=ref.transform_out)
                for i in range(n):
                    fb.set_mpo_tensor(i, np.array(ref._mpo_tensors[i]))      # as handed in (rank 3 or 4)
                fb.compute_caps()
                for i in range(n + 2):
                    if not same(fb.get_cap_tensor(i), ref.get_cap_tensor(i)):
                        out.append({"what": "file-built-cap", "which": "cap%d" % i})
                        break
                else:
                    a, b = consumers(ref, True), consumers(fb, True)
                    for k in a:
                        if not same(a[k], b[k], 1e-11):
                            out.append({"what": "file-built-consumer", "which": k})
                # a tensor is replaced (same shape) in both containers and the caps are computed again: again identical
                if n >= 1 and not out:
                    repl = 0.5 * np.array(ref._mpo_tensors[n - 1]) + 0.25 * np.array(ref._mpo_tensors[0]) \
                        if np.array(ref._mpo_tensors[0]).shape == np.array(ref._mpo_tensors[n - 1]).shape else 0.5 * np.array(ref._mpo_tensors[n - 1])
                    ref.set_mpo_tensor(n - 1, repl.copy())
                    fb.set_mpo_tensor(n - 1, repl.copy())
                    ref.compute_caps()
                    fb.compute_caps()
                    for i in range(n + 1):
                        if not same(fb.get_cap_tensor(i), ref.get_cap_tensor(i)):
                            out.append({"what": "file-built-cap-after-replacing-a-tensor", "which": "cap%d" % i})
                            break
                # labels assigned after the file was created (as for an in-memory tensor) must reach the file
                fb.name = ref.name
                fb.description = ref.description
                fb.close()
                for typ in ("file", "simple"):
                    imp2 = oqupy.import_process_tensor(path3, typ)
                    if imp2.name != ref.name or imp2.description != ref.description:
                        out.append({"what": "file-built-labels", "which": typ, "expected": [ref.name, ref.description],
                                    "observed": [imp2.name, imp2.description]})
                    if typ == "file":
                        imp2.close()
            except StopIteration:
                pass
            finally:
                if os.path.exists(path3):
                    os.remove(path3)
    except Exception as ex:  # pylint: disable=broad-except
        import traceback
        out.append({"what": "exception", "detail": "%s: %s" % (type(ex).__name__, str(ex)[:160]),
                    "tb": traceback.format_exc()[-500:]})
    finally:
        if os.path.exists(path):
            os.remove(path)
    return out


def pttempo_job(job):
    """file-backed PT-TEMPO vs in-memory PT-TEMPO, then export/import of the latter."""
    import oqupy
    from harness.props.c14 import pt_fingerprint
    diag, unique, n, tmpdir = job
    out = []
    path = os.path.join(tmpdir, "ptt_%s_%s_%d.h5" % (diag, unique, n))
    path2 = path + ".exp.h5"
    try:
        sd = probes.make_probe_sd(probes.probe_weights(5, 20, scale=3e-2), DT)
        sy = np.array([[0, -0.5j], [0.5j, 0]])
        coupling = {True: np.diag([0.5, -0.5]), False: 0.5 * SX, "y": sy,
                    "generic": 0.3 * SX + 0.4 * sy + 0.2 * np.diag([0.5, -0.5])}[diag]
        bath = oqupy.Bath(coupling, sd)
        params = oqupy.TempoParameters(dt=DT, epsrel=1e-13, dkmax=2)
        mem = oqupy.PtTempo(bath, 0.0, n * DT + DT / 4, params, unique=unique,
                            name="mem", description="d").get_process_tensor(progress_type="silent")
        fil = oqupy.PtTempo(bath, 0.0, n * DT + DT / 4, params, unique=unique, process_tensor_file=path,
                            name="mem", description="d").get_process_tensor(progress_type="silent")
        fa, fb = pt_fingerprint(mem), pt_fingerprint(fil)
        if not all(same(x, y, 1e-9) for x, y in zip(fa, fb)):
            out.append({"what": "file-backed-differs"})
        for attr in ("dt", "hilbert_space_dimension", "name", "description"):
            if getattr(mem, attr) != getattr(fil, attr):
                out.append({"what": "file-backed-meta", "which": attr})
        if len(mem) != len(fil) or not same(mem.transform_in, fil.transform_in):
            out.append({"what": "file-backed-meta", "which": "len/transform"})
        fil.close()
        mem.export(path2)
        for typ in ("file", "simple"):
            imp = oqupy.import_process_tensor(path2, typ)
            ok = all(same(imp.get_mpo_tensor(i), mem.get_mpo_tensor(i)) for i in range(n)) and \
                all(same(imp.get_cap_tensor(i), mem.get_cap_tensor(i)) for i in range(n + 1))
            if not ok:
                out.append({"what": "pttempo-export-import", "import": typ})
            fc = pt_fingerprint(imp)
            if not all(same(x, y, 1e-11) for x, y in zip(fa, fc)):
                out.append({"what": "pttempo-export-import-consumer", "import": typ})
            if typ == "file":
                imp.close()
    except Exception as ex:  # pylint: disable=broad-except
        import traceback
        out.append({"what": "exception", "detail": "%s: %s" % (type(ex).__name__, str(ex)[:160]),
                    "tb": traceback.format_exc()[-400:]})
    finally:
        for p in (path, path2):
            if os.path.exists(p):
                os.remove(p)
    return out


def run(ctx):
    quick = ctx.tier == "quick"
    tmpdir = tempfile.mkdtemp(prefix="vrt_")
    try:
        r = ctx.tlc("PTRoundTrip", CFG, label="all shapes up to length %d x import type" % (2 if quick else 3),
                    constants={"MaxLen": "2" if quick else "3", "Emit": "TRUE"}, workers=1)
        jobs = [(c, tmpdir, i) for i, c in enumerate(r.cases)]
        res = core.pmap(roundtrip_job, jobs, chunksize=4)
        for (c, _, _), mm in zip(jobs, res):
            p = c["pt"]
            cid = {"len": p["len"], "ranks": p["ranks"], "dt": p["dt"], "transforms": p["transforms"],
                   "caps": bool(len(p["caps"])), "named": p["name"] != "__unnamed__", "import": c["itype"]}
            ctx.case(cid, nontrivial=True)
            for x in mm:
                ctx.violation("C16:%s:%s" % (c["itype"], x["what"] + (":" + x["which"] if "which" in x else "")),
                              "%s: %s" % (cid, x), {"case": c})
        pj = [(diag, unique, n, tmpdir) for diag in (True, False, "y", "generic") for unique in (False, True)
              for n in ((3,) if quick else (2, 3, 5))]
        for j, mm in zip(pj, core.pmap(pttempo_job, pj)):
            ctx.case({"pttempo": {"diagonal": j[0], "unique": j[1], "N": j[2]}}, nontrivial=True)
            for x in mm:
                ctx.violation("C16:pttempo:%s" % x["what"], "%s: %s" % (j[:3], x), {"pttempo": list(j[:3])})
    finally:
        shutil.rmtree(tmpdir, ignore_errors=True)
    ctx.rule = ("every abstract process tensor of PTRoundTrip.tla (length x rank pattern x dt x transforms x caps x named) x "
                "import type, realised as ancilla process tensors; plus PT-TEMPO (diagonal / non-diagonal coupling, unique) "
                "file-backed vs in-memory; all non-trivial")
    ctx.exhaustive = True
    ctx.assumptions += ["PT-TEMPO process tensors are compared gauge-invariantly (through compute_dynamics with two generic "
                        "systems, and bond dimensions) because the SVD gauge of the MPO tensors is not reproducible"]


def replay(ctx, rep):
    core._init_worker()
    tmpdir = tempfile.mkdtemp(prefix="vrt_")
    try:
        c = rep["case"]
        if "case" in c:
            mm = roundtrip_job((c["case"], tmpdir, 0))
        else:
            mm = pttempo_job(tuple(c["pttempo"]) + (tmpdir,))
        ctx.case({"replay": True})
        for x in mm:
            ctx.violation("C16:replay:" + x["what"], str(x), c)
    finally:
        shutil.rmtree(tmpdir, ignore_errors=True)
