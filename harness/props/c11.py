r"""C11 - the Gibbs-state computation returns the exact reduced thermal state.

Specs: specs/Gibbs.tla (one action per imaginary-time slice; exact Gaussian-integer
matrix powers P^(2k) for the zero-coupling case; slice-pair counts of the influence
functional for commuting models) and specs/Stepper.tla (kind "gibbs": any number of
compute()/get_state() calls leaves n_steps+1 dynamics entries and the same state).
Binding:
 (a) zero coupling, H = -(2/dbeta) logm(P) for Hermitian positive Gaussian-integer P,
     real-symmetric and complex: every recorded (unnormalised) state must equal the spec's
     P^(2k) entrywise, the returned state P^(2n)/Tr;
 (b) commuting models with the lattice (Matsubara) probe bath: the log-populations at every
     slice decode to the spec's slice-pair counts;
 (c) histories of compute/get_state from Stepper.tla;
 (d) every state normalised, Hermitian, positive.
The reorganisation-energy closed form for real spectral densities and its independence
of n_steps are numerical; a loose differential check is included and labelled as such.
"""
import numpy as np

from harness import core, probes
from harness.props import c14

LEVEL = "model_checking"

CFG = """
INIT Init
NEXT Next
INVARIANT InputOk
INVARIANT StateHermitian
INVARIANT StatePositiveDiag
INVARIANT StatePositive2
INVARIANT EmitCase
"""
PMATS = [
    [[(2, 0), (0, 1)], [(0, -1), (1, 0)]],                       # complex
    [[(2, 0), (1, 0)], [(1, 0), (1, 0)]],                        # real symmetric
    [[(3, 0), (1, 2)], [(1, -2), (2, 0)]],                       # complex
    [[(2, 0), (1, 1), (0, 0)], [(1, -1), (3, 0), (0, 1)], [(0, 0), (0, -1), (1, 0)]],
]


def tla_mat(m):
    return "<<" + ", ".join("<<" + ", ".join("<<%d,%d>>" % e for e in row) + ">>" for row in m) + ">>"


def to_np(m):
    return np.array([[complex(e[0], e[1]) for e in row] for row in m])


def zero_coupling_job(job):
    import oqupy
    from scipy.linalg import logm
    case, temp = job
    p = to_np(case["p"])
    n = case["n"]
    d = p.shape[0]
    dbeta = 1.0 / (temp * n)
    h = -(2.0 / dbeta) * logm(p)
    h = (h + h.conj().T) / 2
    out = []
    try:
        corr = oqupy.PowerLawSD(alpha=0.1, zeta=1.0, cutoff=2.0, cutoff_type="exponential", temperature=temp)
        g = oqupy.GibbsTempo(oqupy.System(h), oqupy.Bath(np.zeros((d, d)), corr),
                             oqupy.GibbsParameters(n_steps=n, epsrel=1e-12))
        dyn = g.compute(progress_type="silent")
        state = g.get_state()
    except Exception as ex:  # pylint: disable=broad-except
        return [{"what": "exception", "detail": "%s: %s" % (type(ex).__name__, str(ex)[:150])}]
    states = dyn.states
    if len(states) != n + 1:
        return [{"what": "length", "expected": n + 1, "observed": len(states)}]
    for k, want in enumerate(case["states"]):
        w = to_np(want)
        err = np.max(np.abs(np.array(states[k]) - w)) / np.max(np.abs(w))
        if not err < 1e-8:
            terr = np.max(np.abs(np.array(states[k]).T - w)) / np.max(np.abs(w))
            out.append({"what": "slice-state", "slice": k, "rel_err": float(err),
                        "equals_transpose": bool(terr < 1e-8)})
            break
    w = to_np(case["states"][-1])
    w = w / np.trace(w)
    if np.max(np.abs(state - w)) > 1e-9:
        out.append({"what": "gibbs-state", "err": float(np.max(np.abs(state - w))),
                    "equals_transpose": bool(np.max(np.abs(state.T - w)) < 1e-9)})
    ev = np.linalg.eigvalsh((state + state.conj().T) / 2)
    if abs(np.trace(state) - 1) > 1e-10 or np.max(np.abs(state - state.conj().T)) > 1e-10 or ev.min() < -1e-10:
        out.append({"what": "unphysical"})
    return out


def slice_count_job(job):
    """The number of imaginary-time slices is n_steps for every (T, n_steps): dynamics of n_steps + 1 points ending at
    1/T and, at zero coupling, the canonical state of a complex Hermitian Hamiltonian (float arithmetic on 1/T must
    not decide how many slices are taken)."""
    import oqupy
    from scipy.linalg import expm
    temp, ns = job
    h = np.array([[0.4, 0.3 - 0.2j], [0.3 + 0.2j, -0.1]])
    ref = expm(-h / temp)
    ref = ref / np.trace(ref)
    corr = oqupy.PowerLawSD(alpha=0.1, zeta=1.0, cutoff=2.0, cutoff_type="exponential", temperature=temp)
    out = []
    for n in ns:
        try:
            g = oqupy.GibbsTempo(oqupy.System(h), oqupy.Bath(np.zeros((2, 2)), corr), oqupy.GibbsParameters(n_steps=n, epsrel=1e-12))
            dyn = g.compute(progress_type="silent")
            state = g.get_state()
        except Exception as ex:  # pylint: disable=broad-except
            out.append({"what": "exception", "T": temp, "n_steps": n, "detail": "%s: %s" % (type(ex).__name__, str(ex)[:120])})
            continue
        if len(dyn.states) != n + 1:
            out.append({"what": "length", "T": temp, "n_steps": n, "expected": n + 1, "observed": len(dyn.states)})
        elif abs(dyn.times[-1] - 1.0 / temp) > 1e-9 / temp:
            out.append({"what": "last-time", "T": temp, "n_steps": n, "observed": float(dyn.times[-1])})
        elif np.max(np.abs(state - ref)) > 1e-9:
            out.append({"what": "gibbs-state", "T": temp, "n_steps": n, "err": float(np.max(np.abs(state - ref)))})
    return out


def commuting_job(job):
    import oqupy
    counts, n, o, energies, temp, seed = job
    d = len(o)
    dbeta = 1.0 / (temp * n)
    w = probes.probe_weights(seed, n + 3, scale=5e-2)
    sd = probes.make_probe_sd(w, dbeta, temperature=temp)
    out = []
    try:
        g = oqupy.GibbsTempo(oqupy.System(np.diag(np.array(energies, dtype=float))),
                             oqupy.Bath(np.diag(np.array(o, dtype=float)), sd),
                             oqupy.GibbsParameters(n_steps=n, epsrel=1e-14))
        dyn = g.compute(progress_type="silent")
        state = g.get_state()
    except Exception as ex:  # pylint: disable=broad-except
        return [{"what": "exception", "detail": "%s: %s" % (type(ex).__name__, str(ex)[:150])}]
    for m in range(1, n + 1):
        cnt = np.array(probes.norm_seq(counts[m - 1]), dtype=float)
        st = np.array(dyn.states[m])
        if np.max(np.abs(st - np.diag(np.diag(st)))) > 1e-10:
            out.append({"what": "not-diagonal", "slice": m})
            break
        for i in range(d):
            want = -m * dbeta * energies[i] - o[i] ** 2 * float(np.dot(cnt, w.real[:len(cnt)]))
            got = np.log(st[i, i].real)
            if abs(got - want) > 1e-9:
                out.append({"what": "population", "slice": m, "level": i, "expected_log": want, "observed_log": float(got)})
                break
        if out:
            break
    if abs(np.trace(state) - 1) > 1e-10:
        out.append({"what": "not-normalised"})
    return out


def numeric_job(job):
    """Loose numerical cross-check (not decided by the specification): closed form of the
    commuting model with a real ohmic spectral density, and independence of n_steps."""
    import oqupy
    n, temp = job
    alpha, wc = 0.15, 2.5
    o = np.array([0.5, -0.5, 1.0])
    e = np.array([0.3, -0.2, 0.4])
    corr = oqupy.PowerLawSD(alpha=alpha, zeta=1.0, cutoff=wc, cutoff_type="exponential", temperature=temp)
    g = oqupy.GibbsTempo(oqupy.System(np.diag(e)), oqupy.Bath(np.diag(o), corr), oqupy.GibbsParameters(n_steps=n, epsrel=1e-9))
    g.compute(progress_type="silent")
    st = g.get_state()
    lam = 2 * alpha * wc          # integral of J(w)/w for J = 2 alpha w exp(-w/wc)
    wts = np.exp(-(e - lam * o ** 2) / temp)
    want = wts / wts.sum()
    err = float(np.max(np.abs(np.diag(st).real - want)))
    return [] if err < 1e-8 else [{"what": "closed-form", "n": n, "T": temp, "err": err}]


def physical_job(job):
    """Numerical (not decided by the specification): for Hamiltonians that do not commute with the coupling operator
    and coupling eigenvalues with different squares the returned state is a normalised, Hermitian, positive matrix,
    and the same GibbsParameters object used before for another temperature gives the same state as a fresh one."""
    import oqupy
    kind, n, temp = job
    sx = np.array([[0, 1], [1, 0]], dtype=complex)
    sy = np.array([[0, -1j], [1j, 0]])
    sz = np.diag([1.0 + 0j, -1.0])
    if kind == "real2":
        h, o = 0.5 * sx + 0.2 * sz, np.diag([0.7, -0.2])
    elif kind == "complex2":
        h, o = 0.5 * sx + 0.4 * sy + 0.2 * sz, np.diag([0.7, -0.2])
    else:
        h = np.array([[0.3, 0.2 - 0.3j, 0.1j], [0.2 + 0.3j, -0.1, 0.25], [-0.1j, 0.25, 0.4]])
        o = np.diag([1.0, 0.3, 0.3])
    out = []

    def run_with(params, t):
        corr = oqupy.PowerLawSD(alpha=0.15, zeta=1.0, cutoff=2.5, cutoff_type="exponential", temperature=t)
        g = oqupy.GibbsTempo(oqupy.System(h), oqupy.Bath(o, corr), params)
        g.compute(progress_type="silent")
        return np.array(g.get_state())
    try:
        fresh = run_with(oqupy.GibbsParameters(n_steps=n, epsrel=1e-10), temp)
        used = oqupy.GibbsParameters(n_steps=n, epsrel=1e-10)
        run_with(used, 2.0 * temp + 0.3)
        again = run_with(used, temp)
    except Exception as ex:  # pylint: disable=broad-except
        return [{"what": "exception", "detail": "%s: %s" % (type(ex).__name__, str(ex)[:160])}]
    herm = float(np.max(np.abs(fresh - fresh.conj().T)))
    if herm > 1e-7:
        out.append({"what": "not-hermitian", "err": herm})
    if abs(np.trace(fresh) - 1) > 1e-9:
        out.append({"what": "not-normalised", "trace": str(np.trace(fresh))})
    ev = np.linalg.eigvalsh((fresh + fresh.conj().T) / 2)
    if ev.min() < -1e-7:
        out.append({"what": "not-positive", "min_eigenvalue": float(ev.min())})
    if np.max(np.abs(again - fresh)) > 1e-10:
        out.append({"what": "reused-parameters-object-changes-state", "err": float(np.max(np.abs(again - fresh)))})
    return out


def sweep_job(job):
    """Numerical: one spectral-density object re-used across a sweep (a parameter changed between the points, a new Bath and
    GibbsTempo per point, imaginary-time grids that coincide between the points) gives at every point the state of freshly
    built objects."""
    import oqupy
    attr, points = job
    h, o = np.diag([0.3, -0.2, 0.1]), np.diag([1.0, 0.3, -0.5])
    base = {"alpha": 0.15, "zeta": 1.0, "cutoff": 2.5, "cutoff_type": "exponential", "temperature": 1.0}
    out = []
    try:
        shared = oqupy.PowerLawSD(**base)
        for value, n in points:
            setattr(shared, attr, value)
            g = oqupy.GibbsTempo(oqupy.System(h), oqupy.Bath(o, shared), oqupy.GibbsParameters(n_steps=n, epsrel=1e-11))
            g.compute(progress_type="silent")
            got = np.array(g.get_state())
            f = oqupy.GibbsTempo(oqupy.System(h), oqupy.Bath(o, oqupy.PowerLawSD(**dict(base, **{attr: value}))),
                                 oqupy.GibbsParameters(n_steps=n, epsrel=1e-11))
            f.compute(progress_type="silent")
            want = np.array(f.get_state())
            if np.max(np.abs(got - want)) > 1e-9:
                out.append({"what": "sweep-point-differs-from-fresh-objects", "attribute": attr, "value": value, "n_steps": n,
                            "err": float(np.max(np.abs(got - want)))})
    except Exception as ex:  # pylint: disable=broad-except
        out.append({"what": "exception", "detail": "%s: %s" % (type(ex).__name__, str(ex)[:160])})
    return out


def run(ctx):
    quick = ctx.tier == "quick"
    for m in PMATS:
        if np.linalg.eigvalsh(to_np(m)).min() <= 0:
            raise core.MachineryError("probe matrix not positive definite")
    pset = "{" + ", ".join(tla_mat(m) for m in PMATS) + "}"
    r = ctx.tlc("Gibbs", CFG, label="exact imaginary-time slices", workers=2,
                constants={"PSet": pset, "NSet": "2..4" if quick else "2..6", "Emit": "TRUE"})
    # ... and in other energy units (H and T scaled together by 1e-9, 1e+6: the same exp(-H / T))
    jobs = [(c, t) for c in r.cases for t in ((0.7, 0.7e-9) if quick else (0.7, 2.0, 0.7e-9, 2.0e6))]
    for (c, t), mm in zip(jobs, core.pmap(zero_coupling_job, jobs)):
        cid = {"P": c["p"], "n_steps": c["n"], "T": t, "check": "zero coupling"}
        ctx.case(cid, nontrivial=any(e[1] != 0 for row in c["p"] for e in row))
        for x in mm:
            ctx.violation("C11:zero-coupling:%s" % x["what"], "%s: %s" % (cid, x), {"zero": [c, t]})
    # the number of slices over a lattice of temperatures and step numbers
    temps = (0.1, 0.3, 0.5, 0.7, 0.9, 1.1, 1.3, 1.7, 2.1, 2.9) + (() if quick else (0.23, 0.6, 1.9, 3.7, 5.3))
    nmax = 36 if quick else 64
    sjobs = [(t, list(range(lo, min(lo + 6, nmax + 1)))) for t in temps for lo in range(2, nmax + 1, 6)]
    for j, mm in zip(sjobs, core.pmap(slice_count_job, sjobs)):
        for n in j[1]:
            ctx.case({"check": "slice count, zero coupling", "T": j[0], "n_steps": n}, nontrivial=True)
        for x in mm:
            ctx.violation("C11:slices:%s" % x["what"], str(x), {"slices": [x["T"], [x["n_steps"]]]})
    # commuting models with the lattice probe
    counts_by_n = {c["n"]: c["counts"] for c in r.cases}
    # every pattern of repeated coupling eigenvalues (tuples from Degeneracy.tla; the imaginary-time backend has
    # its own degeneracy reduction, TIBaseBackend._unique)
    from harness.props.c06 import DEG_CFG
    dg = ctx.tlc("Degeneracy", DEG_CFG, label="coupling eigenvalue tuples", workers=1,
                 constants={"OSpace": "UNION {[1..d -> (-1)..1] : d \\in 2..%d}" % (3 if quick else 4), "Emit": "TRUE"})
    erng = probes.rng_for(ctx.seed, "c11-energies")
    pats = [(c["o"], [round(float(x), 3) for x in erng.normal(size=len(c["o"])) * 0.4]) for c in dg.cases]
    nsel = sorted(counts_by_n)
    cjobs = [(counts_by_n[n], n, o, en, 0.8, ctx.seed)
             for i, (o, en) in enumerate(pats) for n in ([nsel[i % len(nsel)]] if quick else nsel[:3])]
    cjobs += [(counts_by_n[n], n, o, en, 0.8, ctx.seed)
              for n in nsel for o, en in (([1, -1], [0.3, -0.1]), ([0, 1, 3], [0.2, 0.0, -0.4]), ([2, 0, 2], [0.1, 0.5, 0.1]),
                                          ([1, 1, 0, 2], [0.1, 0.2, -0.3, 0.0]), ([1, 0, 1, -1], [0.0, 0.3, 0.1, -0.2]))]
    for j, mm in zip(cjobs, core.pmap(commuting_job, cjobs)):
        cid = {"n_steps": j[1], "o": j[2], "E": j[3], "check": "commuting model, lattice bath"}
        ctx.case(cid, nontrivial=True)
        for x in mm:
            ctx.violation("C11:commuting:%s" % x["what"], "%s: %s" % (cid, x), {"commuting": list(j)})
    # histories of compute / get_state (Stepper.tla, kind gibbs)
    consts = {"Kind": '"gibbs"', "MaxStep": "4", "MaxCalls": "3" if quick else "4", "FailSet": '{<<99,"none">>} \\cup {<<k,"J">> : k \\in {1, 4, 7, 10}}',      # transient failures of the spectral density
              "PreSet": "{{}}", "Devs": "{}", "Emit": "TRUE"}
    st = ctx.tlc("Stepper", c14.CFG_STRICT, label="gibbs histories", constants=consts, workers=2)
    rdev = ctx.tlc("Stepper", c14.CFG_PROPS_ONLY, label="deviation GibbsRecompute (must violate)", must_hold=False,
                   constants=dict(consts, Devs='{"GibbsRecompute"}', Emit="FALSE"), workers=2)
    if rdev.ok:
        raise core.MachineryError("GibbsRecompute not distinguished")
    for c, mm in zip(st.cases, core.pmap(c14.replay_case, st.cases)):
        cid = {"history": [h["op"] for h in c["hist"]]}
        ctx.case(cid, nontrivial=sum(1 for h in c["hist"] if h["op"] == "compute") > 1)
        for x in mm:
            ctx.violation("C11:history:%s" % x["what"], "%s: %s" % (cid, x), {"history": c})
    # loose numerical cross-check
    njobs = [(4, 0.6), (8, 0.6), (4, 2.5), (4, 0.3), (8, 0.3), (4, 0.15), (6, 0.08)]
    for j, mm in zip(njobs, core.pmap(numeric_job, njobs)):
        ctx.case({"numeric": list(j)}, nontrivial=True)
        for x in mm:
            ctx.violation("C11:numeric:%s" % x["what"], "%s: %s" % (j, x), {"numeric": list(j)})
    pjobs = [(kind, n, temp) for kind in ("real2", "complex2", "complex3") for n, temp in ((2, 2.5), (5, 2.1))]
    for j, mm in zip(pjobs, core.pmap(physical_job, pjobs)):
        ctx.case({"check": "non-commuting, physical + parameters re-used", "model": j[0], "n_steps": j[1], "T": j[2]})
        for x in mm:
            ctx.violation("C11:physical:%s" % x["what"], "%s: %s" % (j, x), {"physical": list(j)})
    wjobs = [("temperature", [(0.5, 8), (1.0, 4), (2.0, 2), (1.0, 4)]), ("alpha", [(0.05, 4), (0.3, 4), (0.15, 4)])]
    for j, mm in zip(wjobs, core.pmap(sweep_job, wjobs)):
        ctx.case({"check": "sweep with one spectral-density object", "attribute": j[0], "points": j[1]}, nontrivial=True)
        for x in mm:
            ctx.violation("C11:sweep:%s" % x["what"], "%s: %s" % (j, x), {"sweep": [j[0], j[1]]})
    ctx.rule = ("zero-coupling: 4 Gaussian-integer propagators (real and complex, d=2,3) x n_steps x T; commuting models: "
                "3 coupling/energy patterns x n_steps with the lattice bath; all histories of <= 3 compute/get_state calls; "
                "non-trivial zero-coupling = complex P")
    ctx.exhaustive = True
    ctx.assumptions += ["closed form for real spectral densities (T from 0.08 to 2.5 at cutoff 2.5): numerical cross-check (tolerance 1e-8)"]


def replay(ctx, rep):
    core._init_worker()
    c = rep["case"]
    if "zero" in c:
        mm = zero_coupling_job(tuple(c["zero"]))
    elif "commuting" in c:
        mm = commuting_job(tuple(c["commuting"]))
    elif "history" in c:
        mm = c14.replay_case(c["history"])
    elif "physical" in c:
        mm = physical_job(tuple(c["physical"]))
    elif "slices" in c:
        mm = slice_count_job(tuple(c["slices"]))
    elif "sweep" in c:
        mm = sweep_job((c["sweep"][0], [tuple(x) for x in c["sweep"][1]]))
    else:
        mm = numeric_job(tuple(c["numeric"]))
    ctx.case({"replay": True})
    for x in mm:
        ctx.violation("C11:replay:" + x["what"], str(x), c)
