r"""C18 - control operations act at the stated time, side of the measurement and order.

Spec: specs/PTContract.tla (Pre / Rec / Post actions; CtlSeq = insertion order; entries
carry how the time was specified: step, or a float a little before/after the step's
time).  TLC enumerates every schedule of up to two (and stacked triples of) controls over
steps 0..N x pre/post x {prime-scaled kick, plain kick, identity, projector} x time kinds
and emits the exact recorded state after every step.  Controls are prime-scaled,
non-commuting monomial maps, so a recorded state identifies which controls acted
before it and in which order.  Replayed through compute_dynamics,
compute_dynamics_with_field, compute_gradient_and_dynamics (trivial and ancilla
environments) and PtTebd with ChainControl (uncoupled chain, one schedule per site).
"""
import numpy as np

from harness import core, probes, ptc_engine as eng

LEVEL = "model_checking"

CFG = """
INIT Init
NEXT Next
INVARIANT Injective
INVARIANT EmitCase
"""
DT = 0.25


def ckey(case):
    return repr((case["plan"], sorted(case["ctl"], key=lambda c: c[3])))


def run_api(job):
    import oqupy
    case, api, seed, start = job["case"], job["api"], job["seed"], job["start"]
    d, m, n = case["d"], case["m"], case["n"]
    rho0 = probes.generic_rho(d, seed)
    out = []
    try:
        if api == "cd":
            return eng.run_case({"case": case, "variant": {"start": start, "dt": DT}, "seed": seed})
        if api == "cd-incremental":
            # the Control object is used in one computation, then extended, then used again
            return eng.run_case({"case": case, "variant": {"start": start, "dt": DT, "incremental": True}, "seed": seed})
        if api == "cd-final":
            # record_all=False: the single reported state has seen every control of the run
            return eng.run_case({"case": case, "variant": {"start": start, "dt": DT, "final_only": True}, "seed": seed})
        if api == "cd-reused":
            # the same Control object served a computation with another start time before (a continued run)
            return eng.run_case({"case": case, "variant": {"start": start, "dt": DT, "reused": 1 + (len(case["ctl"]) % 2)},
                                 "seed": seed})
        us = eng.step_unitaries(case)
        halves = {k: eng.superop(v) for k, v in us.items()}
        ctrl = eng.build_control(case, DT, start) if case["ctl"] else None
        pts = eng.build_pts(case, {}, DT)
        if api == "cdf":
            class FS(oqupy.TimeDependentSystemWithField):
                def get_propagators(self, dt, start_time, subdiv_limit, epsrel):
                    return lambda step, field, deriv: (halves[("h1", step)], halves[("h2", step)])
            fs = FS(lambda t, a: np.zeros((d, d)))
            if ctrl is not None and not pts and len(case["ctl"]) % 2 == 1:
                # a second system of the same dimension, last in the list and without controls: every system follows its own
                # schedule (the second one must stay what its propagators alone make of it)
                fs2 = FS(lambda t, a: np.zeros((d, d)))
                mfs = oqupy.MeanFieldSystem([fs, fs2], field_eom=lambda t, s, a: 0.0)
                mfd = oqupy.compute_dynamics_with_field(
                    mfs, 0.5, initial_state_list=[rho0, rho0.copy()], dt=DT, num_steps=n,
                    start_time=start, control_list=[ctrl, oqupy.Control(d)], progress_type="silent")
                free = oqupy.compute_dynamics_with_field(
                    oqupy.MeanFieldSystem([FS(lambda t, a: np.zeros((d, d)))], field_eom=lambda t, s, a: 0.0), 0.5,
                    initial_state_list=[rho0.copy()], dt=DT, num_steps=n, start_time=start, progress_type="silent")
                if np.max(np.abs(np.array(mfd.system_dynamics[1].states) - np.array(free.system_dynamics[0].states))) > 1e-12:
                    out.append({"what": "system-without-controls-affected-by-another-systems-schedule"})
            else:
                mfs = oqupy.MeanFieldSystem([fs], field_eom=lambda t, s, a: 0.0)
                kw = {} if pts else {"dt": DT, "num_steps": n}
                mfd = oqupy.compute_dynamics_with_field(
                    mfs, 0.5, process_tensor_list=[pts] if pts else None, initial_state_list=[rho0],
                    start_time=start, control_list=[ctrl] if ctrl else None, progress_type="silent", **kw)
            states, times = np.array(mfd.system_dynamics[0].states), np.array(mfd.times)
        elif api == "grad":
            from oqupy.gradient import compute_gradient_and_dynamics
            from oqupy.process_tensor import SimpleProcessTensor

            class PS(oqupy.ParameterizedSystem):
                def get_propagators(self, dt, parameters):
                    return lambda step: (halves[("h1", step)], halves[("h2", step)])
            ps = PS(lambda x: x * np.eye(d))
            if not pts:
                ipt = SimpleProcessTensor(d, dt=DT)
                for kk in range(n):
                    ipt.set_mpo_tensor(kk, np.eye(d * d).reshape(1, 1, d * d, d * d))
                ipt.compute_caps()
                pts = [ipt]
            _, dyn = compute_gradient_and_dynamics(
                system=ps, initial_state=rho0, target_derivative=np.eye(d, dtype=complex),
                process_tensors=pts, parameters=np.zeros((2 * n, 1)), start_time=start,
                control=ctrl, progress_type="silent")
            states, times = np.array(dyn.states), np.array(dyn.times)
        else:
            raise ValueError(api)
    except Exception as ex:  # pylint: disable=broad-except
        import traceback
        return [{"what": "exception", "detail": "%s: %s" % (type(ex).__name__, str(ex)[:160]),
                 "tb": traceback.format_exc()[-300:]}]
    if len(states) != n + 1:
        return [{"what": "length", "observed": len(states)}]
    for r, rec in enumerate(case["recs"]):
        want = eng.expected_state(rec, rho0, d, m)
        err = np.max(np.abs(states[r] - want))
        if not err < 1e-9 * max(1.0, np.max(np.abs(want))):
            out.append({"what": "state", "step": r, "err": float(err)})
            break
    return out


def run_chain(job):
    """Two uncoupled sites, each with its own schedule (cases a, b share the plan)."""
    import oqupy
    a, b, seed = job["a"], job["b"], job["seed"]
    d, m, n = a["d"], a["m"], a["n"]
    out = []
    try:
        chain = oqupy.SystemChain([d, d])
        rhos = []
        ctrl = oqupy.ChainControl([d, d])
        for site, case in enumerate((a, b)):
            us = eng.step_unitaries(case)
            ustep = us[("h2", 0)] @ us[("h1", 0)]
            chain.add_site_hamiltonian(site, eng.unitary_log_hamiltonian(ustep, DT))
            rhos.append(probes.generic_rho(d, seed + site))
        # interleave the two sites' schedules by insertion index
        entries = sorted([(c[3], 0, c) for c in a["ctl"]] + [(c[3], 1, c) for c in b["ctl"]], key=lambda e: (e[0], e[1]))
        for i, (_, site, c) in enumerate(entries):
            if job.get("incremental") and i == (len(entries) + 1) // 2:
                # the same ChainControl object is used in a computation before it is extended
                oqupy.PtTebd(oqupy.AugmentedMPS([r.copy() for r in rhos]), chain, [None, None],
                             oqupy.PtTebdParameters(dt=DT, order=2, epsrel=1e-13), chain_control=ctrl,
                             start_time=0.5, dynamics_sites=[0]).compute(n, progress_type="silent")
            ctrl.add_single_site_control(eng.control_superop(d, m, c[0], c[2]), site=site,
                                         step=int(c[0]), post=bool(c[1]))
        tebd = oqupy.PtTebd(oqupy.AugmentedMPS([r.copy() for r in rhos]), chain, [None, None],
                            oqupy.PtTebdParameters(dt=DT, order=2, epsrel=1e-13),
                            chain_control=ctrl, start_time=0.5, dynamics_sites=[0, 1])
        res = tebd.compute(n, progress_type="silent")
    except Exception as ex:  # pylint: disable=broad-except
        return [{"what": "exception", "detail": "%s: %s" % (type(ex).__name__, str(ex)[:160])}]
    exp = [[eng.expected_state(rec, rhos[i], d, m) for rec in case["recs"]] for i, case in enumerate((a, b))]
    for r in range(n + 1):
        for site in (0, 1):
            want = exp[site][r] * np.trace(exp[1 - site][r])
            got = res["dynamics"][site].states[r]
            err = np.max(np.abs(got - want))
            if not err < 1e-8 * max(1.0, np.max(np.abs(want))):
                out.append({"what": "chain-state", "site": site, "step": r, "err": float(err)})
                return out
        nrm = np.trace(exp[0][r]) * np.trace(exp[1][r])
        if abs(res["norm"][r] - nrm) > 1e-8 * max(1.0, abs(nrm)):
            out.append({"what": "chain-norm", "step": r})
            return out
    return out


def universe(nsteps, kinds, ids):
    return ("{ <<r, p, i, k>> : r \\in 0..%d, p \\in BOOLEAN, i \\in %s, k \\in %s }"
            % (nsteps, ids, kinds))


def schedules(nsteps, kinds, ids, nmax):
    u = universe(nsteps, kinds, ids)
    return ("UNION { { { <<f[j][1], f[j][2], f[j][3], j, f[j][4]>> : j \\in 1..nn } : f \\in [1..nn -> %s] } "
            ": nn \\in 0..%d }" % (u, nmax))


def run(ctx):
    quick = ctx.tier == "quick"
    kinds = '{"int","f-","f+"}'
    configs = [
        ("no env, d=3, all schedules of <= 2 controls",
         {"D": "3", "EDims": "<<>>", "A0": "<<>>", "N": "2", "M": "6", "SysGates": "{<<1,2>>}",
          "EnvGates": '{"I"}', "Controls": schedules(2, kinds, "{1,2,3,5}", 2)}),
        ("ancilla env (SWAP memory), d=2, schedules of <= 2 controls",
         {"D": "2", "EDims": "<<2>>", "A0": "<<1>>", "N": "2", "M": "4", "SysGates": "{<<1,2>>}",
          "EnvGates": '{"SW"}', "Controls": schedules(2, '{"int","f+"}', "{2,5}", 2)}),
        ("stacked triples on one step and side",
         {"D": "3", "EDims": "<<>>", "A0": "<<>>", "N": "2", "M": "6", "SysGates": "{<<1,2>>}",
          "EnvGates": '{"I"}',
          "Controls": "{ { <<1, p, f[j], j, g[j]>> : j \\in 1..3 } : p \\in BOOLEAN, f \\in [1..3 -> {2,5,1}], g \\in [1..3 -> %s] }" % kinds}),
    ]
    # controls stamped before the start or after the end of the computed range never act (a Control object with
    # absolute times is typically re-used for a continued computation with a later start time)
    outside = ("{ { <<r1, p1, i1, 1, k1>>, <<r2, p2, 5, 2, k2>> } : r1 \\in {-2, -1, 3, 4}, p1 \\in BOOLEAN, i1 \\in {2, 3}, "
               "k1 \\in %s, r2 \\in 0..2, p2 \\in BOOLEAN, k2 \\in {\"int\", \"f+\"} }" % kinds)
    configs.append(("controls stamped outside the computed range",
                    {"D": "3", "EDims": "<<>>", "A0": "<<>>", "N": "2", "M": "6", "SysGates": "{<<1,2>>}",
                     "EnvGates": '{"I"}', "Controls": outside}))
    if not quick:
        configs.append(("3 steps, ancilla env, schedules of <= 2 controls",
                        {"D": "2", "EDims": "<<2>>", "A0": "<<0>>", "N": "3", "M": "4", "SysGates": "{<<1,2>>}",
                         "EnvGates": '{"CSP","SC"}', "Controls": schedules(3, kinds, "{2,5,3}", 2)}))
    jobs, chain_jobs = [], []
    ntrig = 0
    for label, consts in configs:
        strict = ctx.tlc("PTContract", CFG, label=label, constants=dict(consts, Devs="{}", FixedPlan="<< >>", Dephase="FALSE", Emit="TRUE"), workers=4)
        dev = ctx.tlc("PTContract", CFG, label=label + " [deviation MixedTimeSpecOrder]",
                      constants=dict(consts, Devs='{"MixedTimeSpecOrder"}', FixedPlan="<< >>", Dephase="FALSE", Emit="TRUE"), workers=4)
        devrec = {ckey(c): c["recs"] for c in dev.cases}
        ndiff = 0
        ints = []
        for idx, case in enumerate(strict.cases):
            trig = devrec.get(ckey(case)) != case["recs"]
            ndiff += trig
            apis = ["cd"]
            if len(case["ctl"]) >= 2 and idx % 2 == 0:
                apis.append("cd-incremental")
            if case["ctl"] and idx % 4 == 1:
                apis.append("cd-reused")
            if case["ctl"] and idx % 4 == 3 and not trig:
                apis.append("cd-final")
            if idx % 3 == 0:
                apis.append("cdf")
            if idx % 3 == 1:
                apis.append("grad")
            for api in apis:
                jobs.append({"case": case, "api": api, "seed": ctx.seed, "start": (0.0, 0.5, -0.75)[(idx + idx // 3) % 3],     # (not idx % 3: the APIs are chosen by that)
                             "trigger": trig, "devrecs": devrec.get(ckey(case)) if trig else None})
            if all(c[4] == "int" for c in case["ctl"]) and not case["edims"]:
                ints.append(case)
        if ndiff == 0 and "f" in consts["Controls"] and "outside" not in label:
            raise core.MachineryError("deviation MixedTimeSpecOrder not distinguished in config %s" % label)
        ntrig += ndiff
        for i in range(0, len(ints) - 1, 1 if quick else 1):
            chain_jobs.append({"a": ints[i], "b": ints[(i * 7 + 3) % len(ints)], "seed": ctx.seed,
                               "incremental": bool(i % 2)})
    if quick:
        chain_jobs = chain_jobs[::3]
    res = core.pmap(run_api, jobs, chunksize=8)
    # a mismatch on a schedule where the known deviation applies is the known finding only if
    # the real code matches the deviated specification's prediction exactly
    second = [(i, dict(j, case=dict(j["case"], recs=j["devrecs"]))) for i, (j, mm) in enumerate(zip(jobs, res))
              if j["trigger"] and any(x["what"] == "state" for x in mm)]
    res2 = core.pmap(run_api, [j for _, j in second], chunksize=8)
    matches_dev = {i for (i, _), mm2 in zip(second, res2) if not mm2}
    for jidx, (job, mm) in enumerate(zip(jobs, res)):
        c = job["case"]
        cid = {"api": job["api"], "d": c["d"], "edims": c["edims"], "ctl": c["ctl"], "start": job["start"]}
        ctx.case(cid, nontrivial=bool(c["ctl"]))
        for x in mm:
            if job["trigger"] and x["what"] == "state" and jidx in matches_dev:
                key = "C18:single:mixed-int-float-order"
            else:
                key = "C18:%s:%s" % (job["api"], x["what"])
            ctx.violation(key, "%s: %s" % (cid, x), {"case": c, "api": job["api"], "start": job["start"]})
    # ---- the adjoint (gradient) pass applies the same controls, transposed and in reverse order: every schedule of
    # <= 2 step controls, gradient compared with the exact derivative of the term trajectories (machinery of C08)
    from harness.props import c08
    gconsts = {"D": "2", "EDims": "<<2>>", "A0": "<<1>>", "N": "2", "M": "8", "SysGates": "{<<0,2>>}",
               "EnvGates": '{"SC"}', "Dephase": "TRUE", "Controls": schedules(2, '{"int"}', "{2,5,3}", 2),
               "Devs": "{}", "FixedPlan": "<< >>", "Emit": "TRUE"}
    gr = ctx.tlc("PTContract", c08.CFG, label="gradient with controls: all schedules of <= 2 step controls", constants=gconsts,
                 workers=4)
    gcases = gr.cases if not quick else [c for i, c in enumerate(gr.cases) if len(c["ctl"]) < 2 or i % 2 == 0]
    gjobs = [{"case": dict(c, dephase=True), "variant": {"mode": "supplied", "target": "linear"}, "seed": ctx.seed}
             for c in gcases]
    for job, mm in zip(gjobs, core.pmap(c08.run_case, gjobs, chunksize=4)):
        c = job["case"]
        cid = {"api": "gradient", "ctl": c["ctl"]}
        ctx.case(cid, nontrivial=bool(c["ctl"]))
        for x in mm:
            ctx.violation("C18:gradient:%s" % x["what"], "%s: %s" % (cid, x), {"gradcase": c})
    res = core.pmap(run_chain, chain_jobs, chunksize=4)
    for job, mm in zip(chain_jobs, res):
        cid = {"api": "tebd", "site0": job["a"]["ctl"], "site1": job["b"]["ctl"], "incremental": job.get("incremental", False)}
        ctx.case(cid, nontrivial=bool(job["a"]["ctl"] or job["b"]["ctl"]))
        for x in mm:
            ctx.violation("C18:tebd:%s" % x["what"], "%s: %s" % (cid, x), {"chain": [job["a"], job["b"]]})
    ctx.extra["schedules_where_deviation_differs"] = ntrig
    ctx.rule = ("every control schedule enumerated by TLC (PTContract.tla): <= 2 controls over steps 0..N x pre/post x "
                "{prime kick, kick, identity, projector} x {step, float-, float+}, plus stacked triples; each replayed "
                "through compute_dynamics (+with_field / gradient on thirds) and pairs of step-only schedules through "
                "PtTebd+ChainControl; non-trivial = at least one control")
    ctx.exhaustive = True
    ctx.assumptions += ["float control times are 0.3 dt away from the step's time (no exact ties of np.round)"]


def replay(ctx, rep):
    core._init_worker()
    c = rep["case"]
    ctx.case({"replay": True})
    if "gradcase" in c:
        from harness.props import c08
        mm = c08.run_case({"case": c["gradcase"], "variant": {"mode": "supplied", "target": "linear"}, "seed": rep.get("seed", 0)})
    elif "chain" in c:
        mm = run_chain({"a": c["chain"][0], "b": c["chain"][1], "seed": rep.get("seed", 0)})
    else:
        mm = run_api({"case": c["case"], "api": c["api"], "seed": rep.get("seed", 0), "start": c["start"]})
    for x in mm:
        ctx.violation("C18:replay:" + x["what"], str(x), c)
