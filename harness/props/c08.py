r"""C08 - the adjoint gradient equals the derivative of the objective.

Spec: specs/PTContract.tla.  The objective Z = sum_ij T[i,j] rho_final[i,j] is a sum over
the terms of the exact monomial dynamics; every term remembers the system levels
<<ket, bra>> it had when each half-step propagator acted (tr).  Half-step propagators are
U(x1, x2, g) = Shift . diag(exp(i theta (x1 phi1 + x2 phi2))) with pure dephasing
exp(-g dt/4 (z_k - z_b)^2): the derivative with respect to x_m at half step j multiplies a
term by i theta (phi_m[k_j] - phi_m[b_j]), with respect to g by -(dt/4)(z_kj - z_bj)^2.
Hence TLC's term lists give the exact gradient for every parameter at every half step.
Binding: state_gradient on a real ParameterizedSystem (Hamiltonian and dephasing rate
depending on the parameters) with (a) the library's numerical propagator derivatives and
(b) user-supplied ones (also with shifting half steps through a subclass), one or two
non-commuting ancilla environments, linear and callable targets; every gradient entry
and the reported dynamics are compared.
"""
import numpy as np

from harness import core, probes, ptc_engine as eng

LEVEL = "model_checking"

CFG = """
INIT Init
NEXT Next
INVARIANT Injective
INVARIANT EmitCase
"""
DT = 0.25
G0 = eng.DEPH_G * 4 / DT


def expected(case, rho0, target_fn):
    d, m, n = case["d"], case["m"], case["n"]
    theta = 2 * np.pi / m
    phi = [np.array(eng.PHASE_TAB[1][:d], dtype=float), np.array(eng.PHASE_TAB[2][:d], dtype=float)]
    final = case["recs"][-1]
    rho_f = eng.expected_state(final, rho0, d, m)
    tmat = target_fn(rho_f) if callable(target_fn) else target_fn
    grad = np.zeros((2 * n, 3), dtype=complex)
    for t in final:
        one = eng.expected_state([t], rho0, d, m)
        c = one[t["kt"], t["bt"]] * tmat[t["kt"], t["bt"]]
        for j, (k, b) in enumerate(t["tr"]):
            grad[j, 0] += c * 1j * theta * (phi[0][k] - phi[0][b])
            grad[j, 1] += c * 1j * theta * (phi[1][k] - phi[1][b])
            grad[j, 2] += c * (-(DT / 4) * (k - b) ** 2)
    return rho_f, tmat, grad


def params_of(case):
    n = case["n"]
    pars = np.zeros((2 * n, 3))
    shift = None
    for item in case["plan"]:
        if item[0] in ("h1", "h2"):
            j = 2 * item[1] + (0 if item[0] == "h1" else 1)
            k, phid = item[2]
            pars[j, 0] = 1.0 if phid == 2 else 0.0
            pars[j, 1] = 1.0 if phid == 3 else 0.0
            shift = k if shift is None else shift
            if k != shift:
                raise ValueError("mixed shifts")
    return pars, shift


def run_case(job):
    import oqupy
    case, variant, seed = job["case"], job["variant"], job["seed"]
    d, m, n = case["d"], case["m"], case["n"]
    theta = 2 * np.pi / m
    phi1 = np.array(eng.PHASE_TAB[1][:d], dtype=float)
    phi2 = np.array(eng.PHASE_TAB[2][:d], dtype=float)
    zdiag = np.arange(d, dtype=float)
    rho0 = probes.generic_rho(d, seed)
    r = probes.rng_for(seed, "target", d)
    tlin = r.normal(size=(d, d)) + 1j * r.normal(size=(d, d))
    dephase = case["dephase"]
    g0 = G0 if dephase else 0.0
    out = []
    try:
        pars, shift = params_of(case)
        pars[:, 2] = g0
        pts = eng.build_pts(case, {"transforms": variant.get("transforms", False)}, DT)
        if variant.get("order"):
            pts = [pts[i] for i in variant["order"]]

        def ham(x1, x2, g):
            return -(2.0 / DT) * theta * np.diag(x1 * phi1 + x2 * phi2)

        def lop(x1, x2, g):
            return np.diag(zdiag)

        def diagvec(x1, x2, g):
            ph = theta * (x1 * phi1 + x2 * phi2)
            dz = (zdiag[:, None] - zdiag[None, :]) ** 2
            return (np.exp(1j * (ph[:, None] - ph[None, :])) * np.exp(-g * DT / 4 * dz)).reshape(-1), dz.reshape(-1)

        shift_super = eng.superop(eng.sys_unitary(d, (shift, 1), m))

        def prop(params):
            v, _ = diagvec(*params)
            return shift_super @ np.diag(v)

        def derivs(dt_, params):
            v, dz = diagvec(*params)
            d1 = (1j * theta * (phi1[:, None] - phi1[None, :])).reshape(-1)
            d2 = (1j * theta * (phi2[:, None] - phi2[None, :])).reshape(-1)
            d3 = -(DT / 4) * dz
            return [shift_super @ np.diag(v * dd) for dd in (d1, d2, d3)]

        mode = variant["mode"]
        if mode == "numeric":
            if shift != 0:
                return []
            system = oqupy.ParameterizedSystem(ham, gammas=[lambda x1, x2, g: g], lindblad_operators=[lop])
        elif mode == "numeric-nonaffine":
            # the same physics parameterised non-affinely: x = sinh(y) for all three parameters (the Hamiltonian, the
            # rate *and* hence the Liouvillian are nonlinear in what the library differentiates with respect to);
            # d/dy = sqrt(1 + x^2) d/dx
            if shift != 0:
                return []
            system = oqupy.ParameterizedSystem(lambda y1, y2, y3: ham(np.sinh(y1), np.sinh(y2), np.sinh(y3)),
                                               gammas=[lambda y1, y2, y3: np.sinh(y3)], lindblad_operators=[lop])
            jac = np.sqrt(1.0 + np.asarray(pars, dtype=float) ** 2)
            pars = np.arcsinh(np.asarray(pars, dtype=float))
        elif mode == "numeric-4par":
            # a fourth parameter that adds to the first one: the table of parameters is square for N = 2 (2N = M = 4);
            # its rows are half steps and its columns parameters, whatever its shape
            if shift != 0:
                return []
            system = oqupy.ParameterizedSystem(lambda x1, x2, g, x4: ham(x1 + x4, x2, g), gammas=[lambda x1, x2, g, x4: g],
                                               lindblad_operators=[lambda x1, x2, g, x4: np.diag(zdiag)])
            p3 = np.asarray(pars, dtype=float)
            x4 = 0.0625 * (1 + np.arange(p3.shape[0]))
            pars = np.column_stack([p3[:, 0] - x4, p3[:, 1], p3[:, 2], x4])
        elif mode == "numeric-lop":
            # the same physics with the parameter carried by the Lindblad OPERATOR instead of the rate:
            # 2 D[sqrt(g / 2) z] = g D[z]
            if shift != 0 or not dephase:
                return []
            system = oqupy.ParameterizedSystem(ham, gammas=[lambda x1, x2, g: 2.0],
                                               lindblad_operators=[lambda x1, x2, g: np.sqrt(g / 2.0) * np.diag(zdiag)])
        elif mode == "supplied":
            if shift != 0:
                class PS(oqupy.ParameterizedSystem):
                    def get_propagators(self, dt, parameters):
                        return lambda step: (prop(parameters[2 * step]), prop(parameters[2 * step + 1]))
                system = PS(ham, gammas=[lambda x1, x2, g: g], lindblad_operators=[lop], propagator_derivatives=derivs)
            else:
                system = oqupy.ParameterizedSystem(ham, gammas=[lambda x1, x2, g: g], lindblad_operators=[lop],
                                                   propagator_derivatives=derivs)
        else:
            raise ValueError(mode)
        if variant.get("warmup"):
            # the same system object has been used before, with a process tensor of a different time step
            from oqupy.process_tensor import SimpleProcessTensor
            wpt = SimpleProcessTensor(d, dt=0.1)
            wpt.set_mpo_tensor(0, np.eye(d * d).reshape(1, 1, d * d, d * d))
            wpt.compute_caps()
            oqupy.state_gradient(system=system, initial_state=rho0, target_derivative=tlin.copy(), process_tensors=[wpt],
                                 parameters=np.array(pars[:2]) * 0.5, progress_type="silent")
        if variant.get("inplace"):
            # a gradient-descent loop: the same system object and the same parameter array, updated in place between calls
            pars = np.array(pars, dtype=float)
            wanted = pars.copy()
            pars[...] = 0.5 * wanted + 0.25
            oqupy.state_gradient(system=system, initial_state=rho0, target_derivative=tlin.copy(), process_tensors=pts,
                                 parameters=pars, progress_type="silent")
            pars[...] = wanted
        if variant.get("target") == "callable":
            target_fn = lambda rho: np.conj(rho) + 0.3 * tlin
            target_arg = lambda rho: target_fn(rho)
        else:
            target_fn = tlin
            target_arg = tlin.copy()
        if case["ctl"]:
            # control operations between the steps: state_gradient has no control argument, so its two stages are
            # called as state_gradient itself calls them
            from oqupy.gradient import compute_gradient_and_dynamics, _chain_rule
            ctrl = eng.build_control(case, DT, 0.0)
            gprop, dyn = compute_gradient_and_dynamics(system=system, initial_state=rho0, target_derivative=target_arg,
                                                       process_tensors=pts, parameters=pars, control=ctrl,
                                                       progress_type="silent")
            grad_real = _chain_rule(adjoint_tensor=gprop, dprop_dparam=system.get_propagator_derivatives(DT, pars),
                                    propagators=system.get_propagators(DT, pars), num_steps=n, num_parameters=3,
                                    progress_type="silent")
            res = {"gradient": grad_real, "dynamics": dyn, "final_state": dyn.states[-1]}
        else:
            res = oqupy.state_gradient(system=system, initial_state=rho0, target_derivative=target_arg,
                                       process_tensors=pts, parameters=pars, progress_type="silent")
    except Exception as ex:  # pylint: disable=broad-except
        import traceback
        return [{"what": "exception", "detail": "%s: %s" % (type(ex).__name__, str(ex)[:200]),
                 "tb": traceback.format_exc()[-400:]}]
    rho_f, tmat, grad = expected(case, rho0, target_fn)
    if variant["mode"] == "numeric-nonaffine":
        grad = grad * jac
    if variant["mode"] == "numeric-4par":
        grad = np.column_stack([grad, grad[:, 0]])
    got = np.array(res["gradient"])
    tol = 1e-9 if variant["mode"] == "supplied" else 2e-6
    scale = max(1.0, np.max(np.abs(grad)))
    if got.shape != grad.shape:
        return [{"what": "gradient-shape", "observed": list(got.shape)}]
    err = np.abs(got - grad)
    if not np.max(err) < tol * scale:
        j, mth = np.unravel_index(int(np.argmax(err)), err.shape)
        out.append({"what": "gradient", "half_step": int(j), "parameter": int(mth), "expected": str(grad[j, mth]),
                    "observed": str(got[j, mth]), "err": float(np.max(err))})
    states = np.array(res["dynamics"].states)
    for rr, rec in enumerate(case["recs"]):
        want = eng.expected_state(rec, rho0, d, m)
        if np.max(np.abs(states[rr] - want)) > 1e-9:
            out.append({"what": "dynamics", "step": rr})
            break
    if np.max(np.abs(np.array(res["final_state"]) - rho_f)) > 1e-9:
        out.append({"what": "final-state"})
    return out


def adjoint_job(job):
    """The adjoint tensors themselves (before the chain rule): the objective is multilinear in the half-step propagators,
    so entry [a, b, c, e] of the tensor of step n is the objective with the two half-step propagators of that step replaced
    by the matrix units E[b, a] and E[e, c] - evaluated by the forward code (compute_dynamics, whose exactness C03
    establishes).  Two non-commuting environments, controls between the steps, dense random half steps."""
    import oqupy
    from oqupy.gradient import compute_gradient_and_dynamics
    case, seed = job["case"], job["seed"]
    d, n = case["d"], case["n"]
    r = probes.rng_for(seed, "adjoint", d, n, len(case["edims"]))
    rho0 = probes.generic_rho(d, seed)
    tmat = r.normal(size=(d, d)) + 1j * r.normal(size=(d, d))
    out = []
    try:
        pts = eng.build_pts(case, {"transforms": bool(job.get("transforms"))}, DT)
        ctrl = eng.build_control(case, DT, 0.0) if case["ctl"] else None
        dd = d * d
        props = [(r.normal(size=(dd, dd)) + 1j * r.normal(size=(dd, dd)), r.normal(size=(dd, dd)) + 1j * r.normal(size=(dd, dd)))
                 for _ in range(n)]

        class PS(oqupy.ParameterizedSystem):
            def get_propagators(self, dt, parameters):
                return lambda step: props[step]

        class FS(oqupy.System):
            def __init__(self, pp):
                super().__init__(np.zeros((d, d)))
                self.pp = pp

            def get_propagators(self, dt, start_time, subdiv_limit, epsrel):
                return lambda step: self.pp[step]
        psys = PS(lambda x: x * np.diag(np.arange(d, dtype=float)))
        gprop, _ = compute_gradient_and_dynamics(system=psys, initial_state=rho0, target_derivative=tmat.copy(),
                                                 process_tensors=pts, parameters=np.zeros((2 * n, 1)), control=ctrl,
                                                 progress_type="silent")

        def objective(pp):
            f = oqupy.compute_dynamics(FS(pp), initial_state=rho0, process_tensor=pts, control=ctrl,
                                       progress_type="silent").states[-1]
            return np.dot(tmat.reshape(-1), f.reshape(-1))

        def unit(i, j):
            m = np.zeros((dd, dd), dtype=complex)
            m[i, j] = 1.0
            return m
        if len(gprop) != n:
            return [{"what": "adjoint-length", "observed": len(gprop)}]
        for step in range(n):
            g = gprop[step]
            g = np.array(g.get_tensor() if hasattr(g, "get_tensor") else g)
            if g.shape != (dd, dd, dd, dd):
                return [{"what": "adjoint-shape", "step": step, "observed": list(g.shape)}]
            entries = [tuple(int(x) for x in r.integers(0, dd, 4)) for _ in range(40 if d > 2 else 64)]
            for (a, b, c, e) in entries:
                pp = list(props)
                pp[step] = (unit(b, a), unit(e, c))
                want = objective(pp)
                if abs(g[a, b, c, e] - want) > 1e-9 * max(1.0, abs(want)):
                    out.append({"what": "adjoint-tensor", "step": step, "entry": [a, b, c, e], "expected": str(want),
                                "observed": str(g[a, b, c, e])})
                    return out
    except Exception as ex:  # pylint: disable=broad-except
        import traceback
        out.append({"what": "exception", "detail": "%s: %s" % (type(ex).__name__, str(ex)[:200]), "tb": traceback.format_exc()[-400:]})
    return out


def run(ctx):
    quick = ctx.tier == "quick"
    configs = [
        ("1 env, phase/dephasing parameters (genuine ParameterizedSystem)",
         {"D": "2", "EDims": "<<2>>", "A0": "<<1>>", "N": "2", "M": "8", "SysGates": "{<<0,1>>,<<0,2>>,<<0,3>>}",
          "EnvGates": '{"SC","CSP","SW"}', "Dephase": "TRUE"}, None),
        ("2 non-commuting envs", {"D": "3", "EDims": "<<3,2>>", "A0": "<<1,1>>", "N": "2", "M": "6",
                                  "SysGates": "{<<0,2>>,<<0,3>>}", "EnvGates": '{"SC","CSP"}', "Dephase": "TRUE"}, None),
        ("shifting half steps (subclass, supplied derivatives), 2 envs",
         {"D": "3", "EDims": "<<3,3>>", "A0": "<<2,1>>", "N": "2", "M": "6", "SysGates": "{<<1,2>>,<<1,3>>}",
          "EnvGates": '{"SC","SW"}', "Dephase": "FALSE"}, "num=%d" % (200 if quick else 2000)),
        ("1 env with control operations between the steps",
         {"D": "2", "EDims": "<<2>>", "A0": "<<1>>", "N": "2", "M": "8", "SysGates": "{<<0,2>>,<<0,3>>}",
          "EnvGates": '{"SC","CSP"}', "Dephase": "TRUE",
          "Controls": ('{ {<<0,FALSE,5,1,"int">>}, {<<1,TRUE,2,1,"int">>}, {<<2,FALSE,5,1,"int">>}, {<<1,FALSE,3,1,"int">>}, '
                       '{<<0,TRUE,2,1,"int">>, <<1,FALSE,5,2,"int">>}, {<<1,TRUE,5,1,"int">>, <<1,FALSE,2,2,"int">>} }')}, None),
        ("3 steps, 2 envs (sampled)", {"D": "2", "EDims": "<<2,2>>", "A0": "<<1,0>>", "N": "3", "M": "8",
                                       "SysGates": "{<<0,1>>,<<0,2>>,<<0,3>>}", "EnvGates": '{"SC","CSP","SW","CS"}',
                                       "Dephase": "TRUE"}, "num=%d" % (150 if quick else 2000)),
    ]
    jobs = []
    for label, consts, sim in configs:
        c = dict({"Controls": "{{}}"}, **consts)
        c.update(Devs="{}", FixedPlan="<< >>", Emit="TRUE")
        if sim:
            r = ctx.tlc("PTContract", CFG, label=label, constants=c, workers=1, simulate=sim,
                        extra=["-depth", "40", "-seed", str(ctx.seed + 3)])
        else:
            r = ctx.tlc("PTContract", CFG, label=label, constants=c, workers=4)
        seen = set()
        for idx, case in enumerate(r.cases):
            hk = repr((case["plan"], case["ctl"]))
            if hk in seen:
                continue
            seen.add(hk)
            case = dict(case, dephase=consts["Dephase"] == "TRUE")
            shifted = any(it[0] in ("h1", "h2") and it[2][0] != 0 for it in case["plan"])
            vs = [{"mode": "supplied", "target": "linear" if idx % 2 else "callable"}]
            if case["edims"] and idx % 3 == 0:
                # process tensors stored in another (complex) basis: transform_in / transform_out act in both passes
                vs.append({"mode": "supplied", "target": "linear", "transforms": True})
            if idx % 5 == 1 and not case["ctl"]:
                vs.append({"mode": "supplied", "target": "linear", "inplace": True})
            if not shifted and (idx % (4 if quick else 2) == 0):
                vs.append({"mode": "numeric", "target": "linear", "warmup": idx % 8 == 0})
            if not shifted and not case["ctl"] and (idx % (4 if quick else 2) == 2 % (4 if quick else 2)):
                vs.append({"mode": "numeric-nonaffine", "target": "callable" if idx % 8 == 2 else "linear"})
            if not shifted and not case["ctl"] and idx % (4 if quick else 2) == 3 % (4 if quick else 2):
                vs.append({"mode": "numeric-4par", "target": "linear"})
            if not shifted and case["dephase"] and (idx % (4 if quick else 2) == 1):
                vs.append({"mode": "numeric-lop", "target": "linear"})
            if len(case["edims"]) == 2 and idx % 3 == 0:
                vs.append({"mode": "supplied", "target": "linear", "order": [1, 0], "expect_differs": True})
            for v in vs:
                if v.get("order"):
                    continue        # reordering non-commuting environments changes the model: not a variant
                jobs.append({"case": case, "variant": v, "seed": ctx.seed})
    # the adjoint tensors themselves, on every 12th plan (dense random half steps: nothing commutes)
    seen_a, ajobs = set(), []
    for jb in jobs:
        hk = repr((jb["case"]["plan"], jb["case"]["ctl"]))
        if hk not in seen_a:
            seen_a.add(hk)
            if len(seen_a) % (12 if quick else 4) == 0:
                ajobs.append({"case": jb["case"], "seed": ctx.seed, "transforms": len(ajobs) % 2 == 1 and bool(jb["case"]["edims"])})
    for jb, mm in zip(ajobs, core.pmap(adjoint_job, ajobs, chunksize=2)):
        c = jb["case"]
        cid = {"d": c["d"], "edims": c["edims"], "n": c["n"], "plan": c["plan"], "ctl": c["ctl"], "variant": "adjoint tensors"}
        ctx.case(cid, nontrivial=True)
        for x in mm:
            ctx.violation("C08:%denv:adjoint:%s" % (len(c["edims"]), x["what"]), "%s: %s" % (cid, x), {"adjoint_case": c, "transforms": jb.get("transforms", False)})
    res = core.pmap(run_case, jobs, chunksize=4)
    for job, mm in zip(jobs, res):
        c = job["case"]
        cid = {"d": c["d"], "edims": c["edims"], "n": c["n"], "plan": c["plan"], "ctl": c["ctl"], "variant": job["variant"]}
        ctx.case(cid, nontrivial=any(it[0] == "env" and it[3] != "I" for it in c["plan"]))
        for x in mm:
            ctx.violation("C08:%denv:%s:%s" % (len(c["edims"]), job["variant"]["mode"], x["what"]),
                          "%s: %s" % (cid, x), {"case": c, "variant": job["variant"]})
    ctx.rule = ("gate plans of PTContract.tla (exhaustive for 2 steps with 1 and 2 environments, TLC -simulate samples for "
                "shifting half steps and 3 steps) x {user-supplied, numerically differentiated propagator derivatives} x "
                "{linear, callable target}; every entry of the 2N x 3 gradient compared; non-trivial = at least one "
                "non-identity environment gate")
    ctx.exhaustive = False
    ctx.assumptions += ["numerically differentiated derivatives compared with tolerance 2e-6, supplied ones 1e-9",
                        "process tensors are closed at the last step (the gradient code requires it)"]


def replay(ctx, rep):
    core._init_worker()
    c = rep["case"]
    if "adjoint_case" in c:
        ctx.case({"replay": True})
        for x in adjoint_job({"case": c["adjoint_case"], "seed": rep.get("seed", 0), "transforms": c.get("transforms", False)}):
            ctx.violation("C08:replay:" + x["what"], str(x), c)
        return
    mm = run_case({"case": c["case"], "variant": c["variant"], "seed": rep.get("seed", 0)})
    ctx.case({"replay": True})
    for x in mm:
        ctx.violation("C08:replay:" + x["what"], str(x), c)
