"""C06 - degeneracy reduction (unique=True) never changes results.

Spec: specs/Degeneracy.tla (north/west partitions, reduce-then-scatter = identity,
checked by TLC for every eigenvalue tuple in the bound) and specs/Influence.tla
(expected states do not mention `unique`).  Binding: (a) the real Bath's degeneracy
maps are compared as partitions with the spec's for every tuple; (b) every Influence
behaviour is replayed with unique=False and unique=True through Tempo, PtTempo +
compute_dynamics and MeanFieldTempo; both must decode to the one spec state.
"""
import numpy as np

from harness import core, influence_engine as eng, probes

LEVEL = "model_checking"

DEG_CFG = """
INIT Init
NEXT Next
INVARIANT ReductionExact
INVARIANT Coarsest
INVARIANT Refines
INVARIANT EmitCase
"""


def check_maps(job):
    import oqupy
    case, rot_kind, seed = job[:3]
    # the partition is invariant under affine maps of the eigenvalues (coincidences of differences and of sums
    # are preserved): the same classes are demanded for a large constant offset and for small splittings
    scale, offset = job[3] if len(job) > 3 else (1.0, 0.0)
    o = np.array(case["o"], dtype=float) * scale + offset
    d = len(o)
    out = []
    corr = probes.make_probe_sd(probes.probe_weights(seed, 4), 0.25)
    try:
        bath = oqupy.Bath(np.diag(o), corr)
    except Exception as ex:  # pylint: disable=broad-except
        return [{"what": "bath-rejected", "detail": repr(ex)}]
    for name, want in (("north", case["north"]), ("west", case["west"])):
        m = np.array(getattr(bath, name + "_degeneracy_map"))
        want = probes.norm_seq(want)
        got = [int(np.where(m == m[e])[0][0]) for e in range(d * d)]
        if got != want:
            out.append({"what": "map-" + name, "expected": want, "observed": got})
        nclass = case["nnorth"] if name == "north" else case["nwest"]
        if int(m.max()) + 1 != nclass:
            out.append({"what": "nclass-" + name, "expected": nclass, "observed": int(m.max()) + 1})
    return out


def run(ctx):
    quick = ctx.tier == "quick"
    space = "UNION {[1..d -> (-1)..2] : d \\in 2..3}" if quick else "UNION {[1..d -> (-1)..2] : d \\in 2..4}"
    r = ctx.tlc("Degeneracy", DEG_CFG, label="all eigenvalue tuples over -1..2",
                constants={"OSpace": space, "Emit": "TRUE"}, workers=1)
    affine = [(1.0, 0.0), (1.0, 2.0e5), (0.001, 0.0), (8.0, -3.0e4)]
    mjobs = [(c, "id", ctx.seed, ab) for c in r.cases for ab in affine]
    res = core.pmap(check_maps, mjobs, chunksize=8)
    for (c, _, _, ab), mm in zip(mjobs, res):
        ctx.case({"o": c["o"], "scale_offset": list(ab), "check": "degeneracy maps"}, nontrivial=c["nnorth"] < len(c["o"]) ** 2)
        for m in mm:
            ctx.violation("C06:maps:" + m["what"], "o=%s scale,offset=%s %s" % (c["o"], ab, m), {"o": c["o"], "affine": list(ab)})

    # replay Influence behaviours for every pattern with unique False/True
    def tup(o):
        return "<<" + ",".join(str(x) for x in o) + ">>"
    pats = [c["o"] for c in r.cases if len(c["o"]) <= 3]
    if quick:
        # all d=2 patterns, and the d=3 patterns up to relabelling of levels (sorted)
        pats = [o for o in pats if len(o) == 2 or list(o) == sorted(o)]
    oset = "{" + ", ".join(tup(o) for o in pats) + "}"
    consts = {"MaxN": "3", "MinN": "3", "KSet": "{1,2,1000}", "ASet": "{1000,1}",
              "OSet": oset, "ShiftSet": "{<<0,0>>, <<1,0>>}" if quick else "{<<0,0>>, <<1,0>>, <<1,1>>}",
              "AlgSet": '{"row","col"}'}
    cases = eng.generate(ctx, consts, "degeneracy patterns x memory settings")
    jobs = []
    for idx, case in enumerate(cases):
        for unique in (False, True):
            jobs.append({"case": case, "variant": {"unique": unique}, "seed": ctx.seed})
        # "diagonal or not": the same behaviours with the coupling operator written in another basis
        jobs.append({"case": case, "variant": {"unique": True, "rot": ("haar", "real", "fourier")[idx % 3]}, "seed": ctx.seed})
        if case["alg"] == "row" and len(case["sh"]) == 2 and case["sh"][0] == case["sh"][1]:
            jobs.append({"case": case, "variant": {"unique": True, "method": "mf"}, "seed": ctx.seed})
            if idx % 2 == 0:
                jobs.append({"case": case, "variant": {"unique": True, "method": "mf", "rot": "haar"}, "seed": ctx.seed})
    results = core.pmap(eng.run_variant, jobs, chunksize=8)
    for job, res_ in zip(jobs, results):
        cid = eng.case_id(job["case"], job["variant"])
        o = job["case"]["o"]
        degenerate = len({(a - b, a + b) for a in o for b in o}) < len(o) ** 2
        ctx.case(cid, nontrivial=degenerate)
        for mm in res_["mismatch"]:
            key = "C06:%s:unique=%s:%s" % (job["variant"].get("method", job["case"]["alg"]),
                                          job["variant"]["unique"], mm["what"])
            ctx.violation(key, "case %s: %s" % (cid, mm), {"case": job["case"], "variant": job["variant"]})
    # two systems with different coupling operators in one MeanFieldTempo (degeneracy data must not leak
    # from one bath to another)
    rows = [c for c in cases if c["alg"] == "row"]
    pairs = []
    for i, ca in enumerate(rows):
        cb = rows[(i * 7 + 3) % len(rows)]
        if (ca["N"], ca["K"], ca["A"]) == (cb["N"], cb["K"], cb["A"]) and ca["o"] != cb["o"]:
            pairs.append({"cases": [ca, cb], "variant": {"unique": True, "rot": bool(i % 2)}, "seed": ctx.seed})
    if quick:
        pairs = pairs[::3]
    # ... and two systems with the SAME coupling operator but different bath correlations (the degeneracy bookkeeping
    # depends on the coupling operator alone, the influence functions do not)
    same = [{"cases": [ca, ca], "variant": {"unique": True, "rot": False}, "seed": ctx.seed}
            for i, ca in enumerate(rows) if i % (9 if quick else 3) == 0]
    pairs += same
    for job, res_ in zip(pairs, core.pmap(eng.run_mf_pair, pairs, chunksize=4)):
        cid = {"mf_pair": [job["cases"][0]["o"], job["cases"][1]["o"]], "K": job["cases"][0]["K"], "A": job["cases"][0]["A"],
               "variant": job["variant"]}
        ctx.case(cid, nontrivial=True)
        for mm in res_["mismatch"]:
            ctx.violation("C06:mf-two-systems:unique=True:%s" % mm["what"], "%s: %s" % (cid, mm), {"mf_pair": job})
    ctx.rule = ("eigenvalue tuples o in (-1..2)^d enumerated by TLC (Degeneracy.tla); for each: real Bath maps vs spec "
                "partitions; Influence.tla behaviours (N=3, dkmax in {1,2,None}, add_correlation_time in {None,dt}, "
                "shifted/unshifted clock) replayed with unique False and True via Tempo, PtTempo+compute_dynamics, "
                "MeanFieldTempo; non-trivial = the tuple has at least one coincidence of (o_i-o_j, o_i+o_j)")
    ctx.exhaustive = True
    ctx.assumptions += ["probe bath and clock systems as in C01/C02; d=4 only in the thorough tier (maps only)"]


def replay(ctx, rep):
    core._init_worker()
    c = rep["case"]
    if "mf_pair" in c:
        ctx.case({"replay": True})
        for mm in eng.run_mf_pair(c["mf_pair"])["mismatch"]:
            ctx.violation("C06:replay:" + mm["what"], str(mm), c)
        return
    if "variant" in c:
        res = eng.run_variant({"case": c["case"], "variant": c["variant"], "seed": rep.get("seed", 0)})
        ctx.case(eng.case_id(c["case"], c["variant"]))
        for mm in res["mismatch"]:
            ctx.violation("C06:replay:" + mm["what"], str(mm), c)
