"""C13 - computations cover exactly the requested time grid and label states correctly.

Spec: specs/TimeGrid.tla (integer quarter-tick arithmetic; one action per loop
iteration).  TLC checks Covers / Sorted / OnGrid / Aligned / Complete on every state
for every (api, dt, start, m, offset, record_all) in the bound and emits the expected
label sequence.  The harness maps ticks to decimal literals (so "0.3 with dt 0.1" is
literally the case p=10 ticks of 0.01, m=3, off=0), runs the real API, and compares
the number of steps, every time label and - through the precession phase of a qubit
coherence - that the state stored under label k is the state of step k.
"""
from decimal import Decimal

import numpy as np

from harness import core, probes

LEVEL = "model_checking"

CFG = """
INIT Init
NEXT Next
INVARIANT Covers
INVARIANT Sorted
INVARIANT OnGrid
INVARIANT Aligned
INVARIANT Complete
INVARIANT WithinEnd
INVARIANT EmitCase
"""

SZ = np.diag([0.5, -0.5])
PLUS = np.array([[0.5, 0.5], [0.5, 0.5]], dtype=complex)


def lit(x):
    """Decimal -> the float a user gets by typing the decimal literal."""
    return float(str(x))


def run_case(job):
    import oqupy
    case, tick = job
    tick = Decimal(tick)
    q = tick / 4
    dt_d = case["dt"] * q
    start_d = case["start"] * q
    end_d = case["endq"] * q
    dt, start, end = lit(dt_d), lit(start_d), lit(end_d)
    m = case["m"]
    api = case["api"]
    rec_all = case["recAll"]
    omega = 2 * np.pi / (1024.5 * dt)
    h = omega * SZ * 2            # H = omega sigma_z  (rho01 phase = -omega * 2*0.5 ... see below)
    # rho01(t) = rho01(0) exp(-i (E0 - E1) t), E0 - E1 = omega*2*0.5 - (-omega*2*0.5)... = 2 omega*0.5*2
    ediff = h[0, 0] - h[1, 1]
    out = []
    try:
        if api in ("tempo", "mftempo", "pttempo"):
            w = probes.probe_weights(0, 8).real + 0j
            sd = probes.make_probe_sd(w, dt)
            bath = oqupy.Bath(SZ, sd)
            params = oqupy.TempoParameters(dt=dt, epsrel=1e-15, dkmax=1)
            if api == "tempo":
                dyn = oqupy.Tempo(oqupy.System(h), bath, params, PLUS, start).compute(
                    end, progress_type="silent")
                times, states = dyn.times, dyn.states
            elif api == "mftempo":
                fs = oqupy.TimeDependentSystemWithField(lambda t, a: h)
                mfs = oqupy.MeanFieldSystem([fs], field_eom=lambda t, s, a: 0.0)
                mfd = oqupy.MeanFieldTempo(mfs, [bath], params, [PLUS], 1.0, start).compute(
                    end, progress_type="silent")
                times, states = mfd.times, mfd.system_dynamics[0].states
                if len(mfd.fields) != len(times):
                    out.append({"what": "fields-misaligned"})
            else:
                pt = oqupy.PtTempo(bath, start, end, params).get_process_tensor(progress_type="silent")
                if len(pt) != case["n"]:
                    out.append({"what": "pt-length", "expected": case["n"], "observed": len(pt)})
                ptarg = pt
                if m % 2 == 1:
                    # a second environment that is switched off (a trivial process tensor fits any grid) next to it
                    from oqupy.process_tensor import TrivialProcessTensor
                    ptarg = [pt, TrivialProcessTensor(hilbert_space_dimension=2)] if m % 4 == 1 else \
                        [TrivialProcessTensor(hilbert_space_dimension=2), pt]
                dyn = oqupy.compute_dynamics(oqupy.System(h), initial_state=PLUS, process_tensor=ptarg,
                                             start_time=start, progress_type="silent")
                times, states = dyn.times, dyn.states
        elif api == "cd":
            dyn = oqupy.compute_dynamics(oqupy.System(h), initial_state=PLUS, dt=dt, num_steps=m,
                                         start_time=start, record_all=rec_all, progress_type="silent")
            times, states = dyn.times, dyn.states
        elif api == "cdf":
            fs = oqupy.TimeDependentSystemWithField(lambda t, a: h)
            mfs = oqupy.MeanFieldSystem([fs], field_eom=lambda t, s, a: 0.0)
            mfd = oqupy.compute_dynamics_with_field(mfs, 1.0, dt=dt, num_steps=m,
                                                    initial_state_list=[PLUS], start_time=start,
                                                    record_all=rec_all, progress_type="silent")
            times, states = mfd.times, mfd.system_dynamics[0].states
            if len(mfd.fields) != len(times):
                out.append({"what": "fields-misaligned"})
        elif api == "grad":
            from oqupy.gradient import compute_gradient_and_dynamics
            from oqupy.process_tensor import SimpleProcessTensor
            ipt = SimpleProcessTensor(2, dt=dt)
            for kk in range(m):
                ipt.set_mpo_tensor(kk, np.eye(4).reshape(1, 1, 4, 4))
            ipt.compute_caps()
            psys = oqupy.ParameterizedSystem(lambda x: x * 2 * SZ)
            pars = np.full((2 * m, 1), omega)
            _, dyn = compute_gradient_and_dynamics(
                system=psys, initial_state=PLUS, target_derivative=PLUS.T.copy(),
                process_tensors=[ipt], parameters=pars, start_time=start,
                dt=dt, num_steps=m, record_all=rec_all, progress_type="silent")
            times, states = dyn.times, dyn.states
            if rec_all:
                # the front end state_gradient reports the same labelled dynamics
                sg = oqupy.state_gradient(system=psys, initial_state=PLUS, target_derivative=PLUS.T.copy(),
                                          process_tensors=[ipt], parameters=pars, start_time=start, progress_type="silent")
                st = np.asarray(sg["dynamics"].times, dtype=float)
                if len(st) != len(times) or np.max(np.abs(st - np.asarray(times, dtype=float))) > 1e-12:
                    out.append({"what": "state_gradient-labels", "expected_first": float(times[0]), "observed_first": float(st[0]),
                                "observed_len": len(st)})
        elif api == "tebd":
            chain = oqupy.SystemChain([2, 2])
            chain.add_site_hamiltonian(0, h)
            chain.add_site_hamiltonian(1, h)
            mps = oqupy.AugmentedMPS([PLUS.copy(), PLUS.copy()])
            tebd = oqupy.PtTebd(mps, chain, [None, None],
                                oqupy.PtTebdParameters(dt=dt, order=2, epsrel=1e-12),
                                start_time=start, start_step=(3 if m % 2 else 0),
                                dynamics_sites=[0])
            s0 = 3 if m % 2 else 0
            if m % 4 == 1:
                # the object is initialised explicitly first (e.g. to look at the initial state): the grid is the same
                tebd.initialize()
                tebd.get_current_density_matrix(0)
            if m >= 2 and m % 3 != 1:
                # the requested grid is reached in two calls; a call whose end step has been passed adds nothing
                tebd.compute(s0 + m // 2, progress_type="silent")
                tebd.compute(s0 + m, progress_type="silent")
                res = tebd.compute(s0 + m - 1, progress_type="silent")
            else:
                res = tebd.compute(s0 + m, progress_type="silent")
            times, states = res["dynamics"][0].times, res["dynamics"][0].states
            if not np.allclose(res["time"], times):
                out.append({"what": "tebd-time-axes-differ"})
        else:
            raise ValueError(api)
    except Exception as ex:  # pylint: disable=broad-except
        return [{"what": "exception", "detail": "%s: %s" % (type(ex).__name__, str(ex)[:120])}]
    times = np.array(times, dtype=float)
    labels = [lit(l * q) for l in probes.norm_seq(case["labels"])]
    if len(times) != len(labels):
        out.append({"what": "length", "expected_labels": len(labels), "observed": len(times),
                    "last_observed": float(times[-1]) if len(times) else None,
                    "last_expected": labels[-1]})
        return out
    for i, (t, lab) in enumerate(zip(times, labels)):
        if abs(t - lab) > 1e-9 * max(1.0, abs(lab)):
            out.append({"what": "label", "index": i, "expected": lab, "observed": float(t)})
            break
    if np.any(np.diff(times) <= 0):
        out.append({"what": "unsorted"})
    # which step does the state stored at index i belong to?  (precession phase)
    for i, lab_q in enumerate(probes.norm_seq(case["labels"])):
        kstep = (lab_q - case["start"]) // case["dt"]
        ph = np.angle(states[i][0, 1] / PLUS[0, 1] * np.exp(1j * ediff * dt * kstep))
        if abs(ph) > 1e-6:
            out.append({"what": "state-under-wrong-label", "index": i, "expected_step": int(kstep),
                        "decoded_step": float(kstep - ph / (ediff * dt))})
            break
    return out


DYN_CFG = """
INIT Init
NEXT Next
INVARIANT Sorted
INVARIANT Aligned
INVARIANT Stable
INVARIANT Complete
PROPERTY RejectKeeps
INVARIANT EmitCase
"""


def dynamics_job(case):
    """Replay a history of add() calls on Dynamics and MeanFieldDynamics."""
    import oqupy
    from oqupy.dynamics import Dynamics, MeanFieldDynamics
    out = []
    adds = probes.norm_seq(case["adds"])
    want = [tuple(x) for x in probes.norm_seq(case["content"])]
    d = Dynamics()
    m = MeanFieldDynamics()
    rejects = {}
    for r_ in probes.norm_seq(case.get("rejects", [])):
        rejects.setdefault(int(r_[0]), []).append((r_[1], r_[2]))

    def try_invalid(k):
        for t, kind in rejects.get(k, []):
            good = np.array([[9.0, 0.0], [0.0, -9.0]], dtype=complex)
            bad_state = np.ones((3, 3), dtype=complex) if kind == "shape" else good
            for obj, args in ((d, (0.25 * t, bad_state)) if kind == "shape" else (None, None),
                              (m, (0.25 * t, [bad_state, good[:1, :1]] if kind != "count" else [good], "x" if kind == "field" else 1.0))):
                if obj is None:
                    continue
                try:
                    obj.add(*args)
                    out.append({"what": "invalid-add-accepted", "kind": kind, "object": type(obj).__name__})
                except (AssertionError, TypeError, ValueError, IndexError):
                    pass
    for tag, t in enumerate(adds, start=1):
        st = np.array([[tag, 0.0], [0.0, -tag]], dtype=complex)
        d.add(0.25 * t, st)
        m.add(0.25 * t, [st, st[:1, :1] * 2], complex(tag, -tag))
        try_invalid(tag)
    if not (len(m.times) == len(m.fields) == len(m.system_dynamics[0].times) == len(m.system_dynamics[1].times)):
        out.append({"what": "meanfield-dynamics-misaligned-after-a-rejected-add",
                    "lengths": [len(m.times), len(m.fields), len(m.system_dynamics[0].times), len(m.system_dynamics[1].times)]})
        return out
    got = [(int(round(t / 0.25)), int(round(s[0, 0].real))) for t, s in zip(d.times, d.states)]
    if got != want:
        out.append({"what": "dynamics-content", "expected": want, "observed": got})
    gm = [(int(round(t / 0.25)), int(round(f.real)), int(round(a[0, 0].real)), int(round(b[0, 0].real / 2)))
          for t, f, a, b in zip(m.times, m.fields, m.system_dynamics[0].states, m.system_dynamics[1].states)]
    if gm != [(t, g, g, g) for t, g in want]:
        out.append({"what": "meanfield-dynamics-content", "expected": want, "observed": gm})
    return out


def run(ctx):
    quick = ctx.tier == "quick"
    dr = ctx.tlc("DynamicsObj", DYN_CFG, label="Dynamics containers: every order of add()", workers=4,
                 constants={"Times": "{-1, 0, 1, 2}", "MaxAdds": "4" if quick else "5", "Emit": "TRUE"})
    for c, mm in zip(dr.cases, core.pmap(dynamics_job, dr.cases, chunksize=16)):
        ctx.case({"adds": c["adds"], "rejects": c.get("rejects", [])}, nontrivial=list(c["adds"]) != sorted(c["adds"]))
        for x in mm:
            ctx.violation("C13:Dynamics.add:%s" % x["what"], "adds=%s: %s" % (c["adds"], x), {"dynamics": c})
    apis_all = ["tempo", "mftempo", "pttempo", "cd", "cdf", "grad", "tebd"]
    jobs = []
    runs = [
        # (label, tick, PSet, SSet, MaxM, OffSet, apis)
        ("decimal literals 0.01-grid", "0.01", "{10, 20, 30, 5, 1, 25, 7}", "{0, 10, -30, 100, 250000}", 12 if quick else 40, "{0, 2}", apis_all),
        ("coarser tick 0.05", "0.05", "{1, 2, 3, 7}", "{0, -6, 20}", 9 if quick else 30, "{0, 1, 3}", apis_all),
    ]
    if not quick:
        runs.append(("long grids (cheap APIs)", "0.01", "{10, 30, 7}", "{0, 10}", 1000, "{0}", ["cd", "cdf", "grad", "tebd"]))
        runs.append(("long grids TEMPO", "0.01", "{10, 30}", "{0}", 120, "{0}", ["tempo", "mftempo", "pttempo"]))
    for label, tick, pset, sset, maxm, offset, apis in runs:
        consts = {"PSet": pset, "SSet": sset, "MaxM": str(maxm), "MinM": "0" if maxm < 100 else str(maxm - 8),
                  "OffSet": offset, "ApiSet": "{" + ",".join('"%s"' % a for a in apis) + "}", "Emit": "TRUE"}
        if maxm >= 100 and maxm < 1000:
            consts["MinM"] = str(maxm - 3)
        r = ctx.tlc("TimeGrid", CFG, label=label, constants=consts, workers=1)
        for c in r.cases:
            # compute_dynamics-type APIs take num_steps, not end_time: offsets do not apply
            if c["api"] in ("cd", "cdf", "grad", "tebd") and c["off"] != 0:
                continue
            # a grid of zero steps is a grid (the initial state, labelled start); a gradient over zero half-steps and a
            # process tensor of zero steps are not computations
            if c["m"] == 0 and c["api"] in ("grad", "pttempo"):
                continue
            jobs.append((c, tick))
    res = core.pmap(run_case, jobs, chunksize=8)
    for (c, tick), mm in zip(jobs, res):
        cid = {k: c[k] for k in ("api", "p", "s", "m", "off", "recAll")}
        cid["tick"] = tick
        ctx.case(cid, nontrivial=c["m"] >= 1)
        for x in mm:
            key = "C13:%s:%s" % (c["api"] + ("" if c["recAll"] else ":final-only"), x["what"])
            ctx.violation(key, "%s %s" % (cid, x), {"case": c, "tick": tick})
    # ---- code -> spec: every compute call of the repository's own tests and of a randomised driver, validated by TLC
    # against TraceRun.tla (Target: floor((target - start) / dt) steps with on-grid targets included; Records: one
    # sorted, aligned time point per step)
    from harness import trace_validate
    trace_validate.run(ctx, "C13", light=True)
    ctx.rule = ("every terminal state of TimeGrid.tla: api x dt (ticks) x start x m x off-grid offset x record_all; "
                "ticks mapped to decimal literals; m = 0 (the grid of the initial state alone) included")
    ctx.exhaustive = True
    ctx.assumptions += ["labels compared with relative tolerance 1e-9; step identity decoded from a qubit precession phase unique below 1024 steps"]


def replay(ctx, rep):
    if "trace_events" in rep["case"]:
        from harness import trace_validate
        trace_validate.replay(ctx, rep["case"], "C13")
        return
    core._init_worker()
    c = rep["case"]
    if "dynamics" in c:
        for x in dynamics_job(c["dynamics"]):
            ctx.violation("C13:Dynamics.add:" + x["what"], str(x), c)
        ctx.case(c)
        return
    mm = run_case((c["case"], c["tick"]))
    ctx.case(c)
    for x in mm:
        ctx.violation("C13:%s:%s" % (c["case"]["api"] + ("" if c["case"]["recAll"] else ":final-only"), x["what"]), str(x), c)
