r"""C20 - results depend only on current inputs: no mutation, aliasing or stale state.

Spec: specs/ObjectGraph.tla - a correlations object with a public parameter (versions),
its memo table, a bath built from it (shallow copy), computations using the bath, and
computations re-using shared objects.  TLC checks Freshness / Isolation / ReuseFresh on
every history in the bound for the strict specification, shows that the two named
deviations (stale memo of the 2D integrals; the bath's copy closing over the original
object) violate them, and emits every history.  Binding:
 (A) every history is replayed on real objects (PowerLawSD, Bath, Tempo); every answer is
     mapped to the parameter version it reflects (table from freshly built objects) and
     compared with the version the specification demands; mismatches are accepted as known
     findings only where the deviated specification predicts exactly the observed version;
 (B) every API that takes arrays is called with C-ordered, Fortran-ordered, strided and
     read-only arrays: results must be identical and the caller's arrays bit-for-bit
     unchanged;
 (C) every sequence of computations re-using the same system / bath / parameters /
     process-tensor / control objects (from the spec) must give the results of fresh objects.
"""
import numpy as np

from harness import core, probes

LEVEL = "model_checking"

CFG = """
INIT Init
NEXT Next
INVARIANT Freshness
INVARIANT Isolation
INVARIANT EmitCase
"""
CFG_NOPROP = """
INIT Init
NEXT Next
INVARIANT EmitCase
"""
CFG_USE = """
INIT Init
NEXT NextUse
INVARIANT ReuseFresh
INVARIANT EmitCase
"""
ALPHA = {1: 0.1, 2: 0.2, 3: 0.35}
SX = np.array([[0, 1], [1, 0]], dtype=complex)
SZ = np.diag([1.0 + 0j, -1.0])
RHO = np.array([[0.7, 0.2 - 0.1j], [0.2 + 0.1j, 0.3]])
_TABLE = {}


def mk_corr(v):
    import oqupy
    return oqupy.PowerLawSD(alpha=ALPHA[v], zeta=1.0, cutoff=2.0, cutoff_type="exponential", temperature=0.5)


def eta_of(corr, a):
    return complex(corr.correlation_2d_integral(delta=0.1, time_1=0.1 * a, shape="square"))


def compute_of(bath):
    import oqupy
    params = oqupy.TempoParameters(dt=0.1, epsrel=1e-7, dkmax=2)
    dyn = oqupy.Tempo(oqupy.System(0.5 * SX), bath, params, RHO, 0.0).compute(0.2 + 0.01, progress_type="silent")
    return complex(dyn.states[-1][0, 1])


def table():
    import oqupy
    if not _TABLE:
        for v in ALPHA:
            c = mk_corr(v)
            _TABLE[("corr", 0, v)] = complex(c.correlation(0.3))
            for a in (1, 2, 3):
                _TABLE[("eta", a, v)] = eta_of(mk_corr(v), a)
            _TABLE[("compute", 0, v)] = compute_of(oqupy.Bath(0.5 * SZ, mk_corr(v)))
    return _TABLE


def version_of(kind, arg, value):
    t = table()
    best = None
    for (k, a, v), val in t.items():
        if k == kind and a == arg and abs(val - value) <= 1e-9 * max(1.0, abs(val)):
            best = v
    return best


def history_job(case):
    import oqupy
    out = []
    try:
        c = mk_corr(1)
        bath = None
        observed = []
        for h in case["hist"]:
            op, arg = h["op"], h["arg"]
            if op == "set":
                c.alpha = ALPHA[arg]
                observed.append(arg)
            elif op == "corr":
                observed.append(version_of("corr", 0, complex(c.correlation(0.3))))
            elif op == "eta":
                observed.append(version_of("eta", arg, eta_of(c, arg)) or 0)
            elif op == "bath":
                bath = oqupy.Bath(0.5 * SZ, c)
                observed.append(h["obs"])
            elif op == "setb":
                x = bath.correlations
                x.alpha = ALPHA[arg]
                observed.append(arg)
            elif op == "battr":
                a = bath.correlations.alpha
                observed.append(next((v for v, al in ALPHA.items() if al == a), None))
            elif op == "bcorr":
                observed.append(version_of("corr", 0, complex(bath.correlations.correlation(0.3))))
            elif op == "compute":
                observed.append(version_of("compute", 0, compute_of(bath)))
            else:
                raise ValueError(op)
    except Exception as ex:  # pylint: disable=broad-except
        import traceback
        return {"observed": None, "error": "%s: %s" % (type(ex).__name__, str(ex)[:150]) + traceback.format_exc()[-300:]}
    return {"observed": observed}


# ------------------------------------------------------------------ (B) layouts / mutation

def layouts(x):
    x = np.array(x)
    big = np.zeros(tuple(2 * s for s in x.shape), dtype=x.dtype)
    view = big[tuple(slice(None, None, 2) for _ in x.shape)]
    view[...] = x
    ro = x.copy()
    ro.setflags(write=False)
    return {"C": np.ascontiguousarray(x.copy()), "F": np.asfortranarray(x.copy()), "strided": view, "readonly": ro}


def identity_pt(n, d=2, dt=0.1):
    from oqupy.process_tensor import SimpleProcessTensor
    p = SimpleProcessTensor(d, dt=dt)
    for k in range(n):
        p.set_mpo_tensor(k, np.eye(d * d).reshape(1, 1, d * d, d * d))
    p.compute_caps()
    return p


def api_calls():
    """name -> (dict of array arguments, function(arrays) -> result array)"""
    import oqupy
    h = 0.4 * SX + 0.3 * SZ + 0.2 * np.array([[0, -1j], [1j, 0]])
    lop = np.array([[0, 1], [0, 0]], dtype=complex)
    cop = 0.5 * SZ + 0.2 * SX
    ctl = np.kron(SX, SX.conj())
    calls = {}

    def corr():
        return mk_corr(1)

    def tempo(a):
        bath = oqupy.Bath(a["coupling"], corr())
        s = oqupy.System(a["h"], gammas=[0.1], lindblad_operators=[a["lop"]])
        p = oqupy.TempoParameters(dt=0.1, epsrel=1e-7, dkmax=2)
        dyn = oqupy.Tempo(s, bath, p, a["rho"], 0.0).compute(0.21, progress_type="silent")
        a["_live"] = lambda: np.array(dyn.states)
        return a["_live"]()
    calls["Tempo"] = ({"h": h, "lop": lop, "coupling": cop, "rho": RHO}, tempo)

    def dynamics(a):
        c = oqupy.Control(2)
        c.add_single(1, a["ctl"])
        s = oqupy.System(a["h"])
        dyn = oqupy.compute_dynamics(s, initial_state=a["rho"], process_tensor=identity_pt(3), control=c,
                                     progress_type="silent")
        # ... and without a process tensor (the state at t=0 is recorded before anything acts on it)
        dyn2 = oqupy.compute_dynamics(s, initial_state=a["rho"], dt=0.1, num_steps=2, progress_type="silent")
        a["_live"] = lambda: np.concatenate([np.array(dyn.states), np.array(dyn2.states)])
        return a["_live"]()
    calls["compute_dynamics"] = ({"h": h, "rho": RHO, "ctl": ctl}, dynamics)

    def correlations(a):
        s = oqupy.System(a["h"])
        _, cc = oqupy.compute_correlations(s, identity_pt(3), a["opa"], a["opb"], slice(None), slice(None),
                                           initial_state=a["rho"], progress_type="silent")
        return np.nan_to_num(cc, nan=-7.0)
    calls["compute_correlations"] = ({"h": h, "rho": RHO, "opa": SZ + 0.1 * SX, "opb": lop}, correlations)

    def gradient(a):
        psys = oqupy.ParameterizedSystem(lambda x, y: x * SX + y * SZ)
        r = oqupy.state_gradient(system=psys, initial_state=a["rho"], target_derivative=a["target"],
                                 process_tensors=[identity_pt(2)], parameters=a["pars"], progress_type="silent")
        a["_live"] = lambda: np.concatenate([np.array(r["gradient"]).reshape(-1), np.array(r["dynamics"].states).reshape(-1)])
        return a["_live"]()
    calls["state_gradient"] = ({"rho": RHO, "target": np.array([[0.2, 0.1j], [-0.1j, 0.8]]),
                                "pars": np.array([[0.3, 0.1], [0.2, 0.4], [0.5, 0.0], [0.1, 0.3]])}, gradient)

    def tebd(a):
        chain = oqupy.SystemChain([2, 2])
        chain.add_site_hamiltonian(0, a["h"])
        chain.add_nn_hamiltonian(0, a["nl"], a["nr"])
        chain.add_site_dissipation(1, a["lop"], 0.2)
        mps = oqupy.AugmentedMPS([a["rho"], a["rho2"]])
        t = oqupy.PtTebd(mps, chain, [None, None], oqupy.PtTebdParameters(dt=0.1, order=2, epsrel=1e-10),
                         dynamics_sites=[(0, 1)])
        res = t.compute(2, progress_type="silent")
        a["_live"] = lambda: np.array(res["dynamics"][(0, 1)].states)
        return a["_live"]()
    calls["PtTebd"] = ({"h": h, "nl": SZ.copy(), "nr": SX.copy(), "lop": lop, "rho": RHO, "rho2": RHO.T.copy()}, tebd)

    def mftempo(a):
        fs = oqupy.TimeDependentSystemWithField(lambda t, f: a["h"] + 0.1 * f * SX)
        mfs = oqupy.MeanFieldSystem([fs], field_eom=lambda t, st, f: -0.3j * f + np.trace(st[0] @ lop))
        bath = oqupy.Bath(a["coupling"], corr())
        p = oqupy.TempoParameters(dt=0.1, epsrel=1e-7, dkmax=2)
        d = oqupy.MeanFieldTempo(mfs, [bath], p, [a["rho"]], 0.2, 0.0).compute(0.21, progress_type="silent")
        a["_live"] = lambda: np.concatenate([np.array(d.system_dynamics[0].states).reshape(-1), np.array(d.fields)])
        return a["_live"]()
    calls["MeanFieldTempo"] = ({"h": h, "coupling": cop, "rho": RHO}, mftempo)

    def pt_set(a):
        from oqupy.process_tensor import SimpleProcessTensor
        p = SimpleProcessTensor(2, dt=0.1)
        p.set_mpo_tensor(0, a["t0"])
        p.set_mpo_tensor(1, a["t0"])
        p.compute_caps()
        dyn = oqupy.compute_dynamics(oqupy.System(h), initial_state=a["rho"], process_tensor=p, progress_type="silent")
        # the process tensor keeps what it was given: read back after the caller's array has been overwritten
        a["_live"] = lambda: np.concatenate([np.array(dyn.states).reshape(-1), np.array(p.get_mpo_tensor(0)).reshape(-1)])
        return a["_live"]()

    def bathdyn(a):
        from oqupy import bath_dynamics
        bath = oqupy.Bath(0.5 * SZ, corr())
        sysm = oqupy.System(0.5 * SX + 0.1 * SZ)
        b = bath_dynamics.TwoTimeBathCorrelations(sysm, bath, a["pt"], initial_state=a["rho"], system_correlations=a["syscorr"])
        occ = b.occupation(1.3, progress_type="silent")[1]
        c1 = b.correlation(1.3, 0.1, time_2=0.2, progress_type="silent")
        return np.concatenate([np.array(occ, dtype=complex), [c1]])

    def bathdyn_args():
        bath = oqupy.Bath(0.5 * SZ, corr())
        pt = oqupy.PtTempo(bath, 0.0, 0.31, oqupy.TempoParameters(dt=0.1, epsrel=1e-7, dkmax=2)).get_process_tensor(
            progress_type="silent")
        _, cc = oqupy.compute_correlations(oqupy.System(0.5 * SX + 0.1 * SZ), pt, 0.5 * SZ, 0.5 * SZ, slice(3), slice(3),
                                           initial_state=RHO, progress_type="silent")
        return {"syscorr": cc, "rho": RHO, "pt": pt}
    calls["TwoTimeBathCorrelations"] = (bathdyn_args, bathdyn)
    calls["SimpleProcessTensor"] = ({"t0": np.eye(4, dtype=complex).reshape(1, 1, 4, 4) * 1.0, "rho": RHO}, pt_set)
    return calls


def layout_job(job):
    name, lay = job
    args, fn = api_calls()[name]
    out = []
    try:
        if callable(args):
            args = args()
        fixed = {k: v for k, v in args.items() if not isinstance(v, np.ndarray)}
        args = {k: v for k, v in args.items() if isinstance(v, np.ndarray)}
        ref = fn(dict(fixed, **{k: layouts(v)["C"] for k, v in args.items()}))
        given = {k: layouts(v)[lay] for k, v in args.items()}
        pristine = {k: np.array(v, copy=True) for k, v in given.items()}
        flags = {k: (v.flags.writeable, v.strides) for k, v in given.items()}
        given_all = dict(fixed, **given)
        try:
            res = fn(given_all)
        except Exception as ex:  # pylint: disable=broad-except
            return [{"what": "layout-rejected", "detail": "%s: %s" % (type(ex).__name__, str(ex)[:120])}]
        if res.shape != ref.shape or np.max(np.abs(res - ref)) > 1e-12:
            out.append({"what": "layout-changes-result", "err": float(np.max(np.abs(res - ref))) if res.shape == ref.shape else "shape"})
        for k, v in given.items():
            # bytes, not values: a caller's NaN entries must stay NaN
            if v.tobytes() != pristine[k].tobytes() or (v.flags.writeable, v.strides) != flags[k]:
                out.append({"what": "argument-mutated", "argument": k})
        # results handed back to the caller do not share memory with the caller's arrays: overwrite them, read again
        live = given_all.get("_live")
        if live is not None and not out:
            for k, v in given.items():
                if v.flags.writeable:
                    v[...] = 7.25
            again = live()
            if again.shape != res.shape or not np.array_equal(again, res, equal_nan=True):
                out.append({"what": "result-aliases-caller-array"})
    except Exception as ex:  # pylint: disable=broad-except
        import traceback
        out.append({"what": "harness", "detail": traceback.format_exc()[-500:]})
    return out


# --------------------------------------------------------------------------- (C) reuse

def _float_control():
    import oqupy
    c = oqupy.Control(2)
    c.add_single(0.1, np.kron(SX, SX.conj()))
    c.add_single(0.2, np.kron(SZ, SZ.conj()), post=True)
    return c


def _rank3_pt(q, n=3):
    """hand-built dephasing process tensor with rank-3 tensors (diagonal in the system index)"""
    from oqupy.process_tensor import SimpleProcessTensor
    pt = SimpleProcessTensor(2, dt=0.1)
    for k in range(n):
        pt.set_mpo_tensor(k, np.array([1.0, q, q, 1.0], dtype=complex).reshape(1, 1, 4))
    pt.compute_caps()
    return pt


def shared_objects():
    import oqupy
    corr = mk_corr(1)
    bath = oqupy.Bath(0.5 * SZ, corr)
    params = oqupy.TempoParameters(dt=0.1, epsrel=1e-7, dkmax=2)
    pt = oqupy.PtTempo(bath, 0.0, 0.31, params).get_process_tensor(progress_type="silent")
    ctrl = oqupy.Control(2)
    ctrl.add_single(1, np.kron(SX, SX.conj()))
    from oqupy import bath_dynamics
    sysm = oqupy.System(0.5 * SX + 0.1 * SZ)
    bdyn = bath_dynamics.TwoTimeBathCorrelations(sysm, bath, pt, initial_state=RHO.copy())
    return {"system": sysm, "bath": bath, "params": params, "pt": pt, "ctrl": ctrl, "bdyn": bdyn,
            "params_nomem": oqupy.TempoParameters(dt=0.1, epsrel=1e-7, dkmax=None),
            "mfsys": oqupy.MeanFieldSystem([oqupy.TimeDependentSystemWithField(lambda t, a: 0.5 * SX + (0.2 * np.cos(t) + 0.1 * a.real) * SZ)],
                                           field_eom=lambda t, st, a: -0.5j * a - 0.1j * np.trace(st[0] @ SX) + 0.05 * t),
            "fctrl": _float_control(),
            "pt3": _rank3_pt(0.9),
            "tdsys": oqupy.TimeDependentSystem(lambda t: 0.5 * SX + 0.3 * np.cos(2.0 * t) * SZ),
            "rho": RHO.copy(), "psys": oqupy.ParameterizedSystem(lambda x, y: x * SX + y * SZ),
            "pars": np.array([[0.3, 0.1]] * 6)}


def use(kind, o):
    import oqupy
    if kind == "tempo":
        return np.array(oqupy.Tempo(o["system"], o["bath"], o["params"], o["rho"], 0.0).compute(0.31, progress_type="silent").states)
    if kind == "pttempo":
        pt = oqupy.PtTempo(o["bath"], 0.0, 0.31, o["params"]).get_process_tensor(progress_type="silent")
        return np.array(oqupy.compute_dynamics(o["system"], initial_state=o["rho"], process_tensor=pt, progress_type="silent").states)
    if kind == "pttempo-nomem-short":
        pt = oqupy.PtTempo(o["bath"], 0.0, 0.21, o["params_nomem"]).get_process_tensor(progress_type="silent")
        return np.array(oqupy.compute_dynamics(o["system"], initial_state=o["rho"], process_tensor=pt, progress_type="silent").states)
    if kind == "tempo-nomem-long":
        return np.array(oqupy.Tempo(o["system"], o["bath"], o["params_nomem"], o["rho"], 0.0).compute(0.61, progress_type="silent").states)
    if kind == "dynamics":
        return np.array(oqupy.compute_dynamics(o["system"], initial_state=o["rho"], process_tensor=o["pt"], control=o["ctrl"],
                                               progress_type="silent").states)
    if kind == "correlations":
        _, cc = oqupy.compute_correlations(o["system"], o["pt"], SZ, SX, slice(None), slice(None), initial_state=o["rho"],
                                           progress_type="silent")
        return np.nan_to_num(cc, nan=-7.0)
    if kind == "gradient":
        o["pars"][...] = np.array([[0.3, 0.1]] * 6)          # the caller's table holds these values for this call
        r = oqupy.state_gradient(system=o["psys"], initial_state=o["rho"], target_derivative=np.array([[0.2, 0.1], [0.1, 0.8]], dtype=complex),
                                 process_tensors=[o["pt"]], parameters=o["pars"], progress_type="silent")
        return np.array(r["gradient"])
    if kind in ("ctrl-dt1", "ctrl-dt2"):
        # one Control object with float time stamps, computations on different time grids
        dt_ = 0.1 if kind == "ctrl-dt1" else 0.05
        return np.array(oqupy.compute_dynamics(o["system"], initial_state=o["rho"], dt=dt_, num_steps=6, control=o["fctrl"],
                                               progress_type="silent").states)
    if kind in ("pt3-use", "pt3-rewrite"):
        # a hand-built process tensor: used, then one step overwritten (same rank), caps recomputed, used again
        if kind == "pt3-rewrite":
            o["pt3"].set_mpo_tensor(1, np.array([1.0, 0.5, 0.5, 1.0], dtype=complex).reshape(1, 1, 4))
            o["pt3"].compute_caps()
        st = np.array(oqupy.compute_dynamics(o["system"], initial_state=o["rho"], process_tensor=o["pt3"], progress_type="silent").states)
        return np.concatenate([st.reshape(-1), np.array(o["pt3"].get_mpo_tensor(1)).reshape(-1)])
    if kind in ("mf-dt1", "mf-dt2", "mf-cdwf"):
        # one mean-field system object: MeanFieldTempo with two different time steps, and the process-tensor route
        if kind == "mf-cdwf":
            r = oqupy.compute_dynamics_with_field(o["mfsys"], 0.2 + 0.1j, process_tensor_list=[o["pt"]], initial_state_list=[o["rho"]],
                                                  start_time=0.0, progress_type="silent")
        else:
            p_ = oqupy.TempoParameters(dt=0.1 if kind == "mf-dt1" else 0.05, epsrel=1e-7, dkmax=2)
            r = oqupy.MeanFieldTempo(o["mfsys"], [o["bath"]], p_, [o["rho"]], 0.2 + 0.1j, 0.0).compute(0.21, progress_type="silent")
        return np.concatenate([np.array(r.system_dynamics[0].states).reshape(-1), np.array(r.fields).reshape(-1)])
    if kind == "gibbs":
        g = oqupy.GibbsTempo(oqupy.System(0.3 * SZ), o["bath"], oqupy.GibbsParameters(n_steps=4, epsrel=1e-9))
        g.compute(progress_type="silent")
        return np.array(g.get_state())
    if kind in ("td-start0", "td-start1"):
        # one time-dependent system object, computations starting at different times
        return np.array(oqupy.compute_dynamics(o["tdsys"], initial_state=o["rho"], dt=0.1, num_steps=3,
                                               start_time=0.0 if kind == "td-start0" else 0.45, progress_type="silent").states)
    if kind == "gradient-inplace":
        # the caller updates its own parameter table in place (a gradient-descent step) and asks again
        o["pars"][...] = np.array([[0.1, 0.4], [0.2, 0.3], [0.3, 0.2], [0.4, 0.1], [0.5, 0.0], [0.6, -0.1]])
        r = oqupy.state_gradient(system=o["psys"], initial_state=o["rho"], target_derivative=np.array([[0.2, 0.1], [0.1, 0.8]], dtype=complex),
                                 process_tensors=[o["pt"]], parameters=o["pars"], progress_type="silent")
        return np.concatenate([np.array(r["gradient"]).reshape(-1), np.array(r["final_state"]).reshape(-1)])
    if kind == "bathcorr-early":
        return np.array([o["bdyn"].correlation(1.3, 0.1, time_2=0.2, progress_type="silent")])
    if kind == "bathcorr-late":
        return np.array([o["bdyn"].correlation(1.3, 0.2, time_2=0.3, progress_type="silent")])
    if kind == "bathocc":
        return np.array(o["bdyn"].occupation(1.3, progress_type="silent")[1])
    if kind == "tebd":
        chain = oqupy.SystemChain([2, 2])
        chain.add_site_hamiltonian(0, 0.3 * SX)
        chain.add_nn_hamiltonian(0, SZ, SZ)
        t = oqupy.PtTebd(oqupy.AugmentedMPS([o["rho"], o["rho"]]), chain, [o["pt"], None],
                         oqupy.PtTebdParameters(dt=0.1, order=2, epsrel=1e-10), dynamics_sites=[0])
        return np.array(t.compute(3, progress_type="silent")["dynamics"][0].states)
    raise ValueError(kind)


def _freeze(v, depth=0):
    """hashable, comparable image of a public attribute value (None = not comparable)"""
    if isinstance(v, np.ndarray):
        return ("nd", v.shape, str(v.dtype), v.tobytes())
    if isinstance(v, (bool, int, float, complex, str, type(None), np.number)):
        return ("v", repr(v))
    if isinstance(v, (list, tuple)) and depth < 3:
        return ("seq", tuple(_freeze(x, depth + 1) for x in v))
    if isinstance(v, dict) and depth < 3:
        return ("map", tuple(sorted((repr(k), _freeze(x, depth + 1)) for k, x in v.items())))
    return None


def public_state(obj):
    """values of the public (property / plain) attributes of a caller-supplied object"""
    out = {}
    names = [n for n in dir(type(obj)) if not n.startswith("_") and isinstance(getattr(type(obj), n, None), property)]
    names += [n for n in getattr(obj, "__dict__", {}) if not n.startswith("_")]    # private caches are not parameters
    for n in sorted(set(names)):
        try:
            v = getattr(obj, n)
        except Exception:  # pylint: disable=broad-except
            continue
        f = _freeze(v)
        if f is not None:
            out[n] = f
    return out


PARAM_OBJECTS = ("system", "bath", "params", "params_nomem", "ctrl", "psys")


def reuse_job(case):
    out = []
    try:
        o = shared_objects()
        snap = {k: np.array(v, copy=True) for k, v in o.items() if isinstance(v, np.ndarray)}
        psnap = {k: public_state(o[k]) for k in PARAM_OBJECTS}
        psnap["correlations"] = public_state(o["bath"].correlations)
        for idx, h in enumerate(case["hist"]):
            fo = shared_objects()
            if h["arg"] == "pt3-use" and any(x["arg"] == "pt3-rewrite" for x in case["hist"][:idx]):
                use("pt3-rewrite", fo)            # equal objects: the fresh tensor holds the rewritten content too
            fresh = use(h["arg"], fo)
            got = use(h["arg"], o)
            # PT-TEMPO results are reproducible only up to the SVD gauge: compare at 1e-9
            if h["arg"] in ("gradient", "gradient-inplace"):
                snap["pars"] = np.array(o["pars"], copy=True)          # the caller's own update
            if got.shape != fresh.shape or np.max(np.abs(got - fresh)) > 1e-9:
                out.append({"what": "reuse-differs-from-fresh", "call": idx, "kind": h["arg"]})
                break
        for k, v in snap.items():
            if not np.array_equal(o[k], v):
                out.append({"what": "shared-array-mutated", "which": k})
        after = {k: public_state(o[k]) for k in PARAM_OBJECTS}
        after["correlations"] = public_state(o["bath"].correlations)
        for k, v in psnap.items():
            changed = sorted(n for n in set(v) | set(after[k]) if v.get(n) != after[k].get(n))
            if changed:
                out.append({"what": "parameter-object-modified", "which": k, "attributes": changed[:5]})
    except Exception as ex:  # pylint: disable=broad-except
        import traceback
        out.append({"what": "exception", "detail": "%s: %s" % (type(ex).__name__, str(ex)[:150]), "tb": traceback.format_exc()[-300:]})
    return out


def near_job(kind):
    """Results depend on the values of the inputs, however close they are to inputs used before: after a
    computation with value v, the computation with v + delta (delta tiny, fresh objects) must respond linearly,
    (f(v + delta) - f(v)) = (delta / Delta) (f(v + Delta) - f(v)) for a larger Delta - a memo or an equality test
    with a tolerance that conflates v + delta with v returns f(v) again."""
    import oqupy
    sy = np.array([[0, -1j], [1j, 0]])
    lop = np.array([[0, 1], [0, 0]], dtype=complex)
    sd_w = None

    def f(x):
        h = 0.4 * SX + 0.3 * SZ + 0.2 * sy
        gam, cpl, alpha, rho = 0.1, 0.5 * SZ + 0.2 * SX, 0.05, RHO.copy()
        if kind == "hamiltonian":
            h = h + x * SX
        elif kind == "rate":
            gam = gam + x
        elif kind == "lindblad-operator":
            pass
        elif kind == "coupling":
            cpl = cpl + x * SZ
        elif kind == "alpha":
            alpha = alpha + x
        elif kind == "initial-state":
            rho = rho + x * SZ
        lo = lop + (x * SZ if kind == "lindblad-operator" else 0)
        system = oqupy.System(h, gammas=[gam], lindblad_operators=[lo])
        corr = oqupy.PowerLawSD(alpha=alpha, zeta=1.0, cutoff=2.0, cutoff_type="exponential", temperature=0.5)
        bath = oqupy.Bath(cpl, corr)
        params = oqupy.TempoParameters(dt=0.1, epsrel=1e-13, dkmax=3)
        a = oqupy.Tempo(system, bath, params, rho, 0.0).compute(0.31, progress_type="silent")
        b = oqupy.compute_dynamics(system, initial_state=rho, dt=0.1, num_steps=3, progress_type="silent")
        return np.concatenate([np.array(a.states).reshape(-1), np.array(b.states).reshape(-1)])
    out = []
    try:
        small, big = 1e-7, 1e-3
        f0 = f(0.0)
        f1 = f(small)
        f2 = f(big)
        lin = (small / big) * (f2 - f0)
        scale = float(np.max(np.abs(lin)))
        err = float(np.max(np.abs((f1 - f0) - lin)))
        if scale < 1e-11:
            return [{"what": "harness", "detail": "no response to %s" % kind}]
        # the bath's double integrals are quadratures with their own relative tolerance: wider margin for alpha
        if err > (0.25 if kind == "alpha" else 0.05) * scale + 1e-12:
            out.append({"what": "nearly-equal-input-conflated", "input": kind, "response": float(np.max(np.abs(f1 - f0))),
                        "expected_response": scale})
    except Exception as ex:  # pylint: disable=broad-except
        import traceback
        out.append({"what": "exception", "detail": "%s: %s" % (type(ex).__name__, str(ex)[:150]), "tb": traceback.format_exc()[-300:]})
    return out


NEAR_KINDS = ["hamiltonian", "rate", "lindblad-operator", "coupling", "alpha", "initial-state"]


# ---------------------------------------------------------------- (E) caller-owned arrays: objects keep the contents
SNAP_CFG = """
INIT Init
NEXT Next
INVARIANT SnapshotSemantics
PROPERTY NoMutation
INVARIANT EmitCase
"""


def snapshot_kinds():
    """kind -> (content(v) -> array, build(array) -> object, compute(object) -> result array)"""
    import oqupy
    from oqupy import bath_dynamics
    from oqupy.process_tensor import SimpleProcessTensor
    sx, sy, sz = oqupy.operators.sigma("x"), oqupy.operators.sigma("y"), oqupy.operators.sigma("z")
    corr = oqupy.PowerLawSD(alpha=0.1, zeta=1.0, cutoff=2.0, cutoff_type="exponential", temperature=0.0)
    params = oqupy.TempoParameters(dt=0.1, epsrel=1e-7, dkmax=2)
    h0 = (0.5 * sx + 0.2 * sz).astype(complex)

    def rho(v):
        p = 0.2 * v
        return np.array([[1 - p, 0.1 * v - 0.05j], [0.1 * v + 0.05j, p]], dtype=complex)

    def herm(v):
        return (0.3 * v * sx + 0.2 * sz + 0.1 * v * sy).astype(complex)

    def chan(v):
        from scipy.linalg import expm
        u = expm(-0.3j * v * (sx + 0.5 * sy))
        return np.kron(u, u.conj()).astype(complex)

    def deph(v):
        t = np.diag([1.0, 1.0 - 0.2 * v, 1.0 - 0.2 * v, 1.0]).astype(complex)
        return t.reshape(1, 1, 4, 4)

    def free(system, r=None):
        return np.array(oqupy.compute_dynamics(system, initial_state=rho(1) if r is None else r, dt=0.1, num_steps=2,
                                               progress_type="silent").states)

    def chain_run(chain=None, mps=None, ctrl=None):
        if chain is None:
            chain = oqupy.SystemChain([2, 2])
            chain.add_site_hamiltonian(0, h0)
            chain.add_nn_hamiltonian(0, sz, sz)
        if mps is None:
            mps = oqupy.AugmentedMPS([rho(1), rho(2)])
        t = oqupy.PtTebd(mps, chain, [None, None], oqupy.PtTebdParameters(dt=0.1, epsrel=1e-10), dynamics_sites=[0, 1],
                         chain_control=ctrl)
        r = t.compute(2, progress_type="silent")
        return np.array(r["dynamics"][0].states + r["dynamics"][1].states)

    def trivial_pt():
        pt = SimpleProcessTensor(2, dt=0.1)
        for k in range(3):
            pt.set_mpo_tensor(k, np.eye(4).reshape(1, 1, 4, 4))
        pt.compute_caps()
        return pt

    def mf(r):
        fs = oqupy.TimeDependentSystemWithField(lambda t, a: h0 + 0.1 * a.real * sz)
        mfs = oqupy.MeanFieldSystem([fs], field_eom=lambda t, st, a: -0.5j * a - 0.1j * np.trace(st[0] @ sx))
        return oqupy.MeanFieldTempo(mfs, [oqupy.Bath(0.5 * sz, corr)], params, [r], 0.2 + 0j, 0.0)

    def ctl(op):
        c = oqupy.Control(2)
        c.add_single(1, op)
        c.add_single(0.2, op, post=True)
        return c

    def chainctl(op):
        c = oqupy.ChainControl([2, 2])
        c.add_single_site_control(op, 0, 1, post=False)
        return c

    def chain_of(h):
        ch = oqupy.SystemChain([2, 2])
        ch.add_site_hamiltonian(0, h)
        ch.add_nn_hamiltonian(0, h, sz)
        ch.add_site_dissipation(1, h, 0.3)
        ch.add_nn_dissipation(0, sz, h, 0.2)
        return ch

    def spt(t):
        pt = SimpleProcessTensor(2, dt=0.1)
        for k in range(2):
            pt.set_mpo_tensor(k, t)
        pt.compute_caps()
        return pt

    import functools

    @functools.lru_cache(maxsize=None)
    def lop_list(v):
        return [herm(v), sz.astype(complex)]

    @functools.lru_cache(maxsize=None)
    def gam_list(v):
        return [lambda t, v=v: 0.2 * v]

    @functools.lru_cache(maxsize=None)
    def sys_list(v):
        return [oqupy.TimeDependentSystemWithField(lambda t, a, v=v: h0 + 0.3 * v * sz)]

    def mf_free(mfs):
        return np.array(oqupy.compute_dynamics_with_field(mfs, 0.2 + 0j, initial_state_list=[rho(1)], dt=0.1, num_steps=2,
                                                          progress_type="silent").system_dynamics[0].states)

    def dyn(r):
        d = oqupy.Dynamics(times=[0.0], states=[r])
        d.add(0.1, r)
        return d

    return {
        "Tempo(initial_state)": (rho, lambda r: oqupy.Tempo(oqupy.System(h0), oqupy.Bath(0.5 * sz, corr), params, r, 0.0),
                                 lambda t: np.array(t.compute(0.2, progress_type="silent").states)),
        "MeanFieldTempo(initial_state_list)": (rho, mf, lambda t: np.array(t.compute(0.2, progress_type="silent").system_dynamics[0].states)),
        "TwoTimeBathCorrelations(initial_state)": (rho, lambda r: bath_dynamics.TwoTimeBathCorrelations(
            oqupy.System(h0), oqupy.Bath(0.5 * sz, corr), trivial_pt(), initial_state=r),
            lambda b: np.array(b.occupation(1.3, progress_type="silent")[1])),
        "Control.add_single": (chan, ctl, lambda c: np.array(oqupy.compute_dynamics(
            oqupy.System(h0), initial_state=rho(1), dt=0.1, num_steps=3, control=c, progress_type="silent").states)),
        "ChainControl.add_single_site_control": (chan, chainctl, lambda c: chain_run(ctrl=c)),
        "System(hamiltonian)": (herm, oqupy.System, free),
        "System(lindblad_operators)": (herm, lambda l: oqupy.System(h0, gammas=[0.4], lindblad_operators=[l]), free),
        "Bath(coupling_operator)": (herm, lambda o: oqupy.Bath(o, corr), lambda b: np.array(
            oqupy.Tempo(oqupy.System(h0), b, params, rho(1), 0.0).compute(0.2, progress_type="silent").states)),
        "SystemChain.add_*": (herm, chain_of, lambda ch: chain_run(chain=ch)),
        "AugmentedMPS(gammas)": (rho, lambda r: oqupy.AugmentedMPS([r, rho(2)]), lambda m: chain_run(mps=m)),
        "SimpleProcessTensor.set_mpo_tensor": (deph, spt, lambda pt: np.array(oqupy.compute_dynamics(
            oqupy.System(h0), initial_state=rho(1), process_tensor=pt, progress_type="silent").states)),
        "Dynamics(states)": (rho, dyn, lambda d: np.array(d.states)),
        # list arguments: the caller keeps the list and replaces its elements (one list re-used across a sweep)
        "System(gammas: list)": (lambda v: [0.2 * v, 0.1], lambda g: oqupy.System(h0, gammas=g, lindblad_operators=[sx - 1j * sy, sz]), free),
        "System(lindblad_operators: list)": (lop_list, lambda l: oqupy.System(h0, gammas=[0.4, 0.1], lindblad_operators=l), free),
        "TimeDependentSystem(gammas: list)": (gam_list, lambda g: oqupy.TimeDependentSystem(
            lambda t: h0, gammas=g, lindblad_operators=[lambda t: sx - 1j * sy]), free),
        "MeanFieldSystem(system_list)": (sys_list, lambda l: oqupy.MeanFieldSystem(l, field_eom=lambda t, st, a: -0.5j * a), mf_free),
    }


def snapshot_job(job):
    case, kind = job
    out = []
    try:
        content, build, compute = snapshot_kinds()[kind]
        versions = sorted({h["arg"] for h in case["hist"] if h["op"] == "write"} | {1})
        table = {v: compute(build(content(v).copy())) for v in versions}
        for a in versions:
            for b in versions:
                if a < b and np.allclose(table[a], table[b], atol=1e-6):
                    return [{"what": "harness", "detail": "%s: versions %d and %d give the same result" % (kind, a, b)}]
        buf = content(1).copy()
        cur = 1

        def same(x, y):
            if isinstance(x, list):
                return len(x) == len(y) and all(a is b or (isinstance(a, np.ndarray) and np.array_equal(a, b)) or
                                                (isinstance(a, float) and a == b) for a, b in zip(x, y))
            return np.array_equal(x, y)
        objs = []
        for i, h in enumerate(case["hist"]):
            if h["op"] == "write":
                if isinstance(buf, list):
                    buf[:] = content(h["arg"])
                else:
                    buf[...] = content(h["arg"])
                cur = h["arg"]
                continue
            if h["op"] == "build":
                objs.append(build(buf))
            else:
                got = compute(objs[h["arg"] - 1])
                refl = [v for v in versions if got.shape == table[v].shape and np.allclose(got, table[v], atol=1e-9)]
                if refl != [h["obs"]]:
                    out.append({"what": "object-reflects-later-contents-of-the-callers-array" if refl == [cur] else
                                "object-reflects-wrong-contents", "operation": i, "expected_version": h["obs"],
                                "observed_versions": refl})
                    break
            if not same(buf, content(cur)):
                out.append({"what": "callers-array-modified", "operation": i, "op": h["op"]})
                break
    except Exception as ex:  # pylint: disable=broad-except
        import traceback
        out.append({"what": "exception", "detail": "%s: %s" % (type(ex).__name__, str(ex)[:150]), "tb": traceback.format_exc()[-400:]})
    return out


def attribute_job(attr):
    """An object whose public parameter is changed answers with its current value in all of its methods: a PowerLawSD after
    `c.<attr> = new` must equal a fresh PowerLawSD(<attr>=new) in spectral_density, correlation and in 2D integrals at
    arguments never used before."""
    import oqupy
    base = {"alpha": 0.1, "zeta": 1.0, "cutoff": 3.0, "temperature": 0.5}
    new = {"alpha": 0.25, "zeta": 3.0, "cutoff": 1.5, "temperature": 1.7}[attr]
    out = []
    for ctype in ("exponential", "gaussian", "hard"):
        c = oqupy.PowerLawSD(cutoff_type=ctype, **base)
        setattr(c, attr, new)
        fresh = oqupy.PowerLawSD(cutoff_type=ctype, **dict(base, **{attr: new}))
        probes_ = {"spectral_density": lambda o: o.spectral_density(1.1),
                   "correlation": lambda o: o.correlation(0.37),
                   "correlation_2d_integral(square)": lambda o: o.correlation_2d_integral(0.11, 0.33, shape="square"),
                   "correlation_2d_integral(upper-triangle)": lambda o: o.correlation_2d_integral(0.13, 0.0, shape="upper-triangle")}
        for name, f in probes_.items():
            a, b = f(c), f(fresh)
            if abs(a - b) > 1e-9 * max(1.0, abs(b)):
                out.append({"what": "updated-object-differs-from-fresh-object", "attribute": attr, "cutoff_type": ctype,
                            "method": name, "updated": str(a), "fresh": str(b)})
    return out


# ---------------------------------------------------------------- (F) arrays handed out by the library; parameter objects
def returned_job(which):
    """Whatever the caller does with an array that a library object handed out (or with a parameter object after something was
    built from it), later computations with the library's objects give what they gave before - the array is a copy or
    read-only, the parameter object was copied."""
    import oqupy
    sx, sz = oqupy.operators.sigma("x"), oqupy.operators.sigma("z")
    rho = np.array([[0.7, 0.2 - 0.1j], [0.2 + 0.1j, 0.3]], dtype=complex)
    corr = oqupy.PowerLawSD(alpha=0.1, zeta=1.0, cutoff=2.0, cutoff_type="exponential", temperature=0.0)
    out = []

    def scribble(x):
        """try to overwrite in place; True if the library's array could be written"""
        try:
            if isinstance(x, np.ndarray):
                x[...] = 7.0
                return True
            if isinstance(x, list):
                return any(scribble(y) for y in x)
        except (ValueError, TypeError):
            return False
        return False

    try:
        if which.startswith("System."):
            attr = which.split(".")[1]
            s_ = oqupy.System(0.5 * sx + 0.2 * sz, gammas=[0.3], lindblad_operators=[sx - 1j * oqupy.operators.sigma("y")])
            run = lambda: np.array(oqupy.compute_dynamics(s_, initial_state=rho, dt=0.1, num_steps=3, progress_type="silent").states)
            before = run()
            x = getattr(s_, attr)
            scribble(x() if callable(x) else x)
            after = run()
        elif which.startswith("Bath."):
            attr = which.split(".")[1]
            b_ = oqupy.Bath(0.5 * sz + 0.2 * sx, corr)
            par = oqupy.TempoParameters(dt=0.1, epsrel=1e-7, dkmax=2)
            run = lambda: np.array(oqupy.Tempo(oqupy.System(0.5 * sx), b_, par, rho, 0.0).compute(0.21, progress_type="silent").states)
            before = run()
            scribble(getattr(b_, attr))
            after = run()
        elif which == "SimpleProcessTensor.get_mpo_tensor":
            from oqupy.process_tensor import SimpleProcessTensor
            pt = SimpleProcessTensor(2, dt=0.1)
            for k in range(3):
                pt.set_mpo_tensor(k, np.diag([1.0, 0.8, 0.8, 1.0]).reshape(1, 1, 4, 4))
            pt.compute_caps()
            run = lambda: np.array(oqupy.compute_dynamics(oqupy.System(0.5 * sx), initial_state=rho, process_tensor=pt,
                                                          progress_type="silent").states)
            before = run()
            scribble(pt.get_mpo_tensor(1))
            scribble(pt.get_mpo_tensor(1, transformed=False))
            scribble(pt.get_cap_tensor(1))
            after = run()
        elif which.startswith("operators."):
            # the operator factories: whatever the caller does with a matrix he got (a *= g, a[0, 1] = ...), the next request
            # for the same operator gives the operator
            from oqupy import operators as ops_
            name = which.split(".")[1]
            calls = {"identity": [(ops_.identity, 3)], "sigma": [(ops_.sigma, k) for k in ("id", "x", "y", "z", "+", "-")],
                     "spin_dm": [(ops_.spin_dm, k) for k in ("up", "down", "x+", "x-", "y+", "y-", "mixed")],
                     "create": [(ops_.create, 3), (ops_.destroy, 3)], "destroy": [(ops_.destroy, 4), (ops_.create, 4)]}[name]
            before = np.concatenate([np.array(f(a_), dtype=complex).reshape(-1) for f, a_ in calls])
            for f, a_ in calls:
                m_ = f(a_)
                try:
                    m_ *= 3.0
                    m_[0, -1] = 7.0
                except (ValueError, TypeError):
                    pass
            after = np.concatenate([np.array(f(a_), dtype=complex).reshape(-1) for f, a_ in calls])
        elif which == "GibbsTempo.get_state":
            g = oqupy.GibbsTempo(oqupy.System(0.4 * sx + 0.2 * sz), oqupy.Bath(np.diag([0.5, -0.5]), oqupy.PowerLawSD(
                alpha=0.1, zeta=1.0, cutoff=2.0, cutoff_type="exponential", temperature=0.7)), oqupy.GibbsParameters(4, 1e-9))
            g.compute(progress_type="silent")
            before = np.array(g.get_state())
            scribble(g.get_state())
            g.compute(progress_type="silent")
            after = np.array(g.get_state())
        elif which == "Dynamics.states":
            d_ = oqupy.compute_dynamics(oqupy.System(0.5 * sx), initial_state=rho, dt=0.1, num_steps=3, progress_type="silent")
            before = np.array(d_.states)
            scribble(d_.states)
            scribble(d_.times)
            after = np.array(d_.states)
        elif which == "PtTebd(parameters)":
            chain = oqupy.SystemChain([2, 2])
            chain.add_site_hamiltonian(0, 0.5 * sx)
            chain.add_nn_hamiltonian(0, sz, sz)

            def leg(change):
                par = oqupy.PtTebdParameters(dt=0.1, epsrel=1e-9)
                t = oqupy.PtTebd(oqupy.AugmentedMPS([rho, rho]), chain, [None, None], par, dynamics_sites=[0])
                t.compute(2, progress_type="silent")
                if change:
                    par.dt = 0.5
                    par.epsrel = 1e-2
                r = t.compute(4, progress_type="silent")
                return np.concatenate([np.array(r["time"], dtype=complex), np.array(r["dynamics"][0].states).reshape(-1)])
            before, after = leg(False), leg(True)
        elif which == "Tempo(parameters)":
            def leg(change):
                cc = oqupy.PowerLawSD(alpha=0.1, zeta=1.0, cutoff=2.0, cutoff_type="exponential", temperature=0.0)
                t = oqupy.Tempo(oqupy.System(0.5 * sx), oqupy.Bath(0.5 * sz, cc), oqupy.TempoParameters(dt=0.1, epsrel=1e-7, dkmax=2),
                                rho, 0.0)
                t.compute(0.21, progress_type="silent")
                if change:
                    try:
                        t._parameters.__class__.dt.fset(t._parameters, 0.5)      # TempoParameters is read-only: nothing to set
                    except (AttributeError, TypeError):
                        pass
                r = t.compute(0.41, progress_type="silent")
                return np.concatenate([np.array(r.times, dtype=complex), np.array(r.states).reshape(-1)])
            before, after = leg(False), leg(True)
        else:
            raise ValueError(which)
        if before.shape != after.shape or np.max(np.abs(before - after)) > 1e-12:
            out.append({"what": "library-state-changed-through-what-it-handed-out", "which": which,
                        "err": float(np.max(np.abs(before - after))) if before.shape == after.shape else "shape"})
    except Exception as ex:  # pylint: disable=broad-except
        import traceback
        out.append({"what": "exception", "which": which, "detail": "%s: %s" % (type(ex).__name__, str(ex)[:150]), "tb": traceback.format_exc()[-300:]})
    return out


RETURNED = ["System.liouvillian", "System.hamiltonian", "System.gammas", "System.lindblad_operators", "Bath.coupling_operator",
            "Bath.unitary_transform", "Bath.north_degeneracy_map", "Bath.west_degeneracy_map",
            "Dynamics.states", "GibbsTempo.get_state", "PtTebd(parameters)", "Tempo(parameters)",
            "operators.identity", "operators.sigma", "operators.spin_dm", "operators.create", "operators.destroy"]
# not in the list: SimpleProcessTensor.get_mpo_tensor / get_cap_tensor hand out the stored arrays themselves.  A process tensor
# is a mutable container (set_mpo_tensor), writing through the getter's array is another way of changing its content; C20 does
# not forbid it (recorded in DESIGN.md 12.7 as an observation).


def hkey(c):
    return tuple((h["op"], h["arg"]) for h in c["hist"])


def run(ctx):
    quick = ctx.tier == "quick"
    allops = '{"set", "setb", "corr", "eta", "bath", "battr", "bcorr", "compute"}'
    consts = {"Versions": "1..2", "Args": "1..2", "MaxOps": "4" if quick else "5", "UseKinds": '{"tempo"}', "Emit": "TRUE",
              "Ops": allops}
    strict = ctx.tlc("ObjectGraph", CFG, label="strict: Freshness and Isolation over all histories", workers=4,
                     constants=dict(consts, Devs="{}"))
    for dev in ("StaleEtaCache", "CopyClosure", "HandsOutOwn", "SharedMemo"):
        r = ctx.tlc("ObjectGraph", CFG, label="deviation %s (must violate)" % dev, workers=4, must_hold=False,
                    constants=dict(consts, Devs='{"%s"}' % dev, Emit="FALSE"))
        if r.ok:
            raise core.MachineryError("deviation %s not distinguished" % dev)
    devrun = ctx.tlc("ObjectGraph", CFG_NOPROP, label="deviated expectations (both known findings)", workers=4,
                     constants=dict(consts, Devs='{"StaleEtaCache", "CopyClosure"}'))
    devobs = {hkey(c): [h["obs"] for h in c["hist"]] for c in devrun.cases}
    cases = strict.cases
    if not quick:
        cases = [c for i, c in enumerate(cases) if i % 2 == 0]
    # long parameter sweeps: the correlations object is changed and a new bath built and used, again and again
    sweepc = dict(consts, Ops='{"set", "bath", "compute", "battr"}', MaxOps="6" if quick else "7")
    sweeps = ctx.tlc("ObjectGraph", CFG, label="strict: parameter sweeps (set / bath / compute)", workers=4,
                     constants=dict(sweepc, Devs="{}"))
    sdev = ctx.tlc("ObjectGraph", CFG_NOPROP, label="deviated expectations on sweeps", workers=4,
                   constants=dict(sweepc, Devs='{"StaleEtaCache", "CopyClosure"}'))
    devobs.update({hkey(c): [h["obs"] for h in c["hist"]] for c in sdev.cases})
    cases = cases + [c for c in sweeps.cases if sum(1 for h in c["hist"] if h["op"] == "bath") >= 2]
    res = core.pmap(history_job, cases, chunksize=8)
    for c, r in zip(cases, res):
        cid = {"history": [[h["op"], h["arg"]] for h in c["hist"]]}
        ctx.case(cid, nontrivial=any(h["op"] in ("set", "setb") for h in c["hist"]))
        if r["observed"] is None:
            ctx.violation("C20:history:exception", "%s: %s" % (cid, r["error"]), {"history": c})
            continue
        want = [h["obs"] for h in c["hist"]]
        dev = devobs.get(hkey(c))
        for i, (h, w, g) in enumerate(zip(c["hist"], want, r["observed"])):
            if g == w:
                continue
            if dev is not None and g == dev[i]:
                key = "C20:eta:stale-memo-after-parameter-update" if h["op"] == "eta" else \
                      "C20:bath:copy-computes-with-the-original-objects-parameters"
            else:
                key = "C20:history:%s-reflects-wrong-parameters" % h["op"]
            ctx.violation(key, "%s: operation %d (%s) reflects parameter version %s, specification demands %s" % (
                cid, i, h["op"], g, w), {"history": c})
    # (B) layouts and mutation
    names = sorted(api_calls().keys()) if False else ["Tempo", "compute_dynamics", "compute_correlations", "state_gradient",
                                                      "PtTebd", "MeanFieldTempo", "SimpleProcessTensor", "TwoTimeBathCorrelations"]
    ljobs = [(n, lay) for n in names for lay in ("C", "F", "strided", "readonly")]
    for (n, lay), mm in zip(ljobs, core.pmap(layout_job, ljobs)):
        ctx.case({"api": n, "layout": lay}, nontrivial=True)
        for x in mm:
            if x["what"] == "harness":
                raise core.MachineryError(x["detail"])
            ctx.violation("C20:%s:%s" % (n, x["what"]), "api=%s layout=%s: %s" % (n, lay, x), {"layout": [n, lay]})
    # (B') inputs nearly equal to inputs used before
    for kind, mm in zip(NEAR_KINDS, core.pmap(near_job, NEAR_KINDS)):
        ctx.case({"nearly_equal_input": kind}, nontrivial=True)
        for x in mm:
            if x["what"] == "harness":
                raise core.MachineryError(x["detail"])
            ctx.violation("C20:near:%s" % x["what"], "%s: %s" % (kind, x), {"near": kind})
    # (D) public attributes of a correlations object, one by one
    for attr, mm in zip(("alpha", "zeta", "cutoff", "temperature"), core.pmap(attribute_job, ["alpha", "zeta", "cutoff", "temperature"])):
        ctx.case({"attribute_update": attr}, nontrivial=True)
        for x in mm:
            ctx.violation("C20:attribute:%s" % x["what"], "%s" % x, {"attribute": attr})
    # (E) caller-owned arrays (Snapshot.tla)
    sconsts = {"Versions": "1..3", "MaxOps": "4" if quick else "5", "Emit": "TRUE"}
    sdev = ctx.tlc("Snapshot", SNAP_CFG, label="deviation Alias (must violate)", workers=2, must_hold=False,
                   constants=dict(sconsts, Devs='{"Alias"}', Emit="FALSE"))
    if sdev.ok:
        raise core.MachineryError("Snapshot deviation Alias not distinguished")
    snap = ctx.tlc("Snapshot", SNAP_CFG, label="histories of write / build / compute", workers=2, constants=dict(sconsts, Devs="{}"))
    scases = [c for c in snap.cases if any(h["op"] == "compute" for h in c["hist"])]
    skinds = ["Tempo(initial_state)", "MeanFieldTempo(initial_state_list)", "TwoTimeBathCorrelations(initial_state)",
              "Control.add_single", "ChainControl.add_single_site_control", "System(hamiltonian)", "System(lindblad_operators)",
              "Bath(coupling_operator)", "SystemChain.add_*", "AugmentedMPS(gammas)", "SimpleProcessTensor.set_mpo_tensor",
              "Dynamics(states)", "System(gammas: list)", "System(lindblad_operators: list)", "TimeDependentSystem(gammas: list)",
              "MeanFieldSystem(system_list)"]
    sjobs = [(c, k) for ki, k in enumerate(skinds) for ci, c in enumerate(scases) if not quick or (ci + ki) % 3 == 0]
    for (c, k), mm in zip(sjobs, core.pmap(snapshot_job, sjobs, chunksize=4)):
        hd = [[h["op"], h["arg"]] for h in c["hist"]]
        ctx.case({"snapshot": k, "history": hd},
                 nontrivial=any(h["op"] == "write" for h in c["hist"]))
        for x in mm:
            if x["what"] == "harness":
                raise core.MachineryError(x["detail"])
            ctx.violation("C20:snapshot:%s:%s" % (k, x["what"]), "%s %s: %s" % (k, hd, x), {"snapshot": [c, k]})
    # (F) arrays handed out by library objects and parameter objects changed after use
    for which, mm in zip(RETURNED, core.pmap(returned_job, RETURNED)):
        ctx.case({"handed_out": which}, nontrivial=True)
        for x in mm:
            ctx.violation("C20:handed-out:%s:%s" % (which, x["what"]), str(x), {"returned": which})
    # (C) reuse of shared objects
    kinds = '{"tempo", "pttempo", "dynamics", "correlations", "gradient", "gradient-inplace", "td-start0", "td-start1", "mf-dt1", "mf-dt2", "mf-cdwf", "gibbs", "ctrl-dt1", "ctrl-dt2", "pt3-use", "pt3-rewrite", "tebd", "bathcorr-early", "bathcorr-late", "bathocc", "pttempo-nomem-short", "tempo-nomem-long"}'
    ru = ctx.tlc("ObjectGraph", CFG_USE, label="sequences of computations re-using shared objects", workers=2,
                 constants=dict(consts, Devs="{}", MaxOps="2" if quick else "3", UseKinds=kinds))
    for c, mm in zip(ru.cases, core.pmap(reuse_job, ru.cases)):
        ctx.case({"reuse": [h["arg"] for h in c["hist"]]}, nontrivial=len({h["arg"] for h in c["hist"]}) > 1)
        for x in mm:
            ctx.violation("C20:reuse:%s" % x["what"], "%s: %s" % ([h["arg"] for h in c["hist"]], x), {"reuse": c})
    ctx.rule = ("(A) every history of ObjectGraph.tla (set / correlation / 2D integral with 2 argument tuples / build bath / "
                "bath attribute / bath correlation / computation) of exactly MaxOps operations; (B) 8 APIs x {C, Fortran, strided, "
                "read-only} arrays (results re-read after the caller's arrays were overwritten); (C) every sequence of computations from the spec re-using shared objects; non-trivial (A) = "
                "contains a parameter update")
    ctx.exhaustive = quick is True
    ctx.assumptions += ["answers are mapped to parameter versions through a table computed from freshly built objects (relative 1e-9)"]


def replay(ctx, rep):
    core._init_worker()
    c = rep["case"]
    ctx.case({"replay": True})
    if "layout" in c:
        for x in layout_job(tuple(c["layout"])):
            ctx.violation("C20:replay:" + x["what"], str(x), c)
    elif "near" in c:
        for x in near_job(c["near"]):
            ctx.violation("C20:replay:" + x["what"], str(x), c)
    elif "reuse" in c:
        for x in reuse_job(c["reuse"]):
            ctx.violation("C20:replay:" + x["what"], str(x), c)
    elif "returned" in c:
        for x in returned_job(c["returned"]):
            ctx.violation("C20:replay:" + x["what"], str(x), c)
    elif "snapshot" in c:
        for x in snapshot_job(tuple(c["snapshot"])):
            ctx.violation("C20:replay:" + x["what"], str(x), c)
    elif "attribute" in c:
        for x in attribute_job(c["attribute"]):
            ctx.violation("C20:replay:" + x["what"], str(x), c)
    else:
        r = history_job(c["history"])
        want = [h["obs"] for h in c["history"]["hist"]]
        if r["observed"] != want:
            ctx.violation("C20:replay:history", "observed %s, demanded %s" % (r["observed"], want), c)
