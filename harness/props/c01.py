"""C01 - TEMPO and PT-TEMPO reproduce exactly solvable (commuting) models; the
memory settings have exactly their documented meaning.

Spec: specs/Influence.tla (row algorithm = TEMPO backend, column algorithm =
PT-TEMPO backend, DocCover = documented meaning).  TLC checks on every state that
both algorithm models produce exactly the documented influence set, and emits for
every configuration the expected integer coefficient vectors; the real code is run
with the exact probe bath and a Hamiltonian commuting with the coupling operator,
and every matrix element at every step is compared (tolerance 1e-9).
"""
from harness import core, influence_engine as eng

LEVEL = "model_checking"


def variants(case, tier, idx):
    vs = [{"memory": "dkmax", "start": 0.0}]
    if case["K"] != eng.KNONE and idx % 3 == 0:
        vs.append({"memory": "tcut", "start": 0.5})
    if idx % 5 == 1:
        vs.append({"memory": "dkmax", "start": -0.75, "dt": 0.125})
    if idx % 7 == 2 and case["A"] != eng.AINF and case["N"] <= 3:
        vs.append({"memory": "dkmax", "bath": "customcorr"})
    if tier == "thorough":
        vs.append({"memory": "dkmax", "start": 1.0, "dt": 0.5, "unique": True})
    return vs


def run(ctx):
    quick = ctx.tier == "quick"
    consts = {
        "MaxN": "4" if quick else "7",
        "MinN": "1",
        "KSet": "{1,2,3,4,5,1000}" if quick else "{1,2,3,4,5,6,7,8,1000}",
        "ASet": "{1000,0,1,2,999}" if quick else "{1000,0,1,2,3,999}",
        "OSet": "{<<1,-1>>, <<0,1,3>>, <<2,0,2>>}" if quick
                else "{<<1,-1>>, <<0,2>>, <<0,1,3>>, <<2,0,2>>, <<1,1,1>>, <<0,1,2,4>>, <<3,0,0,1>>}",
        "ShiftSet": "{<<0,0>>}",
        "AlgSet": '{"row","col"}',
    }
    cases = eng.generate(ctx, consts, "commuting models, all memory settings")
    jobs = []
    for idx, case in enumerate(cases):
        for v in variants(case, ctx.tier, idx):
            jobs.append({"case": case, "variant": v, "seed": ctx.seed})
    results = core.pmap(eng.run_variant, jobs, chunksize=4)
    for job, res in zip(jobs, results):
        cid = eng.case_id(job["case"], job["variant"])
        ctx.case(cid, nontrivial=True)
        for mm in res["mismatch"]:
            key = "C01:%s:%s" % (job["case"]["alg"], mm["what"])
            ctx.violation(key, "case %s: %s" % (cid, mm), {"case": job["case"], "variant": job["variant"]})
    ctx.rule = ("cases = terminal states of Influence.tla (alg x N x dkmax x add_correlation_time x "
                "coupling eigenvalues) x presentation variants (dkmax/tcut, start time, dt); "
                "non-trivial = at least one influence cell with non-zero coefficient (all are); "
                "distinct by configuration+variant hash")
    ctx.exhaustive = True
    ctx.assumptions += [
        "probe bath: CustomSD subclass with exact lattice eta_function; the numerical value of eta for real spectral densities is not covered (see DESIGN C12)",
        "SVD truncation 1e-15 in probe runs",
    ]


def replay(ctx, rep):
    job = {"case": rep["case"]["case"], "variant": rep["case"]["variant"], "seed": rep.get("seed", 0)}
    core._init_worker()
    res = eng.run_variant(job)
    ctx.case(eng.case_id(job["case"], job["variant"]))
    for mm in res["mismatch"]:
        ctx.violation("C01:%s:%s" % (job["case"]["alg"], mm["what"]), str(mm), rep["case"])
