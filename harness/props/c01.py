"""C01 - TEMPO and PT-TEMPO reproduce exactly solvable (commuting) models; the
memory settings have exactly their documented meaning.

Spec: specs/Influence.tla (row algorithm = TEMPO backend, column algorithm =
PT-TEMPO backend, DocCover = documented meaning).  TLC checks on every state that
both algorithm models produce exactly the documented influence set, and emits for
every configuration the expected integer coefficient vectors; the real code is run
with the exact probe bath and a Hamiltonian commuting with the coupling operator,
and every matrix element at every step is compared (tolerance 1e-9).
"""
import numpy as np

from harness import core, probes, influence_engine as eng

LEVEL = "model_checking"


def variants(case, tier, idx):
    vs = [{"memory": "dkmax", "start": 0.0}]
    if case["K"] != eng.KNONE and idx % 3 == 0:
        vs.append({"memory": "tcut", "start": 0.5})
    if case["K"] != eng.KNONE and idx % 3 == 1:
        # tcut = K * dt for decimal dt (the product is not exactly representable): must still mean K steps
        vs.append({"memory": "tcut", "dt": (0.1, 0.2, 0.3, 0.01, 0.7)[idx % 5]})
    if idx % 5 == 1:
        vs.append({"memory": "dkmax", "start": -0.75, "dt": 0.125})
    if idx % 7 == 2 and case["A"] != eng.AINF and case["N"] <= 3:
        vs.append({"memory": "dkmax", "bath": "customcorr"})
    if idx % 4 == 3:
        # the exactly solvable model written in another (complex) basis, with and without degeneracy reduction
        vs.append({"memory": "dkmax", "rot": "haar", "unique": bool(idx % 8 == 3)})
    if case["alg"] == "col" and idx % 6 == 1:
        # the process tensor is computed into a file-backed container and used from there
        vs.append({"memory": "dkmax", "pt_container": "file", "unique": bool(idx % 12 == 1)})
    if tier == "thorough":
        vs.append({"memory": "dkmax", "start": 1.0, "dt": 0.5, "unique": True})
    return vs


def numeric_job(job):
    """Numerical cross-check (not decided by the specification): pure dephasing with REAL spectral densities
    (every cutoff type, T = 0 and T > 0, exponents) against the independent-boson solution obtained by an
    independent quadrature of Phi(t) = int J(w)/w^2 [coth(w/2T)(1 - cos wt) - i(wt - sin wt)] dw."""
    import oqupy
    from scipy import integrate
    cutoff_type, temp, zeta, method = job[:4]
    reuse = len(job) > 4 and job[4]
    alpha, wc, dt, n = 0.12, 2.0, 0.2, 4
    if reuse:
        wc, dt = 10.0, 0.4          # cutoff frequency x time >> 1: the eta integrand oscillates
    o = np.array([1.0, -0.5, 0.0])
    en = np.array([0.3, -0.2, 0.5])
    cut = {"hard": lambda w: 1.0 * (w < wc), "exponential": lambda w: np.exp(-w / wc),
           "gaussian": lambda w: np.exp(-(w / wc) ** 2)}[cutoff_type]
    jw = lambda w: 2 * alpha * w ** zeta * wc ** (1 - zeta) * cut(w)
    upper = wc if cutoff_type == "hard" else np.inf

    def phi(t):
        coth = (lambda w: 1.0 / np.tanh(w / (2 * temp))) if temp > 0 else (lambda w: 1.0)
        re = integrate.quad(lambda w: jw(w) / w ** 2 * coth(w) * (1 - np.cos(w * t)), 0, upper, limit=400)[0]
        im = integrate.quad(lambda w: -jw(w) / w ** 2 * (w * t - np.sin(w * t)), 0, upper, limit=400)[0]
        return re + 1j * im
    corr = oqupy.PowerLawSD(alpha=alpha, zeta=zeta, cutoff=wc, cutoff_type=cutoff_type, temperature=temp)
    bath = oqupy.Bath(np.diag(o), corr)
    params = oqupy.TempoParameters(dt=dt, epsrel=1e-10)
    rho0 = probes.generic_rho(3, 5)
    system = oqupy.System(np.diag(en))
    if reuse:
        # the same bath object was used before with rough tolerances (a quick look before the production run)
        rough = oqupy.TempoParameters(dt=dt, epsrel=1e-2)
        oqupy.Tempo(system, bath, rough, rho0, 0.0).compute(n * dt + dt / 4, progress_type="silent")
        oqupy.PtTempo(bath, 0.0, n * dt + dt / 4, rough).get_process_tensor(progress_type="silent")
    if method == "tempo":
        dyn = oqupy.Tempo(system, bath, params, rho0, 0.0).compute(n * dt + dt / 4, progress_type="silent")
    else:
        pt = oqupy.PtTempo(bath, 0.0, n * dt + dt / 4, params).get_process_tensor(progress_type="silent")
        dyn = oqupy.compute_dynamics(system, initial_state=rho0, process_tensor=pt, progress_type="silent")
    worst = 0.0
    for m in range(1, n + 1):
        ph = phi(m * dt)
        want = np.array([[rho0[i, j] * np.exp(-1j * (en[i] - en[j]) * m * dt
                                               - (o[i] - o[j]) ** 2 * ph.real - 1j * (o[i] ** 2 - o[j] ** 2) * ph.imag)
                          for j in range(3)] for i in range(3)])
        worst = max(worst, float(np.max(np.abs(dyn.states[m] - want))))
    return [] if worst < 2e-6 else [{"what": "independent-boson", "err": worst}]


def cutoff_sweep_job(job):
    """The same script compares cutoff shapes: spectral densities that differ in ONE argument only (cutoff type, exponent,
    temperature or coupling strength) are used one after the other in one process; each must give its own closed form."""
    order, temp, zeta, method = job
    out = []
    for ct in order:
        for x in numeric_job((ct, temp, zeta, method)):
            out.append(dict(x, cutoff_type=ct, after=list(order[:list(order).index(ct)])))
    return out


def finite_mode_job(job):
    """Numerical cross-check of the second clause of the property: a bath of finitely many harmonic modes,
    given through its autocorrelation function, with an arbitrary (non-commuting, dissipative) system must equal
    the explicitly simulated system + modes evolution (Fock space truncated) with the same symmetric splitting
    exp(L_S dt/2) exp(-i (H_B + H_SB) dt) exp(L_S dt/2)."""
    import oqupy
    from scipy.linalg import expm
    seed, nmodes, temp, lind, method = job
    r = np.random.default_rng(seed)
    d, dt, n = 2, 0.1, 5
    nmax = 14 if nmodes < 3 else 7
    sx = np.array([[0, 1], [1, 0]], complex)
    sy = np.array([[0, -1j], [1j, 0]])
    sz = np.diag([1.0, -1.0]).astype(complex)
    hs = (0.4 + 0.4 * r.random()) * sx + 0.3 * sz + 0.2 * sy
    coup = 0.5 * sz + 0.2 * sx
    ws = 0.8 + 1.5 * r.random(nmodes)
    gs = 0.08 + 0.1 * r.random(nmodes)
    if temp > 0:
        # the reference truncates every mode's Fock space: the thermal tail beyond the truncation must be negligible,
        # otherwise the *reference* is wrong (seen in the thorough tier: 3 modes at T = 1.2 with 7 levels, 8e-6)
        nmax = int(min((60, 22, 8)[nmodes - 1], max(nmax, np.ceil(23.0 * temp / ws.min()) + 3)))
        if np.exp(-ws.min() * nmax / temp) > 1e-7:
            return [{"what": "harness", "detail": "Fock truncation too coarse for T=%s with %d modes" % (temp, nmodes)}]
    coth = (lambda w: 1 / np.tanh(w / (2 * temp))) if temp > 0 else (lambda w: 1.0)
    corr = oqupy.CustomCorrelations(lambda tau: sum(g * g * (coth(w) * np.cos(w * tau) - 1j * np.sin(w * tau))
                                                    for w, g in zip(ws, gs)))
    system = oqupy.System(hs, gammas=[0.15] if lind else [], lindblad_operators=[sx - 1j * sy] if lind else [])
    rho0 = probes.generic_rho(2, seed)
    params = oqupy.TempoParameters(dt=dt, epsrel=1e-9)
    bath = oqupy.Bath(coup, corr)
    if method == "tempo":
        dyn = oqupy.Tempo(system, bath, params, rho0, 0.0).compute(n * dt + dt / 4, progress_type="silent")
    else:
        pt = oqupy.PtTempo(bath, 0.0, n * dt + dt / 4, params).get_process_tensor(progress_type="silent")
        dyn = oqupy.compute_dynamics(system, initial_state=rho0, process_tensor=pt, progress_type="silent")
    a = np.diag(np.sqrt(np.arange(1, nmax)), 1)
    idm = np.eye(nmax)

    def kron_all(ops):
        out = ops[0]
        for o in ops[1:]:
            out = np.kron(out, o)
        return out
    dim = d * nmax ** nmodes
    hb = np.zeros((dim, dim), complex)
    hsb = np.zeros((dim, dim), complex)
    rho_b = None
    for k, (w, g) in enumerate(zip(ws, gs)):
        ops = [np.eye(d)] + [idm] * nmodes
        ops[1 + k] = w * (a.T @ a)
        hb += kron_all(ops)
        ops = [coup] + [idm] * nmodes
        ops[1 + k] = g * (a + a.T)
        hsb += kron_all(ops)
        pk = np.exp(-w * np.arange(nmax) / temp) if temp > 0 else np.eye(nmax)[0]
        rb = np.diag(pk / pk.sum()).astype(complex)
        rho_b = rb if rho_b is None else np.kron(rho_b, rb)
    umid = expm(-1j * (hb + hsb) * dt)
    lhalf = expm(system.liouvillian() * dt / 2)

    def sys_super(rho, sup):
        nb = rho.shape[0] // d
        r4 = sup @ rho.reshape(d, nb, d, nb).transpose(0, 2, 1, 3).reshape(d * d, nb * nb)
        return r4.reshape(d, d, nb, nb).transpose(0, 2, 1, 3).reshape(d * nb, d * nb)
    rho = np.kron(rho0, rho_b)
    worst = 0.0
    for m in range(1, n + 1):
        rho = sys_super(rho, lhalf)
        rho = umid @ rho @ umid.conj().T
        rho = sys_super(rho, lhalf)
        nb = rho.shape[0] // d
        red = np.trace(rho.reshape(d, nb, d, nb), axis1=1, axis2=3)
        worst = max(worst, float(np.max(np.abs(red - dyn.states[m]))))
    return [] if worst < 1e-6 else [{"what": "finite-mode-bath", "err": worst}]


def run(ctx):
    quick = ctx.tier == "quick"
    # unbounded counterpart of what TLC checks for N <= 8 (specs/InfluenceCover.tla, TLA+ proof system): for every r, K, A the
    # documented cover keeps exactly 0..r-1 (additional time infinite), 0..min(r-1, K) (none), nothing beyond K + A (finite)
    core.tlaps(ctx, "InfluenceCover", ("Min2(r - K, 1 + A)", "Min2(r - K, 2 + A)"))
    fjobs = [(ctx.seed + i, nm, t, lind, meth) for i, (nm, t, lind) in enumerate(
        [(1, 0.0, False), (2, 0.7, False), (1, 0.5, True), (3, 0.0, True)] if quick else
        [(1, 0.0, False), (2, 0.7, False), (1, 0.5, True), (3, 0.0, True), (2, 0.0, True), (3, 0.3, False), (1, 2.0, True)])
        for meth in ("tempo", "pt")]
    for j, mm in zip(fjobs, core.pmap(finite_mode_job, fjobs)):
        ctx.case({"finite_mode_bath": {"modes": j[1], "T": j[2], "lindblad": j[3], "method": j[4]}}, nontrivial=True)
        for x in mm:
            if x["what"] == "harness":
                raise core.MachineryError("finite-mode reference: %s" % x["detail"])
            ctx.violation("C01:finite-modes:%s:%s" % (j[4], x["what"]), "%s: %s" % (j, x), {"finite": list(j)})
    njobs = [(ct, t, z, meth) for ct in ("hard", "exponential", "gaussian") for t in (0.0, 0.6)
             for z, meth in ((1.0, "tempo"), (3.0, "pt"))]
    # ... and with a bath object that was used before with rough tolerances (cutoff x time >> 1)
    njobs += [(ct, t, 1.0, meth, True) for ct in ("exponential", "gaussian") for t, meth in ((0.0, "tempo"), (0.6, "pt"))]
    sweeps = [(order, t, 1.0, meth) for order in (("gaussian", "exponential", "hard"), ("hard", "gaussian", "exponential"),
                                                   ("exponential", "hard", "gaussian"))
              for t, meth in ((0.0, "tempo"), (0.6, "pt"))]
    for j, mm in zip(sweeps, core.pmap(cutoff_sweep_job, sweeps)):
        ctx.case({"numeric_sweep": {"cutoff_types_in_one_process": list(j[0]), "T": j[1], "method": j[3]}}, nontrivial=True)
        for x in mm:
            ctx.violation("C01:numeric-sweep:%s:%s" % (x["cutoff_type"], x["what"]), "%s: %s" % (j, x), {"sweep": [list(j[0])] + list(j[1:])})
    for j, mm in zip(njobs, core.pmap(numeric_job, njobs)):
        ctx.case({"numeric": {"cutoff_type": j[0], "T": j[1], "zeta": j[2], "method": j[3], "bath_used_before": len(j) > 4}},
                 nontrivial=True)
        for x in mm:
            ctx.violation("C01:numeric:%s:%s" % (j[0], x["what"]), "%s: %s" % (j, x), {"numeric": list(j)})
    consts = {
        "MaxN": "4" if quick else "6",
        "MinN": "1",
        "KSet": "{1,2,3,4,5,1000}" if quick else "{1,2,3,4,5,6,7,1000}",
        "ASet": "{1000,0,1,2,999}" if quick else "{1000,0,1,2,3,999}",
        "OSet": "{<<1,-1>>, <<0,1,3>>, <<2,0,2>>}" if quick
                else "{<<1,-1>>, <<0,2>>, <<0,1,3>>, <<2,0,2>>, <<1,1,1>>}",
        "ShiftSet": "{<<0,0>>}",
        "AlgSet": '{"row","col"}',
    }
    cases = eng.generate(ctx, consts, "commuting models, all memory settings")
    if not quick:
        # four-level systems: shorter runs (the full-memory network grows with d^2)
        c4 = dict(consts, MaxN="4", KSet="{1,2,3,5,1000}", ASet="{1000,0,2,999}", OSet="{<<0,1,2,4>>, <<3,0,0,1>>}")
        cases += eng.generate(ctx, c4, "commuting four-level models")
        c7 = dict(consts, MaxN="8", MinN="7", OSet="{<<1,-1>>}", KSet="{1,3,6,7,8,1000}")
        cases += eng.generate(ctx, c7, "long runs, qubit")
    jobs = []
    for idx, case in enumerate(cases):
        for v in variants(case, ctx.tier, idx):
            jobs.append({"case": case, "variant": v, "seed": ctx.seed})
    results = core.pmap(eng.run_variant, jobs, chunksize=4)
    for job, res in zip(jobs, results):
        cid = eng.case_id(job["case"], job["variant"])
        ctx.case(cid, nontrivial=True)
        for mm in res["mismatch"]:
            key = "C01:%s:%s" % (job["case"]["alg"], mm["what"])
            ctx.violation(key, "case %s: %s" % (cid, mm), {"case": job["case"], "variant": job["variant"]})
    ctx.rule = ("cases = terminal states of Influence.tla (alg x N x dkmax x add_correlation_time x "
                "coupling eigenvalues) x presentation variants (dkmax/tcut, start time, dt); "
                "non-trivial = at least one influence cell with non-zero coefficient (all are); "
                "distinct by configuration+variant hash")
    ctx.exhaustive = True
    ctx.assumptions += [
        "probe bath: CustomSD subclass with exact lattice eta_function; the numerical value of eta for real spectral densities is only cross-checked numerically (12 runs: 3 cutoff types x T x exponent/method against an independent quadrature, 2e-6)",
        "SVD truncation 1e-15 in probe runs",
        "finite-mode baths (1..3 modes, non-commuting dissipative system, non-diagonal coupling): numerical cross-check against an explicit system+modes simulation with Fock truncation (1e-6)",
    ]


def replay(ctx, rep):
    if "finite" in rep["case"]:
        core._init_worker()
        ctx.case({"replay": True})
        for x in finite_mode_job(tuple(rep["case"]["finite"])):
            ctx.violation("C01:replay:" + x["what"], str(x), rep["case"])
        return
    if "sweep" in rep["case"]:
        core._init_worker()
        j = rep["case"]["sweep"]
        ctx.case({"replay": True})
        for x in cutoff_sweep_job((tuple(j[0]), j[1], j[2], j[3])):
            ctx.violation("C01:replay:numeric-sweep:%s" % x["what"], str(x), rep["case"])
        return
    if "numeric" in rep["case"]:
        core._init_worker()
        ctx.case({"replay": True})
        for x in numeric_job(tuple(rep["case"]["numeric"])):
            ctx.violation("C01:replay:" + x["what"], str(x), rep["case"])
        return
    job = {"case": rep["case"]["case"], "variant": rep["case"]["variant"], "seed": rep.get("seed", 0)}
    core._init_worker()
    res = eng.run_variant(job)
    ctx.case(eng.case_id(job["case"], job["variant"]))
    for mm in res["mismatch"]:
        ctx.violation("C01:%s:%s" % (job["case"]["alg"], mm["what"]), str(mm), rep["case"])
