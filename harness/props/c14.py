r"""C14 - splitting or repeating compute calls never changes the result; fixed-end
methods are idempotent; a chain restarted from its exported state continues exactly;
a transient failure of a user callable never leads to silently different results.

Spec: specs/Stepper.tla.  TLC checks HistoryIndependent / Idempotent / NoOpWhenReached
on the strict specification over all histories in the bound, shows that every named
deviation (the defects found in the code) violates them, and emits every history with
the expected outcome of each call.  Each history is replayed on real objects:
Tempo, MeanFieldTempo, PtTebd (with restart from get_augmented_mps), PtTempo,
GibbsTempo.  After every call the harness compares: raised or not, step count,
time labels, and the content of every recorded state (against an uninterrupted
reference run; for chains additionally the prime-factor norm decoded against the
spec's event sequence).
"""
import numpy as np

from harness import core, probes

LEVEL = "model_checking"

CFG_STRICT = """
INIT Init
NEXT Next
INVARIANT HistoryIndependent
INVARIANT Idempotent
PROPERTY NoOpWhenReached
INVARIANT EmitCase
"""
CFG_EMIT_ONLY = """
INIT Init
NEXT Next
INVARIANT EmitCase
"""
CFG_PROPS_ONLY = """
INIT Init
NEXT Next
INVARIANT HistoryIndependent
INVARIANT Idempotent
"""

SX = np.array([[0, 1], [1, 0]], dtype=complex)
SZ = np.array([[1, 0], [0, -1]], dtype=complex)
SM = np.array([[0, 0], [1, 0]], dtype=complex)
DT = 0.25
START = 0.5
PRIMES = [2, 3, 5, 7, 11, 13, 17]


class Injected(Exception):
    pass


def hist_key(case):
    return (tuple(case["fail"]), tuple(case["pre"]),
            tuple((h["op"], h["target"]) for h in case["hist"]))


# --------------------------------------------------------------------------- tempo

def _ham_step(k):
    return (1.0 + 0.3 * k) * 0.8 * SX + 0.5 * SZ + 0.2 * (k % 3) * np.array([[0, -1j], [1j, 0]])


class StepProbe:
    """User callables that know which step they are asked about and can raise once."""

    def __init__(self, fail):
        self.fail_step, self.fail_stage = fail
        self.armed = False
        self.fired = False
        self.eom_pos = 0      # position in the deriv, rk1, rk2 cycle
        # which of the user's callables of a time-dependent system raises (Hamiltonian, rate, Lindblad operator):
        # they are all evaluated in the specification's stage "H"
        self.which = ("H", "rate", "lop")[self.fail_step % 3] if isinstance(self.fail_step, int) else "H"

    def step_of(self, t):
        return int(np.floor((t - START) / DT + 1e-9))

    def maybe_fail(self, k, stage):
        if self.armed and not self.fired and k == self.fail_step and stage == self.fail_stage:
            self.fired = True
            self.eom_pos = 0
            raise Injected("%s at step %d" % (stage, k))

    def ham(self, t):
        k = self.step_of(t)
        if self.which == "H":
            self.maybe_fail(k, "H")
        return _ham_step(k)

    def rate(self, t):
        k = self.step_of(t)
        if self.which == "rate":
            self.maybe_fail(k, "H")
        return 0.1 + 0.05 * (k % 4)

    def lop(self, t):
        k = self.step_of(t)
        if self.which == "lop":
            self.maybe_fail(k, "H")
        return SM + 0.1 * (k % 2) * SZ

    def ham_field(self, t, a):
        k = self.step_of(t)
        self.maybe_fail(k, "H")
        return _ham_step(k) + 0.3 * (a * SM.conj().T + np.conj(a) * SM)

    def ham_field2(self, t, a):
        k = self.step_of(t)
        self.maybe_fail(k, "H2")
        return 0.7 * _ham_step(k + 1) + 0.2 * (a * SM.conj().T + np.conj(a) * SM)

    def field_eom(self, t, states, a):
        stage = ("deriv", "rk1", "rk2")[self.eom_pos]
        k = int(round((t - START) / DT)) - (1 if stage == "rk2" else 0)
        self.maybe_fail(k, stage)
        self.eom_pos = (self.eom_pos + 1) % 3
        return -1j * 0.4 * a - 0.2j * np.trace(states[0] @ SM) + 0.1 * (t - START)


def _bath(dt):
    w = probes.probe_weights(1, 24, scale=3e-2)
    return w


def make_tempo(fail):
    import oqupy
    pr = StepProbe(fail)
    sd = probes.make_probe_sd(_bath(DT), DT)
    if fail[1] == "C":
        # the user's bath correlation function raises once: beyond the memory cut-off one new 2D integral (a rectangle) is
        # requested per step; the failure is injected into the request of step fail[0] + 1
        real_2d = sd.correlation_2d_integral

        def failing_2d(*a, **kw):
            shape = kw.get("shape", a[3] if len(a) > 3 else None)
            if pr.armed and not pr.fired and shape == "rectangle":
                t2 = kw.get("time_2", a[2] if len(a) > 2 else None)
                if t2 is not None and int(round(t2 / DT)) == fail[0] + 1:
                    pr.fired = True
                    raise Injected("correlation function at step %d" % (fail[0] + 1))
            return real_2d(*a, **kw)
        sd.correlation_2d_integral = failing_2d
    bath = oqupy.Bath(0.5 * SZ, sd)
    params = oqupy.TempoParameters(dt=DT, epsrel=1e-14, dkmax=2, add_correlation_time=DT,
                                   subdiv_limit=None)
    rho0 = np.array([[0.7, 0.2 - 0.1j], [0.2 + 0.1j, 0.3]])
    t = oqupy.Tempo(oqupy.TimeDependentSystem(pr.ham, gammas=[pr.rate], lindblad_operators=[pr.lop]), bath, params, rho0,
                    START)
    pr.armed = True
    return t, pr


def make_mf(fail):
    import oqupy
    pr = StepProbe(fail)
    sd = probes.make_probe_sd(_bath(DT), DT)
    bath = oqupy.Bath(0.5 * SZ, sd)
    params = oqupy.TempoParameters(dt=DT, epsrel=1e-14, dkmax=2, subdiv_limit=None)
    rho0 = np.array([[0.7, 0.2 - 0.1j], [0.2 + 0.1j, 0.3]])
    fs = oqupy.TimeDependentSystemWithField(pr.ham_field)
    fs2 = oqupy.TimeDependentSystemWithField(pr.ham_field2)
    bath2 = oqupy.Bath(0.5 * SX, probes.make_probe_sd(_bath(DT) * 0.7, DT))
    mfs = oqupy.MeanFieldSystem([fs, fs2], field_eom=pr.field_eom)
    t = oqupy.MeanFieldTempo(mfs, [bath, bath2], params, [rho0, rho0.T.copy()], 0.3 + 0.1j, START)
    pr.armed = True
    pr.eom_pos = 0
    return t, pr


def observe_tempo(obj, kind):
    dyn = obj.get_dynamics()
    if dyn is None:
        return None
    if kind == "mf":
        return (np.array(dyn.times),
                np.concatenate([np.array(dyn.system_dynamics[0].states), np.array(dyn.system_dynamics[1].states)], axis=1),
                np.array(dyn.fields))
    return (np.array(dyn.times), np.array(dyn.states), None)


def replay_continuing(case):
    """tempo / mf histories."""
    kind = case["kind"]
    n_max = case["N"]
    make = make_tempo if kind == "tempo" else make_mf
    ref_obj, _ = make((99, "none"))
    ref_obj.compute(START + n_max * DT + DT / 4, progress_type="silent")
    ref = observe_tempo(ref_obj, kind)
    obj, _ = make(tuple(case["fail"]))
    out = []
    for idx, h in enumerate(case["hist"]):
        raised = False
        if h["op"] == "compute":
            try:
                obj.compute(START + h["target"] * DT + DT / 4, progress_type="silent")
            except Injected:
                raised = True
            except Exception as ex:  # pylint: disable=broad-except
                out.append({"what": "unexpected-exception", "call": idx, "detail": "%s: %s" % (type(ex).__name__, ex)})
                return out
        obs = observe_tempo(obj, kind)
        if raised != h["raised"]:
            out.append({"what": "raised", "call": idx, "expected": h["raised"], "observed": raised})
        nrec = 0 if obs is None else len(obs[0])
        if nrec != h["nrec"]:
            out.append({"what": "nrec", "call": idx, "expected": h["nrec"], "observed": nrec})
        if obs is not None:
            times, states, fields = obs
            for i in range(len(times)):
                if abs(times[i] - (START + i * DT)) > 1e-12:
                    out.append({"what": "label", "call": idx, "index": i, "observed": float(times[i])})
                    break
            m = min(len(times), len(ref[0]))
            err = np.max(np.abs(states[:m] - ref[1][:m]))
            if not err < 1e-9:
                bad = int(np.argmax(np.max(np.abs(states[:m] - ref[1][:m]), axis=(1, 2))))
                out.append({"what": "content", "call": idx, "first_bad_label": bad, "err": float(err)})
            if fields is not None:
                ferr = np.max(np.abs(fields[:m] - ref[2][:m]))
                if not ferr < 1e-9:
                    out.append({"what": "field-content", "call": idx, "err": float(ferr)})
        if out:
            break
    return out


# ---------------------------------------------------------------------------- tebd

def make_tebd(pre_steps, initial=None, start_step=0):
    import oqupy
    chain = oqupy.SystemChain([2, 2])
    chain.add_site_hamiltonian(0, 0.6 * SX + 0.3 * SZ)
    chain.add_site_hamiltonian(1, 0.4 * SZ)
    chain.add_nn_hamiltonian(0, 0.7 * SZ, SZ)
    chain.add_nn_hamiltonian(0, 0.2 * SX, SX)
    ctrl = oqupy.ChainControl([2, 2])
    for k in pre_steps:
        ctrl.add_single_site_control(PRIMES[k] * np.eye(4), site=k % 2, step=int(k), post=False)
    # a fixed post-measurement control (unitary kick on site 1 after step 1)
    ux = oqupy.operators.left_right_super(SX, SX)
    ctrl.add_single_site_control(ux, site=1, step=1, post=True)
    if initial is None:
        rho_a = np.array([[0.8, 0.1], [0.1, 0.2]], dtype=complex)
        rho_b = np.array([[0.4, 0.2j], [-0.2j, 0.6]], dtype=complex)
        initial = oqupy.AugmentedMPS([rho_a, rho_b])
    params = oqupy.PtTebdParameters(dt=DT, order=2, epsrel=1e-13)
    t = oqupy.PtTebd(initial, chain, [None, None], params, chain_control=ctrl,
                     start_time=START + DT * start_step, start_step=int(start_step),
                     dynamics_sites=[0, 1, (0, 1)])
    t._verif_ctrl = ctrl        # the caller's ChainControl object (for controls scheduled between two compute calls)
    return t


def observe_tebd(obj):
    if obj.step is None:
        return None
    r = obj.get_results()
    return (np.array(r["time"]), np.array(r["norm"]),
            np.array(r["dynamics"][(0, 1)].states))


def expected_norm(content):
    p = 1.0
    for ev in content:
        if ev[0] == "pre":
            p *= PRIMES[ev[1]]
    return p


def replay_tebd(case):
    pre = sorted(case["pre"])
    n_max = case["N"]
    ref = make_tebd(pre)
    ref.compute(n_max, progress_type="silent")
    rt, rn, rs = observe_tebd(ref)
    # "late": the caller schedules each pre-measurement control only just before the compute call that reaches its step
    # (on the same ChainControl object, between two calls)
    late = bool(case.get("late"))
    obj = make_tebd([] if late else pre)
    pending = list(pre) if late else []
    origin = 0
    out = []
    for idx, h in enumerate(case["hist"]):
        raised = False
        try:
            if h["op"] == "compute":
                for k in [k for k in pending if k <= h["target"]]:
                    obj._verif_ctrl.add_single_site_control(PRIMES[k] * np.eye(4), site=k % 2, step=int(k), post=False)
                    pending.remove(k)
                obj.compute(h["target"], progress_type="silent")
            elif h["op"] == "peek":
                dm = obj.get_current_density_matrix((0, 1))
                lab = obj.step
                if lab < len(rs) and np.max(np.abs(dm - rs[lab])) > 1e-9 * max(1.0, abs(rn[lab])) and not out:
                    out.append({"what": "peek-content", "call": idx, "label": lab})
            elif h["op"] == "restart":
                mps = obj.get_augmented_mps()
                origin = obj.step
                obj = make_tebd(pre, initial=mps, start_step=origin)
                pending = []
        except Exception as ex:  # pylint: disable=broad-except
            out.append({"what": "unexpected-exception", "call": idx, "detail": "%s: %s" % (type(ex).__name__, ex)})
            return out
        obs = observe_tebd(obj)
        nrec = 0 if obs is None else len(obs[0])
        if nrec != h["nrec"]:
            out.append({"what": "nrec", "call": idx, "expected": h["nrec"], "observed": nrec})
        if raised != h["raised"]:
            out.append({"what": "raised", "call": idx})
        if obs is not None:
            times, norms, states = obs
            for i in range(len(times)):
                lab = origin + i
                if abs(times[i] - (START + lab * DT)) > 1e-12:
                    out.append({"what": "label", "call": idx, "index": i, "observed": float(times[i])})
                    break
                if lab < len(rt):
                    if abs(norms[i] / rn[lab] - 1) > 1e-9:
                        out.append({"what": "norm", "call": idx, "label": lab,
                                    "observed": float(np.real(norms[i])), "uninterrupted": float(np.real(rn[lab]))})
                        break
                    if np.max(np.abs(states[i] - rs[lab])) > 1e-9 * max(1.0, abs(rn[lab])):
                        out.append({"what": "content", "call": idx, "label": lab})
                        break
        if out:
            break
    return out


# ----------------------------------------------------------------------- ptt, gibbs

def make_ptt(n):
    import oqupy
    sd = probes.make_probe_sd(_bath(DT), DT)
    bath = oqupy.Bath(0.5 * SZ, sd)
    params = oqupy.TempoParameters(dt=DT, epsrel=1e-14, dkmax=2, add_correlation_time=DT)
    return oqupy.PtTempo(bath, START, START + n * DT + DT / 4, params)


def pt_fingerprint(pt):
    """Gauge-invariant fingerprint of a process tensor: the MPO tensors themselves are
    only defined up to a gauge on the bond legs (and PT-TEMPO's SVDs do not fix it
    reproducibly), so the PT is probed through compute_dynamics with two generic
    systems; bond dimensions are gauge invariant and included."""
    import oqupy
    fps = [np.array(pt.get_bond_dimensions(), dtype=float)]
    for hh, rho in ((0.9 * SX + 0.4 * SZ, np.array([[0.7, 0.2 - 0.1j], [0.2 + 0.1j, 0.3]])),
                    (0.5 * SX - 0.8 * SZ, np.array([[0.2, 0.3j], [-0.3j, 0.8]]))):
        dyn = oqupy.compute_dynamics(oqupy.System(hh), initial_state=rho, process_tensor=pt,
                                     start_time=START, progress_type="silent")
        fps.append(np.array(dyn.states))
    return fps


def replay_ptt(case):
    n = case["N"]
    ref = pt_fingerprint(make_ptt(n).get_process_tensor(progress_type="silent"))
    obj = make_ptt(n)
    out = []
    for idx, h in enumerate(case["hist"]):
        raised = False
        pt = None
        try:
            if h["op"] == "compute":
                obj.compute(progress_type="silent")
            else:
                pt = obj.get_process_tensor(progress_type="silent")
        except Exception as ex:  # pylint: disable=broad-except
            raised = True
            detail = "%s: %s" % (type(ex).__name__, ex)
        if raised != h["raised"]:
            out.append({"what": "raised", "call": idx, "expected": h["raised"], "observed": raised,
                        "detail": detail if raised else ""})
            break
        if pt is not None:
            if len(pt) != n:
                out.append({"what": "pt-length", "call": idx, "expected": n, "observed": len(pt)})
                break
            fp = pt_fingerprint(pt)
            if any(a.shape != b.shape or np.max(np.abs(a - b)) > 1e-10 for a, b in zip(fp, ref)):
                out.append({"what": "content", "call": idx})
                break
    return out


def make_gibbs(n, fail_call=None, counter=None):
    """GibbsTempo whose spectral density is a user callable (CustomSD) that may raise once, at its fail_call-th
    evaluation after the object has been built"""
    import oqupy
    cnt = counter if counter is not None else {"n": 0}
    cnt.setdefault("armed", False)

    class Transient(Exception):
        pass

    def jw(w):
        if cnt["armed"]:
            cnt["n"] += 1
            if fail_call is not None and cnt["n"] == fail_call:
                raise Transient("spectral density failed at evaluation %d" % fail_call)
        return 2 * 0.2 * w
    corr = oqupy.CustomSD(jw, 3.0, cutoff_type="exponential", temperature=0.8)
    bath = oqupy.Bath(np.diag([0.5, -0.5]), corr)
    sysm = oqupy.System(0.4 * SX + 0.3 * SZ)
    g = oqupy.GibbsTempo(sysm, bath, oqupy.GibbsParameters(n_steps=n, epsrel=1e-10))
    cnt["armed"] = True
    return g


def replay_gibbs(case):
    n = case["N"]
    cnt = {"n": 0}
    r = make_gibbs(n, counter=cnt)
    r.compute(progress_type="silent")
    total = cnt["n"]
    ref_state = r.get_state()
    ref_len = len(r.get_dynamics().times)
    fail = tuple(case["fail"])
    fail_call = None
    if fail[0] != 99:
        # the k-th of 12 failure points spread over all evaluations of the spectral density during compute()
        fail_call = 1 + int((fail[0] + 0.5) / 12.0 * total)
    obj = make_gibbs(n, fail_call=fail_call)
    out = []
    for idx, h in enumerate(case["hist"]):
        raised = False
        if h["op"] == "get" and h["step"] < n:
            # asked after a failed compute(): any answer (or error) is acceptable, it must only leave no trace
            try:
                obj.get_state()
            except Exception:  # pylint: disable=broad-except
                pass
            continue
        try:
            if h["op"] == "compute":
                obj.compute(progress_type="silent")
            else:
                obj.get_state()
        except Exception as ex:  # pylint: disable=broad-except
            raised = True
            if not h["raised"]:
                out.append({"what": "raised", "call": idx, "detail": "%s: %s" % (type(ex).__name__, ex)})
                break
        if h["raised"] and not raised:
            out.append({"what": "harness-exception", "detail": "the injected failure did not fire (call %s of %d)" % (fail_call, total)})
            break
        if raised:
            continue                 # a failed call: judged by what the repeated call gives
        nrec = len(obj.get_dynamics().times)
        if nrec != h["nrec"] or nrec != ref_len:
            out.append({"what": "nrec", "call": idx, "expected": h["nrec"], "observed": nrec})
            break
        cur = obj.get_state()
        if np.max(np.abs(cur - ref_state)) > 1e-10:
            out.append({"what": "content", "call": idx, "err": float(np.max(np.abs(cur - ref_state)))})
            break
    return out


def replay_case(case):
    kind = case["kind"]
    try:
        if kind in ("tempo", "mf"):
            return replay_continuing(case)
        if kind == "tebd":
            return replay_tebd(case)
        if kind == "ptt":
            return replay_ptt(case)
        if kind == "gibbs":
            return replay_gibbs(case)
    except Exception as ex:  # pylint: disable=broad-except
        import traceback
        return [{"what": "harness-exception", "detail": traceback.format_exc()[-600:]}]
    raise ValueError(kind)


# ------------------------------------------------------------------------------ run

def truncating_split_job(job):
    """Numerical: with a truncation threshold that actually truncates (epsrel 1e-5, generic spin-boson model), splitting the
    computation into several calls - repeated and lower targets in between - leaves the states a single call gives (1e-9:
    the carried network must not be re-truncated or otherwise touched at a call boundary)."""
    import oqupy
    kind, seed = job
    r = probes.rng_for(seed, "c14-trunc", kind)
    sx, sz = SX, SZ
    corr = oqupy.PowerLawSD(alpha=0.3 + 0.2 * r.random(), zeta=1.0, cutoff=3.0, cutoff_type="exponential", temperature=0.2)
    bath = oqupy.Bath(0.5 * sz, corr)
    params = oqupy.TempoParameters(dt=0.1, epsrel=1e-5, dkmax=4)
    rho = np.array([[0.8, 0.3 - 0.1j], [0.3 + 0.1j, 0.2]])
    h = (0.6 + 0.4 * r.random()) * sx + 0.2 * sz

    def mk():
        if kind == "tempo":
            return oqupy.Tempo(oqupy.System(h), bath, params, rho.copy(), 0.0)
        fs = oqupy.TimeDependentSystemWithField(lambda t, a: h + 0.2 * a.real * sz)
        mfs = oqupy.MeanFieldSystem([fs], field_eom=lambda t, st, a: -0.5j * a - 0.2j * np.trace(st[0] @ SM))
        return oqupy.MeanFieldTempo(mfs, [bath], params, [rho.copy()], 0.3 + 0j, 0.0)

    def states(d):
        return np.array(d.states if kind == "tempo" else d.system_dynamics[0].states)
    try:
        one = states(mk().compute(1.01, progress_type="silent"))
        t = mk()
        for end in (0.31, 0.31, 0.61, 0.21, 1.01):
            d = t.compute(end, progress_type="silent")
        many = states(d)
    except Exception as ex:  # pylint: disable=broad-except
        return [{"what": "exception", "detail": "%s: %s" % (type(ex).__name__, str(ex)[:150])}]
    if one.shape != many.shape or np.max(np.abs(one - many)) > 1e-9:
        return [{"what": "split-differs-with-truncation", "kind": kind,
                 "err": float(np.max(np.abs(one - many))) if one.shape == many.shape else "shape"}]
    return []


KINDS = {
    # kind: (FailSet, PreSet, known deviation or None, all deviations for adequacy)
    "tempo": ('{<<99,"none">>} \\cup {<<k,"H">> : k \\in 0..(MaxStep-1)} \\cup {<<k,"C">> : k \\in 2..(MaxStep-1)}', "{{}}", None,
              ["StepBeforeEval", "HalfStepBeforeCorr"]),
    "mf": ('{<<99,"none">>} \\cup {<<k,s>> : k \\in 0..(MaxStep-1), s \\in {"deriv","H","H2","rk1","rk2"}}', "{{}}",
           "MFMutateBeforeField", ["MFMutateBeforeField"]),
    "tebd": ('{<<99,"none">>}', "SUBSET (0..MaxStep)", "RestartReappliesPre", ["RestartReappliesPre"]),
    "ptt": ('{<<99,"none">>}', "{{}}", None, ["SecondComputeRaises"]),
    "gibbs": ('{<<99,"none">>} \\cup {<<k,"J">> : k \\in 0..11}', "{{}}", None, ["GibbsRecompute", "RecordBeforeEval"]),
}
KNOWN_KEY = {"MFMutateBeforeField": "C14:mf:field-stage-failure-retry-differs",
             "RestartReappliesPre": "C14:tebd:restart-at-pre-control-step"}


def run(ctx):
    quick = ctx.tier == "quick"
    all_jobs = []
    for kind, (failset, preset, known_dev, devs) in KINDS.items():
        nmax = {"tempo": 3 if quick else 4, "mf": 3, "tebd": 3 if quick else 4, "ptt": 4, "gibbs": 4}[kind]
        calls = {"tempo": 3 if quick else 4, "mf": 3, "tebd": 3 if quick else 4, "ptt": 3, "gibbs": 3}[kind]
        if kind == "tebd" and quick:
            preset = "{{}, {0}, {1}, {2}, {1,3}, {0,2}}"
        consts = {"Kind": '"%s"' % kind, "MaxStep": str(nmax), "MaxCalls": str(calls),
                  "FailSet": failset, "PreSet": preset, "Devs": "{}", "Emit": "TRUE"}
        strict = ctx.tlc("Stepper", CFG_STRICT, label="%s strict" % kind, constants=consts, workers=4)
        # adequacy: every named deviation must violate the properties on the spec
        for dev in devs:
            c2 = dict(consts, Devs='{"%s"}' % dev, Emit="FALSE")
            r = ctx.tlc("Stepper", CFG_PROPS_ONLY, label="%s with deviation %s (must violate)" % (kind, dev),
                        constants=c2, workers=4, must_hold=False)
            if r.ok:
                raise core.MachineryError("deviation %s is not distinguished by the Stepper properties" % dev)
        trigger = {}
        if known_dev:
            c3 = dict(consts, Devs='{"%s"}' % known_dev)
            r = ctx.tlc("Stepper", CFG_EMIT_ONLY, label="%s deviated expectations (%s)" % (kind, known_dev),
                        constants=c3, workers=4)
            for c in r.cases:
                # the deviation shows on this history if the deviated specification leaves the canonical
                # state at any point (not only at the end: a later restart hides it again)
                if not c["canonical"] or any(not h["canon"] for h in c["hist"]):
                    trigger[hist_key(c)] = c
        for ci, c in enumerate(strict.cases):
            all_jobs.append((c, known_dev if hist_key(c) in trigger else None))
            if kind == "tebd" and c["pre"] and ci % 2 == 0 and sum(1 for h in c["hist"] if h["op"] == "compute") >= 2:
                all_jobs.append((dict(c, late=True), known_dev if hist_key(c) in trigger else None))
    res = core.pmap(replay_case, [j[0] for j in all_jobs], chunksize=4)
    ntrig = 0
    for (case, dev), mm in zip(all_jobs, res):
        cid = {"kind": case["kind"], "fail": case["fail"], "pre": case["pre"],
               "calls": [[h["op"], h["target"]] for h in case["hist"]]}
        if case.get("late"):
            cid["controls_scheduled_between_calls"] = True
        nontrivial = any(h["op"] in ("compute", "restart") for h in case["hist"])
        ctx.case(cid, nontrivial=nontrivial)
        if dev:
            ntrig += 1
        for x in mm:
            if x["what"] == "harness-exception":
                raise core.MachineryError(x["detail"])
            if dev and x["what"] in ("content", "field-content", "norm"):
                key = KNOWN_KEY[dev]
            else:
                key = "C14:%s:%s" % (case["kind"], x["what"])
            ctx.violation(key, "%s: %s" % (cid, x), case)
        if dev and not mm:
            ctx.note("history with trigger for %s matched the strict spec (finding did not reproduce there): %s" % (dev, cid))
    ctx.extra["histories_with_known_trigger"] = ntrig
    tjobs = [(k_, ctx.seed + i) for k_ in ("tempo", "mf") for i in range(2 if quick else 6)]
    for j, mm in zip(tjobs, core.pmap(truncating_split_job, tjobs)):
        ctx.case({"truncating_split": {"kind": j[0], "seed": j[1]}}, nontrivial=True)
        for x in mm:
            ctx.violation("C14:%s:%s" % (j[0], x["what"]), "%s: %s" % (j, x), {"truncating_split": list(j)})
    # ---- code -> spec: traces of the repository's own test-suite and of a randomised driver, validated by TLC
    from harness import trace_validate
    trace_validate.run(ctx, "C14")
    ctx.rule = ("every history of Stepper.tla of exactly MaxCalls API calls (compute(target) with any target order, "
                "get, restart) x every injected transient failure point x every set of pre-control steps (chains); "
                "non-trivial = contains at least one compute/restart")
    ctx.exhaustive = True
    ctx.assumptions += ["trace validation (TraceRun.tla): every public compute call made by the repository's own tests (quick: "
                        "tests/coverage, thorough: also tests/physics) and by a randomised driver (decimal / off-grid / repeated / "
                        "decreasing targets, transient failures) is one event; times in ticks of 1e-4, other times only get the "
                        "target-free rules; a corrupted copy of the trace must be rejected (binding self-test)",
                        "content equality is decided against an uninterrupted run of a fresh object (tolerance 1e-9)",
                        "failure = exception raised by the user's Hamiltonian, Lindblad rate, Lindblad operator (TEMPO; chosen by the "
                        "failing step) or field equation, fired once"]


def replay(ctx, rep):
    core._init_worker()
    case = rep["case"]
    if "truncating_split" in case:
        ctx.case({"replay": True})
        for x in truncating_split_job(tuple(case["truncating_split"])):
            ctx.violation("C14:replay:" + x["what"], str(x), case)
        return
    if "trace_events" in case:
        from harness import trace_validate
        trace_validate.replay(ctx, case, "C14")
        return
    mm = replay_case(case)
    ctx.case({"kind": case["kind"], "hist": case["hist"]})
    for x in mm:
        ctx.violation("C14:%s:%s" % (case["kind"], x["what"]), str(x), case)
