r"""C07 - multi-time correlations are exact and aligned with the returned time axes.

Two specifications:
 * specs/Correlations.tla - declarative meaning of every time specification (int,
   float, slice incl. negative steps, list in any order, float interval in either
   direction), the n-dimensional result array with NaN exactly at non-time-ordered
   index tuples, and a model of the scheduling/filtering algorithm; TLC checks
   algorithm = declaration for every tuple of specifications over the grid and emits
   the expected index axes and, per entry, the tuple of times it must belong to.
 * specs/PTContract.tla - exact value of the multi-time correlation of the joint
   system + ancilla evolution (operator insertions as left/right multiplications).
The harness joins both: entry [i, j, ..] of the real compute_correlations(_nt) result
must equal the exact correlation for the times the spec assigns to it (Gaussian-prime
valued diagonal operators make every time tuple's value distinct), NaN elsewhere, and
the returned axes must be start + dt * idx.
"""
import json

import numpy as np

from harness import core, probes, ptc_engine as eng

NCPU_HALF = max(2, core.NCPU // 2)

LEVEL = "model_checking"

CORR_CFG = """
INIT Init
NEXT Next
INVARIANT AlgorithmMatchesDeclaration
INVARIANT NaNExactly
INVARIANT AlignedWithAxes
INVARIANT EmitCase
"""
PTC_CFG = """
INIT Init
NEXT Next
INVARIANT Injective
INVARIANT EmitCase
"""
C_DIAG = np.array([3 + 1j, 1 + 6j, 5 + 4j, 2 + 7j])
DT = 0.25


def spec_to_py(sp, start):
    k = sp["k"]
    if k == "int":
        return int(sp["v"])
    if k == "float":
        return float(start + sp["q"] * DT / 4)
    if k == "slice":
        f = lambda x: None if x == 99 else int(x)
        return slice(f(sp["a"]), f(sp["b"]), f(sp["s"]))
    if k == "list":
        return [int(x) for x in sp["v"]]
    if k == "ival":
        return (float(start + sp["q1"] * DT / 4), float(start + sp["q2"] * DT / 4))
    raise ValueError(k)


def measure(rec, rho0, d, m, diag):
    """Tr(O rho) for the reduced state given as a term list and a diagonal operator O."""
    st = eng.expected_state(rec, rho0, d, m)
    return np.sum(np.diag(st) * diag[:d])


def value_tables(ptc_cases, rho0):
    """correlation values keyed by (mode, time tuple)."""
    vals = {}
    for c in ptc_cases:
        d, m = c["d"], c["m"]
        ctl = sorted(c["ctl"], key=lambda x: x[3])
        ids = tuple(x[2] for x in ctl)
        ts = tuple(x[0] for x in ctl)
        for tl, rec in enumerate(c["recs"]):
            if ids == (4,) and tl >= ts[0]:
                vals[("ord", ts[0], tl)] = measure(rec, rho0, d, m, eng.B_DIAG)      # <B(tl) A(ta)>
            if ids == (8,) and tl >= ts[0]:
                vals[("anti", ts[0], tl)] = measure(rec, rho0, d, m, eng.A_DIAG)     # Tr(A(tl) rho B(tb))
            if ids == (4, 8) and ts[0] <= ts[1] <= tl:
                vals[("3op", ts[0], ts[1], tl)] = measure(rec, rho0, d, m, C_DIAG)
            if ids == (4, 9) and ts[0] <= ts[1] <= tl:
                vals[("3lll", ts[0], ts[1], tl)] = measure(rec, rho0, d, m, C_DIAG)   # <C(tl) K(t2) A(t1)>, all from the left
            if ids == (4, 8, 9) and ts[0] <= ts[1] <= ts[2] <= tl:
                vals[("4op", ts[0], ts[1], ts[2], tl)] = measure(rec, rho0, d, m, C_DIAG)
    return vals


def run_corr(job):
    import oqupy
    case, mode, base, seed, start = job["case"], job["mode"], job["base"], job["seed"], job["start"]
    d, m, n = base["d"], base["m"], base["n"]
    rho0 = probes.generic_rho(d, seed)
    vals = job["vals"]
    out = []
    specs = probes.norm_seq(case["specs"])
    pys = [spec_to_py(sp, start) for sp in specs]
    a_op, b_op, c_op = np.diag(eng.A_DIAG[:d]), np.diag(eng.B_DIAG[:d]), np.diag(C_DIAG[:d])
    if not case["error"] and any(len(probes.norm_seq(x)) == 0 for x in probes.norm_seq(case["idx"])):
        return []          # an empty selection: the property says nothing about it
    try:
        system = eng.build_system(base)
        pt = eng.build_pts(base, {}, DT)[0]
        if mode == "ord":
            times, corr = oqupy.compute_correlations(system, pt, a_op, b_op, pys[0], pys[1],
                                                     time_order="ordered", initial_state=rho0,
                                                     start_time=start, progress_type="silent")
        elif mode == "anti":
            # first spec = times of B (acts first, from the right), second = times of A
            times, corr = oqupy.compute_correlations(system, pt, a_op, b_op, pys[1], pys[0],
                                                     time_order="anti", initial_state=rho0,
                                                     start_time=start, progress_type="silent")
            times = [times[1], times[0]]
            corr = corr.T
        elif mode == "3op":
            times, corr = oqupy.compute_correlations_nt(system, pt, [a_op, b_op, c_op], pys,
                                                        ["left", "right", "left"], initial_state=rho0,
                                                        start_time=start, progress_type="silent")
        elif mode == "3lll":
            times, corr = oqupy.compute_correlations_nt(system, pt, [a_op, eng.k_operator(d), c_op], pys,
                                                        ["left", "left", "left"], initial_state=rho0,
                                                        start_time=start, progress_type="silent")
        else:
            times, corr = oqupy.compute_correlations_nt(system, pt, [a_op, b_op, eng.k_operator(d), c_op], pys,
                                                        ["left", "right", "left", "left"], initial_state=rho0,
                                                        start_time=start, progress_type="silent")
    except IndexError as ex:
        if case["error"]:
            return []
        return [{"what": "unexpected-IndexError", "detail": str(ex)[:100]}]
    except Exception as ex:  # pylint: disable=broad-except
        return [{"what": "exception", "detail": "%s: %s" % (type(ex).__name__, str(ex)[:160])}]
    if case["error"]:
        return [{"what": "out-of-range-accepted"}]
    seen = getattr(system, "start_times", None) or []
    if any(abs(x - start) > 1e-12 for x in seen):
        # the dynamics would sample a time-dependent system at times that do not belong to the returned axes
        return [{"what": "system-propagators-requested-for-wrong-start-time", "expected": start, "observed": seen[:3]}]
    idx = [probes.norm_seq(x) for x in probes.norm_seq(case["idx"])]
    if any(len(i) == 0 for i in idx):
        return []          # an empty selection: the property says nothing about it
    for k, (tk, ik) in enumerate(zip(times, idx)):
        want = start + DT * np.array(ik, dtype=float)
        if len(tk) != len(ik) or (len(ik) and np.max(np.abs(np.array(tk) - want)) > 1e-12):
            out.append({"what": "axis", "operator": k, "expected": list(want), "observed": list(map(float, tk))})
            return out
    if tuple(corr.shape) != tuple(len(i) for i in idx):
        return [{"what": "shape", "observed": list(corr.shape)}]
    for pos, tt in probes.norm_seq(case["entries"]):
        p = tuple(int(x) - 1 for x in pos)
        got = corr[p]
        if len(tt) == 0:
            if not np.isnan(got):
                out.append({"what": "not-nan", "pos": list(p), "observed": str(got)})
                break
        else:
            want = vals[(mode,) + tuple(tt)]
            if np.isnan(got) or abs(got - want) > 1e-9 * max(1.0, abs(want)):
                out.append({"what": "value", "pos": list(p), "times": list(tt), "expected": str(want),
                            "observed": str(got)})
                break
    return out


def run_dt(job):
    """The caller's dt must govern the time axes and the dynamics."""
    import oqupy
    import warnings
    from oqupy.process_tensor import SimpleProcessTensor
    pt_dt, dt = job
    seen = []

    class Rec(oqupy.System):
        def get_propagators(self, dt, start_time, subdiv_limit, epsrel):
            seen.append(dt)
            return super().get_propagators(dt, start_time, subdiv_limit, epsrel)

    p = SimpleProcessTensor(2, dt=pt_dt)
    for k in range(3):
        p.set_mpo_tensor(k, np.eye(4).reshape(1, 1, 4, 4))
    p.compute_caps()
    sz = np.diag([1.0, -1.0])
    try:
        with warnings.catch_warnings():
            warnings.simplefilter("ignore")
            times, _ = oqupy.compute_correlations(Rec(0.5 * np.array([[0, 1], [1, 0]])), p, sz, sz, 1, slice(None),
                                                  initial_state=np.diag([1.0, 0.0]), dt=dt,
                                                  progress_type="silent")
    except Exception as ex:  # pylint: disable=broad-except
        return [{"what": "caller-dt-rejected", "detail": "%s: %s" % (type(ex).__name__, str(ex)[:80])}]
    want = dt if dt is not None else pt_dt
    out = []
    if abs(times[1][1] - times[1][0] - want) > 1e-12:
        out.append({"what": "axes-dt", "expected": want, "observed": float(times[1][1] - times[1][0])})
    if any(abs(x - want) > 1e-12 for x in seen):
        out.append({"what": "dynamics-dt", "expected": want, "observed": seen})
    return out


def bath_dynamics_job(job):
    """Numerical (not decided by the specification): bath-mode occupation and two-time bath correlations
    of a pure-dephasing model against the displaced-oscillator closed form, for every order of the
    requests (the system-correlation matrix is extended incrementally between requests)."""
    import oqupy
    from oqupy import bath_dynamics
    order, temp = job
    sz = np.diag([0.5, -0.5])
    corr = oqupy.PowerLawSD(alpha=0.3, zeta=1.0, cutoff=2.0, cutoff_type="exponential", temperature=temp)
    bath = oqupy.Bath(sz, corr)
    params = oqupy.TempoParameters(dt=0.1, epsrel=1e-9, dkmax=None)
    pt = oqupy.PtTempo(bath, 0.0, 0.81, params).get_process_tensor(progress_type="silent")
    b = bath_dynamics.TwoTimeBathCorrelations(oqupy.System(0.7 * np.diag([1.0, -1.0])), bath, pt,
                                              initial_state=np.array([[0.6, 0.3], [0.3, 0.4]]))
    w = 1.3
    jw = corr.spectral_density(w)

    def alpha(t):          # displacement of the mode: g O int_0^t exp(-i w (t - s)) ds, O = 1/2
        return -1j * np.sqrt(jw) * 0.5 * (1 - np.exp(-1j * w * t)) / (1j * w)
    nth = 0.0 if temp == 0 else 1.0 / (np.exp(w / temp) - 1.0)
    out = []
    for req in order:
        if req == "occ":
            for change_only in (True, False):
                t, occ = b.occupation(w, change_only=change_only, progress_type="silent")
                ref = jw * 0.25 * 2 * (1 - np.cos(w * t)) / w ** 2 + (0.0 if change_only else nth)
                if np.max(np.abs(occ - ref)) > 1e-7:
                    out.append({"what": "occupation", "change_only": change_only, "err": float(np.max(np.abs(occ - ref)))})
        else:
            t1, t2 = req
            # a(t) = a exp(-i w t) + alpha(t): every ordering of daggers has a closed form; the free part contributes
            # n(w) exp(+i w (t2 - t1)) to <a+ a> and (n(w) + 1) exp(-i w (t2 - t1)) to <a a+>
            a1, a2 = alpha(t1), alpha(t2)
            refs = {(1, 0): (np.conj(a2) * a1, nth * np.exp(1j * w * (t2 - t1))),
                    (0, 1): (a2 * np.conj(a1), (nth + 1) * np.exp(-1j * w * (t2 - t1))),
                    (1, 1): (np.conj(a2) * np.conj(a1), 0.0),
                    (0, 0): (a2 * a1, 0.0)}
            for dagg, (disp, free) in refs.items():
                for change_only in (True, False):
                    c = b.correlation(w, t1, time_2=t2, dagg=dagg, change_only=change_only, progress_type="silent")
                    ref = disp + (0.0 if change_only else free)
                    if abs(c - ref) > 1e-7:
                        out.append({"what": "bath-correlation", "times": [t1, t2], "dagg": list(dagg),
                                    "change_only": change_only, "err": float(abs(c - ref))})
    return out


SC_CFG = """SPECIFICATION Spec
INVARIANT Square
INVARIANT Covers
INVARIANT Aligned
PROPERTY Monotone
"""
SC_PRIMES = [2.0, 3.0, 5.0, 7.0, 11.0, 13.0, 17.0, 19.0, 23.0]
_SC_FRESH = {}


def _sc_setup(n, mode):
    import oqupy
    from oqupy.process_tensor import SimpleProcessTensor
    dt = 0.1
    rot = None
    if mode.endswith("+rot"):          # everything written in another basis: the coupling operator is not diagonal
        mode = mode[:-4]
        rot = probes.haar_unitary(n + 1 if mode == "td" else 2 * n + 1, 3, "syscache")
    if mode == "td":          # one position per step
        d = n + 1
        sysm = probes.clock_system("td", d, 1, 0, dt, 0.0, rot=rot)
        pos = lambda k: k % d
    else:                     # time-independent: one position per half step
        d = 2 * n + 1
        sysm = probes.clock_system("static", d, 1, 1, dt, 0.0, rot=rot)
        pos = lambda k: (2 * k) % d
    op = np.diag(SC_PRIMES[:d])
    if rot is not None:
        op = rot @ op @ rot.conj().T
        op = (op + op.conj().T) / 2
    corr = oqupy.PowerLawSD(alpha=0.3, zeta=1.0, cutoff=2.0, cutoff_type="exponential", temperature=0.5)
    bath = oqupy.Bath(op, corr)
    pt = SimpleProcessTensor(d, dt=dt)
    for k in range(n):
        pt.set_mpo_tensor(k, np.eye(d * d).reshape(1, 1, d * d, d * d))
    pt.compute_caps()
    rho = np.zeros((d, d), dtype=complex)
    rho[0, 0] = 1.0
    if rot is not None:
        rho = rot @ rho @ rot.conj().T
    val = lambda i, j: SC_PRIMES[pos(i)] * SC_PRIMES[pos(j)]
    return sysm, bath, pt, rho, val, dt


def _sc_matrix(n0, val):
    m = np.full((n0, n0), np.nan + 1j * np.nan, dtype=complex)
    for i in range(n0):
        for j in range(i, n0):
            m[i, j] = val(i, j)
    return m


def _sc_request(b, h, dt):
    if h["op"] == "gen":
        b.generate_system_correlations(h["q2"] * dt / 4, progress_type="silent")
        return None
    if h["op"] == "occ":
        return b.occupation(1.3, progress_type="silent")[1]
    return np.array([b.correlation(1.3, h["q1"] * dt / 4, freq_2=0.9, time_2=h["q2"] * dt / 4, dagg=dagg,
                                   progress_type="silent") for dagg in ((1, 0), (0, 0))])


def syscache_job(job):
    """Replay one history of SysCorrCache.tla on a real TwoTimeBathCorrelations object (clock system, prime-valued
    coupling operator: entry (i, j) of the stored matrix decodes to the pair of time steps it belongs to)."""
    from oqupy import bath_dynamics
    case, n, mode = job
    sysm, bath, pt, rho, val, dt = _sc_setup(n, mode)
    n0 = case["start"]
    kw = {"system_correlations": _sc_matrix(n0, val)} if n0 > 0 else {}
    try:
        b = bath_dynamics.TwoTimeBathCorrelations(sysm, bath, pt, initial_state=rho.copy(), **kw)
        for k, h in enumerate(case["hist"]):
            got = _sc_request(b, h, dt)
            mat = np.asarray(b._system_correlations)            # pylint: disable=protected-access
            if mat.shape != (h["rows"], h["cols"]):
                return [{"what": "stored-shape", "step": k, "expected": [h["rows"], h["cols"]], "observed": list(mat.shape)}]
            want = probes.norm_seq(h["mat"])
            for i in range(h["rows"]):
                row = probes.norm_seq(want[i])
                for j in range(h["cols"]):
                    e = row[j]
                    if e[0] == 99:
                        if not np.isnan(mat[i, j]):
                            return [{"what": "stored-not-nan", "step": k, "pos": [i, j], "observed": str(mat[i, j])}]
                    elif np.isnan(mat[i, j]) or abs(mat[i, j] - val(e[0], e[1])) > 1e-9:
                        return [{"what": "stored-entry", "step": k, "pos": [i, j], "expected_times": list(e),
                                 "observed": str(mat[i, j])}]
            if got is not None:
                key = (n, mode, h["op"], h["q1"], h["q2"])
                if key not in _SC_FRESH:
                    fresh = bath_dynamics.TwoTimeBathCorrelations(sysm, bath, pt, initial_state=rho.copy())
                    _SC_FRESH[key] = _sc_request(fresh, h, dt)
                ref = _SC_FRESH[key]
                if got.shape != ref.shape or not np.allclose(got, ref, rtol=0, atol=1e-11 * max(1.0, np.max(np.abs(ref)))):
                    return [{"what": "answer-depends-on-history", "step": k, "op": h["op"], "q": [h["q1"], h["q2"]],
                             "err": float(np.max(np.abs(got - ref))) if got.shape == ref.shape else "shape"}]
    except Exception as ex:  # pylint: disable=broad-except
        import traceback
        return [{"what": "exception", "detail": "%s: %s" % (type(ex).__name__, str(ex)[:160]),
                 "tb": traceback.format_exc()[-500:]}]
    return []


def occupation_axis_job(job):
    """The time axis returned with the bath occupations has one entry per occupation: start + k dt, k = 0..N, for every
    (dt, N) - the grid must not be built by floating-point accumulation up to an end time."""
    import oqupy
    from oqupy import bath_dynamics
    from oqupy.process_tensor import SimpleProcessTensor
    dt, ns = job
    sz = np.diag([0.5, -0.5])
    corr = oqupy.PowerLawSD(alpha=0.3, zeta=1.0, cutoff=2.0, cutoff_type="exponential", temperature=0.0)
    bath = oqupy.Bath(sz, corr)
    out = []
    for n in ns:
        pt = SimpleProcessTensor(2, dt=dt)
        for k in range(n):
            pt.set_mpo_tensor(k, np.eye(4).reshape(1, 1, 4, 4))
        pt.compute_caps()
        b = bath_dynamics.TwoTimeBathCorrelations(oqupy.System(0.7 * np.diag([1.0, -1.0])), bath, pt,
                                                  initial_state=np.array([[0.6, 0.3], [0.3, 0.4]]))
        for freq in (1.3, 0.0):
            t, occ = b.occupation(freq, progress_type="silent")
            if len(t) != len(occ) or len(t) != n + 1:
                out.append({"what": "occupation-axis-length", "dt": dt, "N": n, "freq": freq, "expected": n + 1,
                            "observed": [len(t), len(occ)]})
            elif np.max(np.abs(np.asarray(t) - dt * np.arange(n + 1))) > 1e-12:
                out.append({"what": "occupation-axis-values", "dt": dt, "N": n, "freq": freq})
    return out


def spec_sets(n, rich):
    ints = '{[k |-> "int", v |-> x] : x \\in 0..%d}' % (n + 1)
    qs = sorted({4 * i + o for i in range(n + 1) for o in (-1, 0, 1)} - {-1})
    floats = '{[k |-> "float", q |-> x] : x \\in {%s}}' % ",".join(map(str, qs + [4 * n + 3]))
    slices = ('{[k |-> "slice", a |-> x, b |-> y, s |-> z] : x \\in {99,0,1,%d}, y \\in {99,0,2,%d,%d}, '
              'z \\in {99,2,-1,-2}}' % (n, n, n + 1))
    lists = '{[k |-> "list", v |-> x] : x \\in {<<0,1,2,3>>, <<3,2,1,0>>, <<2,0,3>>, <<1,1>>, <<3>>, <<0,%d>>, <<1,3,0,2>>}}' % (n + 2)
    ivals = '{[k |-> "ival", q1 |-> x, q2 |-> y] : x \\in {0,5,%d}, y \\in {1,4,%d,%d}}' % (4 * n, 4 * n - 1, 4 * n + 1)
    if rich:
        return " \\cup ".join([ints, floats, slices, lists, ivals])
    return ('{[k |-> "slice", a |-> 99, b |-> 99, s |-> 99], [k |-> "slice", a |-> 99, b |-> 99, s |-> -1], '
            '[k |-> "list", v |-> <<3,1,0>>], [k |-> "list", v |-> <<0,2,3>>], [k |-> "ival", q1 |-> 12, q2 |-> 0], '
            '[k |-> "ival", q1 |-> 3, q2 |-> 9], [k |-> "int", v |-> 1], [k |-> "float", q |-> 7]}')


def run(ctx):
    quick = ctx.tier == "quick"
    n = 3
    # ---- exact correlation values from the joint-evolution reference semantics
    ctl = ("{ {<<t, FALSE, 4, 1, \"int\">>} : t \\in 0..%d } \\cup { {<<t, FALSE, 8, 1, \"int\">>} : t \\in 0..%d } "
           "\\cup { {<<t, FALSE, 4, 1, \"int\">>, <<u, FALSE, 8, 2, \"int\">>} : t \\in 0..%d, u \\in 0..%d }"
           "\\cup { {<<t, FALSE, 4, 1, \"int\">>, <<u, FALSE, 9, 2, \"int\">>} : t \\in 0..%d, u \\in 0..%d }"
           "\\cup { {<<t, FALSE, 4, 1, \"int\">>, <<u, FALSE, 8, 2, \"int\">>, <<v, FALSE, 9, 3, \"int\">>} : "
           "t \\in 0..%d, u \\in 0..%d, v \\in 0..%d }" % (n, n, n, n, n, n, n, n, n))
    bases = []
    def plan(nsteps, h1, h2, envs):
        items = []
        for r_ in range(nsteps):
            items.append('<<"h1", %d, %s>>' % (r_, h1))
            items.append('<<"env", %d, 1, "%s">>' % (r_, envs[r_ % len(envs)]))
            items.append('<<"h2", %d, %s>>' % (r_, h2))
        return "<<" + ", ".join(items) + ">>"
    for label, consts in [
            ("values: 4-level system + 4-level ancilla (controlled shifts / phases)",
             {"D": "4", "EDims": "<<4>>", "A0": "<<1>>", "N": str(n), "M": "8",
              "SysGates": "{<<1,2>>,<<0,3>>}", "EnvGates": '{"CSP","SC"}',
              "FixedPlan": plan(n, "<<1,2>>", "<<0,3>>", ["CSP", "SC", "CSP"])}),
            ("values: 4-level system + 4-level ancilla (SWAP memory)",
             {"D": "4", "EDims": "<<4>>", "A0": "<<2>>", "N": str(n), "M": "8",
              "SysGates": "{<<1,2>>,<<0,3>>}", "EnvGates": '{"SW","CS"}',
              "FixedPlan": plan(n, "<<1,2>>", "<<0,3>>", ["CS", "SW", "SW"])}),
            # a coherence-preserving environment (the ancilla only steers the system): needed where an operator
            # acts on one side only and the value must survive the trace over the ancilla
            ("values: 4-level system + classical ancilla (controlled phase / shift)",
             {"D": "4", "EDims": "<<4>>", "A0": "<<1>>", "N": str(n), "M": "8",
              "SysGates": "{<<1,2>>,<<0,3>>}", "EnvGates": '{"CP"}',
              "FixedPlan": plan(n, "<<1,2>>", "<<0,3>>", ["CP", "CP", "CP"])})]:
        r = ctx.tlc("PTContract", PTC_CFG, label=label, workers=4,
                    constants=dict(consts, Controls=ctl, Devs="{}", Dephase="FALSE", Emit="TRUE"))
        d = int(consts["D"])
        rho0 = probes.generic_rho(d, ctx.seed)
        vals = value_tables(r.cases, rho0)
        base = dict(r.cases[0], ctl=[], recs=[])
        bases.append((base, vals))
        # discriminating power: distinct time tuples must have distinct values
        for mode in (("ord", "anti", "3op") if len(bases) < 3 else ("3lll", "4op")):
            vs = [v for k, v in vals.items() if k[0] == mode]
            if min(abs(a - b) for i, a in enumerate(vs) for b in vs[i + 1:]) < 1e-6:
                raise core.MachineryError("correlation values do not identify the time tuple (%s, %s)" % (label, mode))
    # ---- time specifications
    rich = spec_sets(n, True)
    small = spec_sets(n, False)
    consts2 = {"N": str(n), "SpecSets": "<<%s, %s>>" % (rich, rich), "Devs": "{}", "Emit": "TRUE"}
    two = ctx.tlc("Correlations", CORR_CFG, label="2 operators, all pairs of specifications", constants=consts2, workers=1)
    for dev in ("TailIndices",):
        r = ctx.tlc("Correlations", CORR_CFG, label="deviation %s (must violate)" % dev, must_hold=False, workers=4,
                    constants=dict(consts2, Devs='{"%s"}' % dev, Emit="FALSE"))
        if r.ok:
            raise core.MachineryError("deviation %s not distinguished" % dev)
    consts3 = {"N": str(n), "SpecSets": "<<%s, %s, %s>>" % (small, small, small), "Devs": "{}", "Emit": "TRUE"}
    three = ctx.tlc("Correlations", CORR_CFG, label="3 operators", constants=consts3, workers=1)
    jobs = []
    stride = 4 if quick else 1
    for i, case in enumerate(two.cases):
        if i % stride == 0:
            jobs.append({"case": case, "mode": "ord", "bi": i % 2})
        if i % (3 * stride) == 1:
            jobs.append({"case": case, "mode": "anti", "bi": (i // 3) % 2})
    for i, case in enumerate(three.cases):
        if i % (2 if quick else 1) == 0:
            jobs.append({"case": case, "mode": "3op", "bi": i % 2})
        if i % (2 if quick else 1) == 1 or not quick:
            jobs.append({"case": case, "mode": "3lll", "bi": (i // 2) % 2})
    tiny = ('{[k |-> "slice", a |-> 99, b |-> 99, s |-> 99], [k |-> "list", v |-> <<3,1,0>>], [k |-> "list", v |-> <<2,3>>], '
            '[k |-> "int", v |-> 1], [k |-> "ival", q1 |-> 12, q2 |-> 4]}')
    four = ctx.tlc("Correlations", CORR_CFG, label="4 operators", workers=1,
                   constants={"N": str(n), "SpecSets": "<<%s, %s, %s, %s>>" % (tiny, tiny, tiny, tiny), "Devs": "{}",
                              "Emit": "TRUE"})
    for i, case in enumerate(four.cases):
        if i % (3 if quick else 1) == 0:
            jobs.append({"case": case, "mode": "4op", "bi": i % 2})
    for jn, j in enumerate(jobs):
        base, vals = bases[2 if j["mode"] in ("3lll", "4op") else j.pop("bi")]
        j.pop("bi", None)
        j.update(base=base, vals=vals, seed=ctx.seed, start=(0.0, 0.5, -0.75)[jn % 3])
    res = core.pmap(run_corr, jobs, chunksize=16)
    for job, mm in zip(jobs, res):
        cid = {"mode": job["mode"], "specs": job["case"]["specs"], "d": job["base"]["d"]}
        nontrivial = (not job["case"]["error"]) and any(len(e[1]) == 0 for e in probes.norm_seq(job["case"]["entries"]))
        ctx.case(cid, nontrivial=nontrivial)
        for x in mm:
            ctx.violation("C07:%s:%s" % (job["mode"], x["what"]), "%s: %s" % (cid, x),
                          {"case": job["case"], "mode": job["mode"], "base": job["base"], "start": job["start"]})
    # ---- the caller's dt
    dt_jobs = [(None, 0.1), (0.2, None), (0.2, 0.2), (0.2, 0.1)]
    for j, mm in zip(dt_jobs, core.pmap(run_dt, dt_jobs)):
        ctx.case({"pt_dt": j[0], "caller_dt": j[1]}, nontrivial=True)
        for x in mm:
            key = "C07:dt:%s:%s" % ("pt-has-none" if j[0] is None else "pt-has-different-dt", x["what"])
            ctx.violation(key, "%s: %s" % (j, x), {"dt_job": list(j)})
    # ---- bath dynamics derived from system correlations (numerical cross-check)
    import itertools
    reqs = ["occ", (0.2, 0.4), (0.4, 0.8)]
    bjobs = [(list(p), temp) for p in itertools.permutations(reqs) for temp in (0.0, 0.8)]
    # the very first request on a fresh object, at the earliest possible times (one step)
    bjobs += [([(0.1, 0.1)], 0.0), ([(0.1, 0.1), "occ", (0.1, 0.2)], 0.8), ([(0.1, 0.2)], 0.8)]
    for j, mm in zip(bjobs, core.pmap(bath_dynamics_job, bjobs)):
        ctx.case({"bath_dynamics_requests": [str(x) for x in j[0]], "T": j[1]}, nontrivial=True)
        for x in mm:
            ctx.violation("C07:bath-dynamics:%s" % x["what"], "%s: %s" % (j, x), {"bath_dynamics": [[str(r) for r in j[0]], j[1]]})
    # ---- time axis of the bath occupations over a lattice of (dt, N)
    nmax_occ = 30 if quick else 60
    ojobs = [(dtv, list(range(lo, min(lo + 6, nmax_occ + 1)))) for dtv in (0.1, 0.05, 0.2, 0.3, 0.01, 0.25, 0.07)
             for lo in range(1, nmax_occ + 1, 6)]
    for j, mm in zip(ojobs, core.pmap(occupation_axis_job, ojobs)):
        for n_ in j[1]:
            ctx.case({"occupation_axis": {"dt": j[0], "N": n_}}, nontrivial=True)
        for x in mm:
            ctx.violation("C07:bath-dynamics:%s" % x["what"], str(x), {"occupation_axis": [x["dt"], [x["N"]]]})
    # ---- the incremental store of system correlations behind bath_dynamics (SysCorrCache.tla)
    scn = 3 if quick else 4
    sc_consts = {"N": str(scn), "MaxReq": "2" if quick else "3", "Supplied": "{0, 2}" if quick else "{0, 1, 3}",
                 "Dev": '"none"', "Emit": "TRUE"}
    for dev in ("onerow", "tail"):
        r = ctx.tlc("SysCorrCache", SC_CFG, label="deviation %s (must violate)" % dev, must_hold=False, workers=4,
                    constants=dict(sc_consts, Dev='"%s"' % dev, Emit="FALSE"))
        if r.ok:
            raise core.MachineryError("SysCorrCache deviation %s not distinguished" % dev)
    if quick:
        sc = ctx.tlc("SysCorrCache", SC_CFG, label="all histories of 2 requests, N=3", constants=sc_consts, workers=4)
        sc_cases = sc.cases
    else:
        ctx.tlc("SysCorrCache", SC_CFG, label="all histories of 3 requests, N=4 (properties)",
                constants=dict(sc_consts, Emit="FALSE"), workers=NCPU_HALF)
        sc = ctx.tlc("SysCorrCache", SC_CFG, label="sampled histories of 3 requests, N=4", constants=sc_consts, workers=1,
                     simulate="num=6000", extra=["-depth", "5", "-seed", str(1000 + ctx.seed)])
        seen_h, sc_cases = set(), []
        for c in sc.cases:
            hk = json.dumps(c, sort_keys=True)
            if hk not in seen_h:
                seen_h.add(hk)
                sc_cases.append(c)
    sjobs = [(c, scn, ("td", "static", "td+rot", "static+rot")[i % 4]) for i, c in enumerate(sc_cases)]
    for j, mm in zip(sjobs, core.pmap(syscache_job, sjobs, chunksize=16)):
        hd = [[h["op"], h["q1"], h["q2"]] for h in j[0]["hist"]]
        ctx.case({"syscache": hd, "supplied": j[0]["start"], "system": j[2]},
                 nontrivial=len({h["m"] for h in j[0]["hist"]}) > 1 or j[0]["start"] > 0)
        for x in mm:
            ctx.violation("C07:syscache:%s" % x["what"], "supplied=%d %s (%s): %s" % (j[0]["start"], hd, j[2], x),
                          {"syscache": j[0], "n": scn, "system": j[2]})
    ctx.rule = ("tuples of time specifications enumerated by TLC (Correlations.tla; all pairs of %d-ish specifications for two "
                "operators - every %dth pair replayed in this tier - and all triples of 8 for three operators) on ancilla "
                "process tensors with memory; non-trivial = result contains at least one NaN entry" % (112, stride))
    ctx.exhaustive = not quick
    ctx.assumptions += ["operators are diagonal with Gaussian-prime entries (values identify the time tuple; checked)",
                        "bath occupations / two-time bath correlations (bath_dynamics.py): numerical cross-check against the displaced-oscillator closed form for a pure-dephasing model (1e-7), all request orders"]


def replay(ctx, rep):
    core._init_worker()
    c = rep["case"]
    if "dt_job" in c:
        mm = run_dt(tuple(c["dt_job"]))
    elif "syscache" in c:
        mm = syscache_job((c["syscache"], c["n"], c["system"]))
    elif "occupation_axis" in c:
        mm = occupation_axis_job(tuple(c["occupation_axis"]))
    else:
        # value tables are rebuilt from the spec
        raise core.MachineryError("replay of correlation cases: rerun the check (value tables come from TLC)")
    ctx.case(c)
    for x in mm:
        ctx.violation("C07:replay:" + x["what"], str(x), c)
