r"""C17 - an interrupted process-tensor file is never mistaken for a complete one.

Spec: specs/PTFile.tla - abstract HDF5 content updated by every file operation of the
writer, write-back (Flush) possible at any time, Crash possible after any operation;
reader classification error / warn / clean.  The spec is driven by the trace of file
operations recorded from the real writer (export() of hand-built process tensors and a
file-backed PT-TEMPO run) through an h5py proxy:
 (A) conformance: TLC must consume the whole trace with every operation legal, the
     writing flag raised before any data set exists, and the closed file clean and
     without holes;
 (B) crash model: TLC explores every Crash x Flush point along the trace and checks
     CrashNeverClean / CleanCloseComplete;
 (C) the same crash points are realised on the real code: a child process flushes after
     operation f and dies (os._exit) after operation k; the parent imports the surviving
     file (both import types) and its classification must lie in the set the spec allows
     and must never be "clean".
Mode matrix (write / overwrite / read x existing / missing, remove()) is stated in the
spec (ModeTable) and replayed.
"""
import json
import os
import shutil
import subprocess
import tempfile
import warnings

import numpy as np

from harness import core

LEVEL = "model_checking"

CFG_CONF = """
INIT Init
NEXT Step
INVARIANT FlagCoversData
INVARIANT CleanCloseComplete
INVARIANT EmitCase
POSTCONDITION TraceAccepted
"""
WARN_CFG = """SPECIFICATION Spec
INVARIANT FirstOpenVisible
INVARIANT CleanSilent
INVARIANT EmitCase
"""
CFG_CRASH = """
INIT Init
NEXT Next
INVARIANT CrashNeverClean
INVARIANT CleanCloseComplete
INVARIANT FlagCoversData
"""


def child(scen, path, crash, flush, trace_out="-", mode="kill", fail_step=0, version=""):
    env = dict(os.environ, PYTHONPATH=core.REPO + ":" + core.VERIF, OMP_NUM_THREADS="1", VERIF_CRASH_MODE=mode,
               VERIF_FAIL_STEP=str(fail_step), VERIF_FAKE_VERSION=version)
    p = subprocess.run([core.PY, "-m", "harness.ptfile_child", scen, path, str(crash), str(flush), trace_out],
                       env=env, cwd=core.VERIF, stdout=subprocess.PIPE, stderr=subprocess.STDOUT, text=True,
                       timeout=300)
    return p.returncode, p.stdout[-800:]


def classify(path, version=""):
    """Import the file with both import types: error / warn / clean (+ content summary).  `version`: the release number the
    reading library reports (writer and reader of the same, other than the present, release)."""
    import oqupy
    import oqupy.process_tensor as ptmod
    saved_version = ptmod.__version__
    if version:
        ptmod.__version__ = version
    try:
        return _classify(path, oqupy)
    finally:
        ptmod.__version__ = saved_version


def _classify(path, oqupy):
    out = {}
    for typ in ("file", "simple"):
        with warnings.catch_warnings(record=True) as w:
            warnings.simplefilter("always")
            try:
                pt = oqupy.import_process_tensor(path, typ)
            except Exception as ex:  # pylint: disable=broad-except
                out[typ] = {"cls": "error", "detail": type(ex).__name__}
                continue
            warned = any("may be corrupt" in str(x.message) for x in w)
            info = {"cls": "warn" if warned else "clean"}
            try:
                n = len(pt)
                info["len"] = n
                info["readable"] = all(pt.get_mpo_tensor(i) is not None for i in range(n))
                info["caps"] = sum(1 for i in range(n + 2) if pt.get_cap_tensor(i) is not None)
            except Exception as ex:  # pylint: disable=broad-except
                info["readable"] = False
                info["detail"] = type(ex).__name__
            if typ == "file":
                pt.close()
            out[typ] = info
    return out


def crash_job(job):
    scen, k, f, allowed, tmpdir, full = job[:6]
    mode = job[6] if len(job) > 6 else "kill"
    fail_step = job[7] if len(job) > 7 else 0
    version = job[8] if len(job) > 8 else ""
    path = os.path.join(tmpdir, "crash_%s_%d_%d_%s_%d_%s.h5" % (scen, k, f, mode, fail_step, version.replace(".", "_")))
    rc, outp = child(scen, path, k, f, mode=mode, fail_step=fail_step, version=version)
    res = []
    if fail_step and rc == 0:
        if os.path.exists(path):
            os.remove(path)
        return [{"what": "not-reached"}]      # the run has fewer propagation steps: nothing was interrupted
    if rc != 17:
        return [{"what": "harness", "detail": "child rc=%s %s" % (rc, outp[-200:])}]
    if not os.path.exists(path):
        return []          # nothing on disk: opening fails trivially
    cl = classify(path, version)
    os.remove(path)
    for typ, info in cl.items():
        if info["cls"] == "clean":
            # allowed only in the final window (flag lowered, nothing left to write) and only
            # if the content is complete, i.e. identical to that of the normally closed file
            if "clean" in allowed and all(info.get(x) == full[typ].get(x) for x in ("len", "readable", "caps")):
                continue
            res.append({"what": "interrupted-file-opens-clean", "import": typ, "info": info})
        elif info["cls"] not in allowed:
            res.append({"what": "outcome-not-allowed-by-spec", "import": typ, "observed": info["cls"],
                        "allowed": sorted(allowed)})
    return res


SESSION_WRITER = """
import sys, os, numpy as np
from oqupy.process_tensor import FileProcessTensor
pt = FileProcessTensor(mode='write', filename=sys.argv[1], hilbert_space_dimension=2, dt=0.1)
pt.set_mpo_tensor(0, np.eye(4).reshape(1, 1, 4, 4))
if sys.argv[2] == 'clean':
    pt.set_mpo_tensor(1, np.eye(4).reshape(1, 1, 4, 4))
    pt.compute_caps()
    pt.close()
else:
    pt._f.flush()
    os._exit(0)
"""
SESSION_READER = """
import sys
import oqupy
for spec in sys.argv[1:]:
    typ, path = spec.split(':', 1)
    pt = oqupy.import_process_tensor(path, typ)
    print('OPENED', path, len(pt))
    if typ == 'file':
        pt.close()
"""


def session_job(job):
    """A reader SESSION: one interpreter with Python's default warning filters opens several files one after the other (a
    script walking a directory of results).  Every interrupted file it opens must fail or produce a warning the user can
    see - also the second, third, ... one."""
    tmpdir, plan = job[0], job[1]    # plan: list of (kind, import type, file id); kind 'flagged' / 'clean'
    want_shown = job[2] if len(job) > 2 else None
    env = dict(os.environ, PYTHONPATH=core.REPO, OMP_NUM_THREADS="1")
    env.pop("PYTHONWARNINGS", None)
    files = {}
    tag = "%d_%d" % (os.getpid(), abs(hash(repr(plan))) % 10 ** 8)
    for kind, _typ, fid in plan:
        if fid in files:
            continue
        path = os.path.join(tmpdir, "session_%s_%s_%d.h5" % (tag, kind, fid))
        p = subprocess.run([core.PY, "-c", SESSION_WRITER, path, kind], env=env, stdout=subprocess.PIPE, stderr=subprocess.STDOUT,
                           text=True, timeout=300)
        if p.returncode != 0 or not os.path.exists(path):
            return [{"what": "harness", "detail": "session writer: rc=%s %s" % (p.returncode, p.stdout[-200:])}]
        files[fid] = path
    p = subprocess.run([core.PY, "-c", SESSION_READER] + ["%s:%s" % (typ, files[fid]) for _k, typ, fid in plan],
                       env=env, stdout=subprocess.PIPE, stderr=subprocess.PIPE, text=True, timeout=300)
    opened = [ln.split()[1] for ln in p.stdout.splitlines() if ln.startswith("OPENED")]
    shown = p.stderr.count("may be corrupt")
    out = []
    flagged_files = {files[fid] for kind, _t, fid in plan if kind == "flagged" and files[fid] in opened}
    # the specification's count (one visible warning per interrupted file, at its first open) is a lower bound: a library
    # that says more is not wrong
    need = len(flagged_files) if want_shown is None else max(want_shown, len(flagged_files))
    if shown < need:
        out.append({"what": "interrupted-file-opens-without-visible-warning", "plan": [list(x) for x in plan],
                    "interrupted_files_opened": len(flagged_files), "warnings_required": need, "warnings_shown": shown})
    if len(opened) != len(plan):
        out.append({"what": "file-not-opened", "opened": len(opened), "of": len(plan), "stderr": p.stderr[-300:]})
    for path in files.values():
        if os.path.exists(path):
            os.remove(path)
    return out


def mode_job(job):
    import oqupy
    from oqupy.process_tensor import FileProcessTensor
    row, tmpdir = job[:2]
    late = len(job) > 2 and job[2]     # the existing file appears at the last moment: another writer completes it
    #                                    between any existence test of this writer and its opening of the file
    mode, existing, named, out = row["mode"], row["existing"], row["named"], row["out"]
    res = []
    path = os.path.join(tmpdir, "mode_%s_%s_%s_%s.h5" % (mode, existing, named, late))
    if not named and mode == "read":
        return []                         # read needs a name
    kind = existing
    existing = kind != "no"
    if late and kind != "complete":
        return []
    if not named and existing:
        return []                         # a temporary name never collides with an existing file
    marker = None
    import oqupy.process_tensor as ptmod
    real_h5py = ptmod.h5py
    state = {"marker": None, "err": None}

    def other_writer():
        rc, outp = child("export2", path, 0, 0)
        if rc != 0:
            state["err"] = outp[-200:]
            return
        state["marker"] = open(path, "rb").read()
    if existing and not late:
        if kind == "garbage":
            with open(path, "wb") as f_:
                f_.write(b"not an hdf5 file\n" * 40)
            state["marker"] = open(path, "rb").read()
        else:
            other_writer()
            if kind == "flagged" and not state["err"]:
                with real_h5py.File(path, "r+") as f_:
                    f_.attrs["writing"] = True
                state["marker"] = open(path, "rb").read()
    if existing and late:
        class LateProxy:
            def File(self, filename, *a, **kw):
                if os.path.abspath(str(filename)) == os.path.abspath(path) and state["marker"] is None and not state["err"]:
                    other_writer()
                return real_h5py.File(filename, *a, **kw)

            def __getattr__(self, k):
                return getattr(real_h5py, k)
        ptmod.h5py = LateProxy()
    if state["err"]:
        return [{"what": "harness", "detail": state["err"]}]
    opened = True
    pt = None
    try:
        if mode == "read":
            import warnings
            with warnings.catch_warnings():
                warnings.simplefilter("ignore")
                pt = FileProcessTensor(mode="read", filename=path)
        else:
            pt = FileProcessTensor(mode=mode, filename=path if named else None, hilbert_space_dimension=2)
    except Exception as ex:  # pylint: disable=broad-except
        opened = False
    finally:
        ptmod.h5py = real_h5py
    if state["err"]:
        return [{"what": "harness", "detail": state["err"]}]
    marker = state["marker"]
    if existing and late and marker is None:
        return [{"what": "harness", "detail": "the writer never opened the file"}]
    if opened != out["opens"]:
        res.append({"what": "open-outcome", "expected": out["opens"], "observed": opened})
    if existing and out["intact"]:
        if not os.path.exists(path):
            res.append({"what": "existing-file-deleted"})
            return res
        if open(path, "rb").read() != marker:
            res.append({"what": "existing-file-modified"})
    if pt is not None:
        fname = pt.filename
        try:
            if out["removable"] and named:
                pt.close()           # closing first (also twice) must not take the entitlement away
                pt.close()
            pt.remove()
            removed = not os.path.exists(fname)
        except FileExistsError:
            removed = False
            if out.get("refusalKeeps") and mode != "read":
                # the refusal must not have closed the file (which would also lower the writing flag of an incomplete file)
                try:
                    pt.set_mpo_tensor(0, np.eye(4).reshape(1, 1, 4, 4))
                    pt.close()
                except Exception as ex:  # pylint: disable=broad-except
                    res.append({"what": "refused-remove-closed-the-file", "detail": "%s: %s" % (type(ex).__name__, str(ex)[:80])})
        except Exception as ex:  # pylint: disable=broad-except
            removed = "exception %s" % type(ex).__name__
        if removed != out["removable"]:
            res.append({"what": "remove-outcome", "expected": out["removable"], "observed": removed})
        if os.path.exists(fname) and not named:
            os.remove(fname)
    return res


SCENARIOS_QUICK = ["export2", "pttempo3", "ptcompute3", "stream2"]
SCENARIOS_THOROUGH = ["export2", "export3", "export1nocaps", "export2T", "pttempo3", "pttempo4D", "ptcompute3", "stream2", "stream3"]


def run(ctx):
    quick = ctx.tier == "quick"
    tmpdir = tempfile.mkdtemp(prefix="vptf_")
    try:
        jobs = []
        modes = None
        for scen in (SCENARIOS_QUICK if quick else SCENARIOS_THOROUGH):
            path = os.path.join(tmpdir, scen + ".h5")
            tr = os.path.join(tmpdir, scen + ".json")
            rc, outp = child(scen, path, 0, 0, tr)
            if rc != 0:
                raise core.MachineryError("writer scenario %s failed: %s" % (scen, outp))
            events = json.load(open(tr))
            env = {"TRACE_FILE": tr}
            # (A) conformance of the real writer trace + properties on the crash-free path
            ra = ctx.tlc("PTFile", CFG_CONF, label="%s: trace conformance (%d file operations)" % (scen, len(events)),
                         constants={"Devs": "{}", "Emit": "TRUE"}, workers=1, env=env, must_hold=False)
            ctx.case({"scenario": scen, "trace_events": len(events), "check": "trace accepted by PTFile.tla"})
            if not ra.ok:
                why = ra.violated or ("trace not accepted" if "TraceAccepted" in ra.raw or "Postcondition" in ra.raw
                                      else "rejected")
                ctx.violation("C17:%s:trace:%s" % (scen.rstrip("0123456789TD"), why),
                              "writer trace of %s violates the protocol specification: %s" % (scen, why),
                              {"scenario": scen, "events": events})
            # (B) crash x flush exploration on the spec
            rb = ctx.tlc("PTFile", CFG_CRASH, label="%s: crash x flush exploration" % scen,
                         constants={"Devs": "{}", "Emit": "FALSE"}, workers=4, env=env, must_hold=False)
            if not rb.ok:
                ctx.violation("C17:%s:model:%s" % (scen.rstrip("0123456789TD"), rb.violated),
                              "crash model on the real trace of %s: %s violated" % (scen, rb.violated),
                              {"scenario": scen, "events": events})
            # adequacy: the identity-test deviation must be caught
            rd = ctx.tlc("PTFile", CFG_CRASH, label="%s: deviation FlagIdentityTest (must violate)" % scen,
                         constants={"Devs": '{"FlagIdentityTest"}', "Emit": "FALSE"}, workers=4, env=env,
                         must_hold=False)
            if rd.ok:
                raise core.MachineryError("deviation FlagIdentityTest not distinguished")
            if not ra.cases:
                continue
            rec = ra.cases[0]
            modes = rec["modes"]
            cls = ["error"] + list(rec["cls"])          # cls[j] = class of the prefix of length j
            nev = len(events) - 1                         # crash before the final close
            # (C) crash experiments on the real code
            # the complete, closed file
            full = classify(path)
            ctx.case({"scenario": scen, "check": "closed file opens clean and complete"})
            for typ, info in full.items():
                if info["cls"] != "clean" or not info.get("readable"):
                    ctx.violation("C17:%s:closed-file-not-clean" % scen.rstrip("0123456789TD"),
                                  "%s import of the normally closed file: %s" % (typ, info), {"scenario": scen})
            for k in range(1, nev + 1):
                fs = {0, k, max(1, k - 1), max(1, k // 2)} if quick else set(range(0, k + 1))
                for f in sorted(fs):
                    allowed = set(cls[f:k + 1]) | {"error"}
                    jobs.append((scen, k, f, allowed, tmpdir, full))
                # the writer is interrupted by an exception at operation k (KeyboardInterrupt, MemoryError, ..):
                # the stack unwinds and the interpreter shuts down normally, which flushes everything written so
                # far - but close() of the protocol was never reached, so the file must still not open clean
                if quick and k % 3:
                    continue
                jobs.append((scen, k, k, set(cls[k:k + 1]) | {"error", "warn"}, tmpdir, full, "raise"))
            # the same library at another release number (writer and reader alike): the protocol does not depend on it
            if scen == "export2":
                for ver in (("0.10.0",) if quick else ("0.10.0", "0.9.3", "1.0.0", "0.49.2", "2.0.0")):
                    for k in range(2, nev + 1, 3 if quick else 1):
                        jobs.append((scen, k, k, set(cls[k:k + 1]) | {"error", "warn"}, tmpdir, full, "raise", 0, ver))
            # ... or between file operations: in the j-th propagation step of a file-backed PT-TEMPO run (the file
            # exists, the flag is up, nothing may declare it complete while the stack unwinds)
            if scen.startswith("pt"):
                nsteps = int("".join(ch for ch in scen if ch.isdigit()))
                for j in range(1, nsteps + 2):
                    jobs.append((scen, 0, 0, {"error", "warn"}, tmpdir, full, "raise", j))
        # (A') code -> spec with drivers nobody wrote for this purpose: every file the repository's own tests write
        suites = ["tests/coverage"] + ([] if quick else ["tests/physics"])
        trf = os.path.join(tmpdir, "repo_traces.json")
        env2 = dict(os.environ, VERIF_PTFILE_TRACES=trf, PYTHONPATH=core.VERIF + ":" + core.REPO, OMP_NUM_THREADS="1")
        subprocess.run([core.PY, "-m", "pytest", "-q", "-p", "no:cacheprovider", "-p", "harness.ptfile_plugin", "-x"] + suites,
                       cwd=core.REPO, env=env2, stdout=subprocess.PIPE, stderr=subprocess.STDOUT, timeout=3000, check=False)
        repo_traces = [t for t in (json.load(open(trf)) if os.path.exists(trf) else []) if t["events"]]
        if not repo_traces:
            raise core.MachineryError("no process-tensor file was written while the repository's tests ran")
        for ti, t in enumerate(repo_traces):
            tr = os.path.join(tmpdir, "repo_%d.json" % ti)
            json.dump(t["events"], open(tr, "w"))
            for cfg_, what in ((CFG_CONF, "trace"), (CFG_CRASH, "model")):
                rr = ctx.tlc("PTFile", cfg_, label="repository tests, file %s (%d operations): %s" % (t["file"], len(t["events"]), what),
                             constants={"Devs": "{}", "Emit": "FALSE"}, workers=2, env={"TRACE_FILE": tr}, must_hold=False)
                if not rr.ok:
                    why = rr.violated or "trace not accepted"
                    ctx.violation("C17:repo-tests:%s:%s" % (what, why), "file %s written by the repository's tests: %s" % (t["file"], why),
                                  {"scenario": "repo-tests", "events": t["events"]})
            ctx.case({"scenario": "repository tests", "file": t["file"], "trace_events": len(t["events"])})
        res = core.pmap(crash_job, jobs, chunksize=2)
        for job, mm in zip(jobs, res):
            scen, k, f = job[0], job[1], job[2]
            how = job[6] if len(job) > 6 else "kill"
            if len(job) > 7 and job[7]:
                how = "raise in propagation step %d" % job[7]
            if len(job) > 8:
                how += ", release %s" % job[8]
            ctx.case({"scenario": scen, "crash_after_op": k, "flush_after_op": f, "death": how}, nontrivial=f > 0)
            for x in mm:
                if x["what"] == "harness":
                    raise core.MachineryError(x["detail"])
                if x["what"] == "not-reached":
                    if job[7] == 1:
                        raise core.MachineryError("propagation-step interruption never reached in %s" % scen)
                    continue
                ctx.violation("C17:%s:%s" % (scen.rstrip("0123456789TD"), x["what"]),
                              "%s after op %d, flush after op %d: %s" % (how, k, f, x),
                              {"scenario": scen, "crash": k, "flush": f, "death": job[6] if len(job) > 6 else "kill",
                               "fail_step": job[7] if len(job) > 7 else 0})
        # mode matrix
        mjobs = [(row, tmpdir, False) for row in (modes or [])]
        mjobs += [(row, tmpdir, True) for row in (modes or []) if row["existing"] == "complete" and row["named"] and row["mode"] != "read"]
        for (row, _, late), mm in zip(mjobs, core.pmap(mode_job, mjobs)):
            ctx.case({"mode": row["mode"], "existing": row["existing"], "named": row["named"], "appears_in_the_last_moment": late})
            for x in mm:
                if x["what"] == "harness":
                    raise core.MachineryError(x["detail"])
                ctx.violation("C17:modes:%s%s" % (x["what"], ":race" if late else ""), "%s late=%s: %s" % (row, late, x),
                              {"mode_row": row, "late": late})
        # reader sessions: several files opened one after the other in one interpreter with default warning filters
        # (specs/WarnSession.tla: every history of opens over two interrupted files and a clean one, with the number of
        # warnings that must reach the error stream; the deviation SameText - one text for all files - must violate)
        wconsts = {"Files": "{1, 2, 3}", "Flagged": "{1, 2}", "MaxOpens": "3" if quick else "4"}
        wdev = ctx.tlc("WarnSession", WARN_CFG, label="reader sessions, deviation SameText (must violate)", workers=2, must_hold=False,
                       constants=dict(wconsts, Dev='"SameText"', Emit="FALSE"))
        if wdev.ok:
            raise core.MachineryError("WarnSession.tla: deviation SameText satisfies FirstOpenVisible")
        wr = ctx.tlc("WarnSession", WARN_CFG, label="reader sessions", workers=2, constants=dict(wconsts, Dev='"none"', Emit="TRUE"))
        plans = []
        for ci, c in enumerate(wr.cases):
            h = [int(x) for x in c["hist"]]
            plans.append(([("flagged" if f in (1, 2) else "clean", ("file", "simple")[(i + ci) % 2], f) for i, f in enumerate(h)], int(c["shown"])))
        sjobs = [(tmpdir, pl, shown) for pl, shown in plans]
        for (_, pl, _shown), mm in zip(sjobs, core.pmap(session_job, sjobs)):
            ctx.case({"reader_session": [list(x) for x in pl]}, nontrivial=sum(1 for x in pl if x[0] == "flagged") >= 2)
            for x in mm:
                if x["what"] == "harness":
                    raise core.MachineryError(x["detail"])
                ctx.violation("C17:session:%s" % x["what"], "%s" % x, {"session": [list(x_) for x_ in pl]})
    finally:
        shutil.rmtree(tmpdir, ignore_errors=True)
    ctx.rule = ("for each writer scenario: the recorded h5py operation trace validated by TLC; every crash point k "
                "(after each file operation before close) x flush points f (quick: none, k, k-1, k/2; thorough: all f <= k) "
                "realised in a child process; non-trivial = a flush happened before the crash (file can be opened)")
    ctx.exhaustive = not quick
    ctx.assumptions += ["process death = os._exit after the h5py call returns; HDF5 write-back = explicit flush at the "
                        "chosen point (HDF5 may also write back on its own: the spec allows every prefix between f and k)"]


def replay(ctx, rep):
    c = rep["case"]
    tmpdir = tempfile.mkdtemp(prefix="vptf_")
    try:
        if "crash" in c:
            mm = crash_job((c["scenario"], c["crash"], c["flush"], {"error", "warn"}, tmpdir, {}, c.get("death", "kill"),
                            c.get("fail_step", 0)))
            for x in mm:
                ctx.violation("C17:replay:" + x["what"], str(x), c)
        if "session" in c:
            for x in session_job((tmpdir, [tuple(x) for x in c["session"]])):
                ctx.violation("C17:replay:" + x["what"], str(x), c)
        if "mode_row" in c:
            core._init_worker()
            for x in mode_job((c["mode_row"], tmpdir, c.get("late", False))):
                ctx.violation("C17:replay:" + x["what"], str(x), c)
        ctx.case(c)
    finally:
        shutil.rmtree(tmpdir, ignore_errors=True)
