r"""C10 - PT-TEBD chain dynamics are exact where checkable, in every execution mode.

Spec: specs/Chain.tla - chains whose gates commute (density-density couplings, diagonal
site fields, ancilla environments per site, single-site controls) as exact monomial
dynamics stepped exactly like PtTebd.initialize/compute_step, with the gates of a layer
completing in any order.  TLC checks OrderIndependent (every completion order of a layer
gives the same chain state), NormOne and consistency of the recorded reduced states, and
emits the reduced state of every recorded site subset after every step.
Binding: real PtTebd runs (Trotter order 1 and 2, lengths 2..4, sites with and without
ancilla process tensors, rank-3/rank-4 MPOs) are compared subset by subset and in norm;
the sequence of gate layers the backend applies is compared with the spec's layers;
parallel modes 'multithread' / 'multiprocess' run in fresh interpreters (real pools) and
with an order-controlled executor realising different completion orders.  Uncoupled
chains are compared with single-site compute_dynamics runs, two-site chains with
non-commuting couplings with the dense propagator of the full Liouvillian (numerical).
"""
import json
import os
import subprocess
import tempfile

import numpy as np

from harness import core, probes, chain_engine as ce

LEVEL = "model_checking"

CFG = """
INIT Init
NEXT Next
INVARIANT OrderIndependent
INVARIANT NormOne
INVARIANT Consistent
INVARIANT EmitCase
"""


def tla_seq(xs):
    return "<<" + ", ".join(str(x) for x in xs) + ">>"


def tla_strs(xs):
    return "<<" + ", ".join('"%s"' % x for x in xs) + ">>"


def subsets_tla(ss):
    return "{" + ", ".join(tla_seq(s) for s in ss) + "}"


def config(nsites, d, ed, n, m, order, j, h, envplan, a0, ctl, subsets, par):
    return {"L": str(nsites), "D": str(d), "ED": str(ed), "N": str(n), "M": str(m), "Order": str(order),
            "J": tla_seq(j), "H": tla_seq(h),
            "EnvPlan": "<<" + ", ".join(tla_strs(row) for row in envplan) + ">>",
            "A0": tla_seq(a0), "Ctl": ctl, "Subsets": subsets_tla(subsets),
            "ParallelMode": "TRUE" if par else "FALSE", "Emit": "TRUE"}


def inprocess_job(job):
    case, seed = job
    try:
        return ce.run_inprocess(case, seed)
    except Exception as ex:  # pylint: disable=broad-except
        import traceback
        return [{"what": "exception", "detail": "%s: %s" % (type(ex).__name__, str(ex)[:160]),
                 "tb": traceback.format_exc()[-400:]}]


def child_job(job):
    case, mode, order, seed = job
    fd, path = tempfile.mkstemp(prefix="vchain_", suffix=".json")
    try:
        with os.fdopen(fd, "w") as f:
            json.dump(case, f)
        env = dict(os.environ, PYTHONPATH=core.REPO + ":" + core.VERIF, OMP_NUM_THREADS="1")
        p = subprocess.run([core.PY, "-m", "harness.chain_engine", path, mode, order, str(seed)], env=env,
                           cwd=core.VERIF, stdout=subprocess.PIPE, stderr=subprocess.PIPE, text=True, timeout=600)
        for line in p.stdout.splitlines():
            if line.startswith("RESULT "):
                return json.loads(line[7:])
        return [{"what": "child-failed", "detail": (p.stdout + p.stderr)[-300:]}]
    finally:
        os.remove(path)


def generic_mode_job(job):
    mode, epsrel, seed = job
    env = dict(os.environ, PYTHONPATH=core.REPO + ":" + core.VERIF, OMP_NUM_THREADS="1")
    p = subprocess.run([core.PY, "-m", "harness.chain_engine", "generic", mode, repr(epsrel), str(seed)], env=env,
                       cwd=core.VERIF, stdout=subprocess.PIPE, stderr=subprocess.PIPE, text=True, timeout=900)
    for line in p.stdout.splitlines():
        if line.startswith("RESULT "):
            return json.loads(line[7:])
    return {"error": (p.stdout + p.stderr)[-300:]}


def uncoupled_job(job):
    """J = 0: every site must evolve exactly as the single-site computation with the same process tensor."""
    import oqupy
    case, seed = job
    out = []
    try:
        tebd, rhos, dyn_sites = ce.build(case, seed)
        res = tebd.compute(case["n"], progress_type="silent")
        d, m = case["d"], case["m"]
        tau = ce.DT / 2
        from harness import ptc_engine as eng
        for i in range(case["l"]):
            if i not in res["dynamics"]:
                continue
            hi = -(2 * np.pi * case["h"][i] / (m * tau)) * np.diag(np.array(ce.PHI[:d], dtype=float))
            names = [case["envplan"][r][i] for r in range(case["n"])]
            pt = None
            if not all(nm == "I" for nm in names):
                sub = {"d": d, "m": m, "n": case["n"], "edims": [case["ed"]], "a0": [case["a0"][i]],
                       "plan": [["env", r, 1, names[r]] for r in range(case["n"])]}
                pt = eng.build_pts(sub, {}, ce.DT)[0]
            kw = {} if pt is not None else {"dt": ce.DT, "num_steps": case["n"]}
            dyn = oqupy.compute_dynamics(oqupy.System(hi), initial_state=rhos[i], process_tensor=pt,
                                         progress_type="silent", **kw)
            a = np.array(res["dynamics"][i].states)
            b = np.array(dyn.states)
            if np.max(np.abs(a - b)) > 1e-9:
                out.append({"what": "uncoupled-site-differs", "site": i, "err": float(np.max(np.abs(a - b)))})
    except Exception as ex:  # pylint: disable=broad-except
        out.append({"what": "exception", "detail": "%s: %s" % (type(ex).__name__, str(ex)[:160])})
    return out


def twosite_job(job):
    """numerical: a two-site chain with a generic (non-commuting) coupling equals the dense propagator; the two sites may
    have different dimensions"""
    import oqupy
    from scipy.linalg import expm
    seed, order, n = job[:3]
    da, db = (job[3], job[4]) if len(job) > 3 else (2, 2)
    from harness import probes
    r = probes.rng_for(seed, "twosite", order, da, db)

    def herm(k):
        a = r.normal(size=(k, k)) + 1j * r.normal(size=(k, k))
        return (a + a.conj().T) / 2

    def gen(k):
        return r.normal(size=(k, k)) + 1j * r.normal(size=(k, k))
    h0, h1 = herm(da), herm(db)
    cl, cr = herm(da), herm(db)
    cl2, cr2 = herm(da), herm(db)
    lind = gen(db)
    gamma = 0.3
    chain = oqupy.SystemChain([da, db])
    chain.add_site_hamiltonian(0, h0)
    chain.add_site_hamiltonian(1, h1)
    chain.add_nn_hamiltonian(0, cl, cr)
    chain.add_nn_hamiltonian(0, cl2, cr2)
    chain.add_site_dissipation(1, lind, gamma)
    # a two-site dissipator with generic complex (non-normal) operators on both sites
    nl, nr = gen(da), gen(db)
    gamma2 = 0.2
    chain.add_nn_dissipation(0, nl, nr, gamma2)
    rho_a, rho_b = probes.generic_rho(da, seed), probes.generic_rho(db, seed + 1)
    tebd = oqupy.PtTebd(oqupy.AugmentedMPS([rho_a.copy(), rho_b.copy()]), chain, [None, None],
                        oqupy.PtTebdParameters(dt=ce.DT, order=order, epsrel=1e-13), dynamics_sites=[(0, 1), 0, 1])
    res = tebd.compute(n, progress_type="silent")
    # dense reference
    dd = da * db
    ia, ib = np.eye(da), np.eye(db)
    hfull = np.kron(h0, ib) + np.kron(ia, h1) + np.kron(cl, cr) + np.kron(cl2, cr2)
    a = np.kron(ia, lind)

    def lsup(op):
        return np.kron(op, np.eye(dd))

    def rsup(op):
        return np.kron(np.eye(dd), op.T)
    liou = -1j * (lsup(hfull) - rsup(hfull)) + gamma * (lsup(a) @ rsup(a.conj().T)
                                                        - 0.5 * lsup(a.conj().T @ a) - 0.5 * rsup(a.conj().T @ a))
    a2 = np.kron(nl, nr)
    liou = liou + gamma2 * (lsup(a2) @ rsup(a2.conj().T) - 0.5 * lsup(a2.conj().T @ a2) - 0.5 * rsup(a2.conj().T @ a2))
    rho = np.kron(rho_a, rho_b).reshape(-1)
    out = []
    for k in range(n + 1):
        want = (expm(liou * ce.DT * k) @ rho).reshape(dd, dd)
        got = np.array(res["dynamics"][(0, 1)].states[k])
        if got.shape != want.shape or np.max(np.abs(got - want)) > 1e-8:
            out.append({"what": "two-site-propagator", "step": k, "dims": [da, db],
                        "err": float(np.max(np.abs(got - want))) if got.shape == want.shape else "shape"})
            break
        w4 = want.reshape(da, db, da, db)
        pa = np.trace(w4, axis1=1, axis2=3)
        pb = np.trace(w4, axis1=0, axis2=2)
        if np.max(np.abs(np.array(res["dynamics"][0].states[k]) - pa)) > 1e-8 or \
                np.max(np.abs(np.array(res["dynamics"][1].states[k]) - pb)) > 1e-8:
            out.append({"what": "partial-trace", "step": k, "dims": [da, db]})
            break
        if abs(res["norm"][k] - 1) > 1e-9:
            out.append({"what": "norm", "step": k})
            break
    return out


def run(ctx):
    quick = ctx.tier == "quick"
    ctl2 = '{<<0, FALSE, 1, 2, 1>>, <<1, TRUE, 2, 5, 2>>, <<1, TRUE, 2, 3, 3>>, <<2, FALSE, 1, 2, 4>>}'
    configs = [
        ("3 sites, order 2, ancilla on site 2", config(3, 2, 2, 2, 8, 2, [1, 3], [1, 0, 2],
         [["I", "CSP", "I"], ["I", "SC", "I"]], [0, 1, 0], "{}", [[1], [2], [3], [1, 2], [2, 3], [1, 3], [1, 2, 3]], True)),
        ("3 sites, order 1, two ancillas, controls", config(3, 2, 2, 2, 8, 1, [2, 1], [0, 1, 1],
         [["SW", "I", "CS"], ["SC", "I", "CSP"]], [1, 0, 1], ctl2, [[1], [2], [3], [1, 2], [1, 2, 3]], True)),
        ("2 qutrit sites, order 2", config(2, 3, 3, 2, 6, 2, [1], [1, 2],
         [["SC", "CSP"], ["CSP", "SW"]], [2, 1], "{}", [[1], [2], [1, 2]], True)),
        ("4 sites, order 2, no environments", config(4, 2, 2, 2, 8, 2, [1, 2, 3], [1, 0, 1, 2],
         [["I"] * 4, ["I"] * 4], [0, 0, 0, 0], "{}", [[1], [4], [2, 3], [1, 4], [1, 2, 3, 4]], True)),
        ("3 sites uncoupled, ancillas", config(3, 2, 2, 3, 8, 2, [0, 0], [1, 2, 3],
         [["SC", "CSP", "I"], ["SW", "SC", "I"], ["CS", "SW", "I"]], [1, 1, 0], "{}", [[1], [2], [3], [1, 3]], False)),
        # homogeneous chains: several bonds have bit-identical Liouvillians (gate construction must not confuse them)
        ("3 sites, equal couplings, no site terms", config(3, 2, 2, 2, 8, 2, [1, 1], [0, 0, 0],
         [["I", "I", "I"], ["I", "I", "I"]], [0, 0, 0], "{}", [[1], [2], [3], [1, 2], [2, 3], [1, 2, 3]], True)),
        ("5 sites homogeneous, order 1", config(5, 2, 2, 1, 8, 1, [1, 1, 1, 1], [1, 1, 1, 1, 1],
         [["I"] * 5], [0] * 5, "{}", [[1], [3], [5], [2, 3], [4, 5], [1, 5]], True)),
    ]
    if not quick:
        configs.append(("4 sites, order 1, ancillas, 3 steps", config(4, 2, 2, 3, 8, 1, [1, 1, 2], [1, 1, 0, 2],
                        [["SC", "I", "CSP", "I"], ["I", "SW", "I", "I"], ["CSP", "I", "SC", "I"]], [1, 0, 1, 0], "{}",
                        [[1], [2], [3], [4], [1, 2], [3, 4], [1, 2, 3, 4]], True)))
    if not quick:
        configs.append(("5 sites, order 2, ancillas on sites 2 and 4", config(5, 2, 2, 2, 8, 2, [1, 2, 3, 1], [1, 0, 1, 2, 1],
                        [["I", "CSP", "I", "SC", "I"], ["I", "SC", "I", "CS", "I"]], [0, 1, 0, 1, 0], "{}",
                        [[1], [3], [5], [2, 3], [1, 5], [2, 3, 4]], True)))
        configs.append(("6 sites, order 1, one step", config(6, 2, 2, 1, 8, 1, [1, 2, 3, 1, 2], [1, 0, 1, 2, 1, 3],
                        [["I", "CSP", "I", "I", "SW", "I"]], [0, 1, 0, 0, 1, 0], "{}",
                        [[1], [6], [3, 4], [1, 6]], True)))
    # seed-drawn configurations (lengths, orders, couplings, fields, environment gates, ancilla levels, controls)
    rng = probes.rng_for(ctx.seed, "c10-configs")
    gates = ["I", "SC", "CSP", "SW", "CS"]
    for k in range(12 if quick else 60):
        nsites = int(rng.integers(2, 5))
        nsteps = int(rng.integers(1, 3))
        order = int(rng.integers(1, 3))
        jj = [int(x) for x in rng.integers(0, 4, nsites - 1)]
        hh = [int(x) for x in rng.integers(0, 4, nsites)]
        envs = [int(x) for x in rng.integers(0, 2, nsites)]
        plan = [[gates[int(rng.integers(1, 5))] if envs[i] else "I" for i in range(nsites)] for _ in range(nsteps)]
        a0 = [int(rng.integers(0, 2)) if envs[i] else 0 for i in range(nsites)]
        nctl = int(rng.integers(0, 3))
        ctl = "{" + ", ".join("<<%d, %s, %d, %d, %d>>" % (int(rng.integers(0, nsteps + 1)), ("TRUE", "FALSE")[int(rng.integers(0, 2))],
                                                           int(rng.integers(1, nsites + 1)), (2, 5, 3)[int(rng.integers(0, 3))], c + 1)
                              for c in range(nctl)) + "}"
        subs = [[i] for i in range(1, nsites + 1)] + [[1, nsites]] + ([list(range(1, nsites + 1))] if nsites > 2 else [])
        configs.append(("seed-drawn #%d: %d sites, order %d, %d step(s), J=%s, H=%s, %s, controls %s" % (
            k, nsites, order, nsteps, jj, hh, plan, ctl), config(nsites, 2, 2, nsteps, 8, order, jj, hh, plan, a0, ctl, subs, False)))
    cases = []
    for label, consts in configs:
        r = ctx.tlc("Chain", CFG, label=label, constants=consts, workers=4)
        # the model explores every completion order; all of them end in the same recorded states
        uniq = {json.dumps(c["recs"], sort_keys=True) for c in r.cases}
        if len(uniq) != 1:
            raise core.MachineryError("Chain.tla: completion orders give different results (%s)" % label)
        cases.append((label, r.cases[0], len(r.cases)))
    jobs = [(c, ctx.seed) for _, c, _ in cases]
    for (label, c, norders), mm in zip(cases, core.pmap(inprocess_job, jobs)):
        cid = {"config": label, "mode": "sequential", "completion_orders_in_spec": norders}
        ctx.case(cid, nontrivial=True)
        for x in mm:
            ctx.violation("C10:sequential:%s" % x["what"], "%s: %s" % (cid, x), {"case": c, "mode": "sequential"})
    cj = []
    for ci, (label, c, _) in enumerate(cases):
        if label.startswith("seed-drawn") and ci % 4:
            continue
        for mode, order in (("multithread", "real"), ("multiprocess", "real"), ("multithread", "reverse"),
                            ("multithread", "rotate"), ("multiprocess", "reverse")):
            cj.append((c, mode, order, ctx.seed))
    if quick:
        cj = [j for i, j in enumerate(cj) if i % 5 in (0, 1) or i % 3 == 0]
    for (c, mode, order, _), mm in zip(cj, core.pmap(child_job, cj, workers=6)):
        cid = {"l": c["l"], "order": c["order"], "mode": mode, "executor": order}
        ctx.case(cid, nontrivial=True)
        for x in mm:
            ctx.violation("C10:%s:%s" % (mode, x["what"]), "%s: %s" % (cid, x), {"case": c, "mode": mode, "exec": order})
    # (without control operations: a non-trace-preserving control on one site rescales the reduced states of all others)
    uj = [(c, ctx.seed) for label, c, _ in cases if all(v == 0 for v in c["j"]) and not c["ctl"]]
    for (c, _), mm in zip(uj, core.pmap(uncoupled_job, uj)):
        ctx.case({"uncoupled": True, "l": c["l"]}, nontrivial=True)
        for x in mm:
            ctx.violation("C10:uncoupled:%s" % x["what"], str(x), {"case": c, "mode": "uncoupled"})
    tj = [(ctx.seed, order, 3) for order in (1, 2)] + [(ctx.seed, order, 2, da, db) for order in (1, 2) for da, db in ((2, 3), (3, 2))]
    for j, mm in zip(tj, core.pmap(twosite_job, tj)):
        ctx.case({"two_site_dense": {"order": j[1], "dims": list(j[3:5]) if len(j) > 3 else [2, 2]}}, nontrivial=True)
        for x in mm:
            ctx.violation("C10:two-site:%s" % x["what"], "%s: %s" % (j, x), {"twosite": list(j)})
    # execution modes on a generic entangling chain whose result depends on the truncation threshold
    gj = [(mode, eps, ctx.seed) for eps in (1e-3, 1e-8) for mode in ("none", "multithread", "multiprocess")]
    gres = dict(zip(gj, core.pmap(generic_mode_job, gj, workers=6)))
    for eps in (1e-3, 1e-8):
        ref = gres[("none", eps, ctx.seed)]
        for mode in ("multithread", "multiprocess"):
            got = gres[(mode, eps, ctx.seed)]
            ctx.case({"generic_chain": {"mode": mode, "epsrel": eps}}, nontrivial=True)
            if "error" in got or "error" in ref:
                ctx.violation("C10:%s:generic-chain-exception" % mode, "%s / %s" % (got.get("error"), ref.get("error")),
                              {"generic": [mode, eps]})
                continue
            if got["bond"] != ref["bond"]:
                ctx.violation("C10:%s:modes-differ-bond-dimensions" % mode, "epsrel=%g sequential %s vs %s %s" % (
                    eps, ref["bond"][-1], mode, got["bond"][-1]), {"generic": [mode, eps]})
            elif max(np.max(np.abs(np.array(a) - np.array(b))) for a, b in zip(got["dm"], ref["dm"])) > 1e-10:
                ctx.violation("C10:%s:modes-differ-states" % mode, "epsrel=%g" % eps, {"generic": [mode, eps]})
    # chains assembled incrementally and used in between (ChainBuild.tla: the full bond Liouvillians after every add_* call,
    # Trotter layers and gates at the end): a chain object that was used once must still see terms added afterwards
    from harness.extras import chainbuild
    cb_cases = []
    for n_ in (2, 3):
        rcb = ctx.tlc("ChainBuild", chainbuild.CFG, label="chain assembly, L=%d" % n_, workers=4,
                      constants={"L": str(n_), "NTerms": "2", "MaxOps": "2", "Dev": '"none"', "Emit": "TRUE"})
        cb_cases += rcb.cases[::(2 if quick else 1)]
    for c_, mm in zip(cb_cases, core.pmap(chainbuild.replay_history, cb_cases, chunksize=8)):
        hd = chainbuild.digest(c_)
        ctx.case({"chain_assembly": hd, "L": c_["L"]}, nontrivial=True)
        for x in mm:
            ctx.violation("C10:chain-assembly:%s" % x["what"], "L=%d %s: %s" % (c_["L"], hd, x), {"assembly_case": c_})
    ctx.rule = ("chain configurations of Chain.tla (7-10 fixed and 12 / 60 seed-drawn ones: lengths 2..4, Trotter orders 1/2, ancilla environments, controls; TLC "
                "explores every completion order of every gate layer) x execution modes {sequential, multithread, "
                "multiprocess with real pools in fresh interpreters, order-controlled executor}; uncoupled chains vs "
                "single-site runs; two-site generic chains vs dense propagator (numerical)")
    ctx.exhaustive = False
    ctx.assumptions += ["chains with commuting (density-density) couplings and diagonal site fields; generic Trotterised "
                        "chains against dense propagation are numerical and only covered for two sites"]


def replay(ctx, rep):
    core._init_worker()
    c = rep["case"]
    if "generic" in c:
        a = generic_mode_job(("none", c["generic"][1], rep.get("seed", 0)))
        b = generic_mode_job((c["generic"][0], c["generic"][1], rep.get("seed", 0)))
        ctx.case({"replay": True})
        if a != b:
            ctx.violation("C10:replay:modes-differ", "%s" % c["generic"], c)
        return
    if "assembly_case" in c:
        from harness.extras import chainbuild
        mm = chainbuild.replay_history(c["assembly_case"])
    elif "twosite" in c:
        mm = twosite_job(tuple(c["twosite"]))
    elif c.get("mode") == "sequential":
        mm = inprocess_job((c["case"], rep.get("seed", 0)))
    elif c.get("mode") == "uncoupled":
        mm = uncoupled_job((c["case"], rep.get("seed", 0)))
    else:
        mm = child_job((c["case"], c["mode"], c["exec"], rep.get("seed", 0)))
    ctx.case({"replay": True})
    for x in mm:
        ctx.violation("C10:replay:" + x["what"], str(x), c)
