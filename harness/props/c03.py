r"""C03 - contracting any process tensor reproduces the exact joint evolution.

Spec: specs/PTContract.tla - exact monomial joint dynamics of system + ancilla
environments stepped exactly like compute_dynamics (pre control, record, post control,
half step, environments in list order, half step).  TLC enumerates the per-step gate
choices (system half steps, environment gates incl. SWAP / controlled shifts / controlled
phases, rank-3-able system-diagonal gates), control schedules, 0..3 environments and
emits the reduced state after every step as an exact term list.  The harness builds
real SimpleProcessTensors (rank 3/4 tensors, with/without transforms, caps computed or
set by hand), a real System and Control and compares compute_dynamics entry by entry.
Order independence is asserted only where the spec proves it (system-diagonal gates).
The additivity clause (two baths with the same coupling = one bath with the summed
spectral density) is bound with the Influence.tla probe bath.
"""
import itertools

import numpy as np

from harness import core, ptc_engine as eng, probes

LEVEL = "model_checking"

CFG = """
INIT Init
NEXT Next
INVARIANT Injective
INVARIANT DiagonalStaysDiagonal
INVARIANT Hermitian
INVARIANT EmitCase
"""


def tla_set(xs):
    return "{" + ", ".join(xs) + "}"


def additivity_job(job):
    """Two PT-TEMPO process tensors from probe baths with weights w1, w2 on the same
    coupling operator vs one process tensor with weights w1 + w2."""
    import oqupy
    seed, k, a, n = job
    dt = 0.25
    w = probes.probe_weights(seed, 2 * n + 6)
    r = probes.rng_for(seed, "split", k, a, n)
    frac = 0.2 + 0.6 * r.random(len(w))
    w1, w2 = w * frac, w * (1 - frac)
    coupling = np.diag([0.0, 1.0, 3.0])
    kw = {}
    if k is not None:
        kw["dkmax"] = k
    if a is not None:
        kw["add_correlation_time"] = a * dt
    params = oqupy.TempoParameters(dt=dt, epsrel=1e-15, **kw)
    system = probes.clock_system("static", 3, 1, 1, dt, 0.0)
    rho0 = probes.generic_rho(3, seed)

    def pt(weights):
        bath = oqupy.Bath(coupling, probes.make_probe_sd(weights, dt))
        return oqupy.PtTempo(bath, 0.0, n * dt + dt / 4, params).get_process_tensor(progress_type="silent")
    try:
        d_sum = oqupy.compute_dynamics(system, initial_state=rho0, process_tensor=[pt(w)], progress_type="silent")
        d_two = oqupy.compute_dynamics(system, initial_state=rho0, process_tensor=[pt(w1), pt(w2)], progress_type="silent")
        d_rev = oqupy.compute_dynamics(system, initial_state=rho0, process_tensor=[pt(w2), pt(w1)], progress_type="silent")
    except Exception as ex:  # pylint: disable=broad-except
        return [{"what": "exception", "detail": "%s: %s" % (type(ex).__name__, ex)}]
    out = []
    e1 = np.max(np.abs(np.array(d_sum.states) - np.array(d_two.states)))
    e2 = np.max(np.abs(np.array(d_rev.states) - np.array(d_two.states)))
    if not e1 < 1e-9:
        out.append({"what": "additivity", "err": float(e1)})
    if not e2 < 1e-9:
        out.append({"what": "order", "err": float(e2)})
    return out


PARSE_CFG = """
INIT Init
NEXT Next
INVARIANT Sound
INVARIANT EmitCase
"""


def parse_job(case):
    """accept / reject table of the input rules, replayed into compute_dynamics"""
    import oqupy
    from oqupy.process_tensor import SimpleProcessTensor, TrivialProcessTensor
    dtv = {0: None, 1: 0.25, 2: 0.5}
    pts = []
    for p in probes.norm_seq(case["pts"]):
        d = p["dim"]
        if p["len"] == 99:
            pts.append(TrivialProcessTensor(hilbert_space_dimension=d))
            continue
        pt = SimpleProcessTensor(d, dt=dtv[p["dt"]])
        for k in range(p["len"]):
            pt.set_mpo_tensor(k, np.eye(d * d).reshape(1, 1, d * d, d * d))
        pt.compute_caps()
        pts.append(pt)
    kw = {}
    if case["callerDt"]:
        kw["dt"] = dtv[case["callerDt"]]
    if case["numSteps"]:
        kw["num_steps"] = case["numSteps"]
    want = case["verdict"]
    rho0 = np.array([[0.6, 0.2], [0.2, 0.4]], dtype=complex)
    try:
        dyn = oqupy.compute_dynamics(oqupy.System(0.3 * np.array([[0, 1], [1, 0]])), initial_state=rho0,
                                     process_tensor=pts if pts else None, start_time=0.5, progress_type="silent", **kw)
        ok = True
    except Exception as ex:  # pylint: disable=broad-except
        ok = False
        why = "%s: %s" % (type(ex).__name__, str(ex)[:80])
    if ok != want["ok"]:
        return [{"what": "accepted" if ok else "rejected", "expected_ok": want["ok"], "detail": "" if ok else why}]
    if ok:
        t = np.array(dyn.times)
        if len(t) != want["n"] + 1 or abs((t[1] - t[0]) - dtv[want["dt"]]) > 1e-12:
            return [{"what": "effective-parameters", "expected": [want["n"], dtv[want["dt"]]],
                     "observed": [len(t) - 1, float(t[1] - t[0]) if len(t) > 1 else None]}]
    return []


def run(ctx):
    quick = ctx.tier == "quick"
    pr = ctx.tlc("InputParse", PARSE_CFG, label="input rules for lists of process tensors", workers=4,
                 constants={"MaxPTs": "2" if quick else "3", "Emit": "TRUE"})
    pcases = pr.cases if quick else pr.cases[::3]
    for c, mm in zip(pcases, core.pmap(parse_job, pcases, chunksize=16)):
        cid = {"pts": c["pts"], "caller_dt": c["callerDt"], "num_steps": c["numSteps"]}
        ctx.case(cid, nontrivial=len(c["pts"]) > 0)
        for x in mm:
            ctx.violation("C03:input-rules:%s" % x["what"], "%s: %s" % (cid, x), {"parse": c})
    all_ctl = "{{}}"
    ctl_sets = tla_set([
        "{}",
        '{<<0,FALSE,2,1,"int">>}',
        '{<<1,TRUE,2,1,"int">>, <<1,FALSE,5,2,"int">>}',
        '{<<2,FALSE,3,1,"int">>, <<0,TRUE,5,2,"int">>}',
        '{<<1,FALSE,2,1,"int">>, <<1,FALSE,5,2,"int">>, <<1,FALSE,1,3,"int">>}',
        '{<<0,TRUE,2,1,"int">>, <<2,FALSE,2,2,"int">>}',
    ])
    configs = [
        # label, constants, simulate
        ("1 env, qubit, all gates", {"D": "2", "EDims": "<<2>>", "A0": "<<1>>", "N": "2", "M": "4",
                                       "SysGates": "{<<0,2>>,<<1,2>>}", "EnvGates": '{"I","CS","CP","SC","SW","CSP"}',
                                       "Controls": all_ctl}, None),
        ("1 env, qutrit system, qutrit ancilla", {"D": "3", "EDims": "<<3>>", "A0": "<<2>>", "N": "2", "M": "6",
                                                   "SysGates": "{<<1,2>>,<<2,3>>}", "EnvGates": '{"CS","CP","SC","SW","CSP"}',
                                                   "Controls": all_ctl}, None),
        ("2 envs", {"D": "2", "EDims": "<<2,3>>", "A0": "<<1,2>>", "N": "2", "M": "6",
                    "SysGates": "{<<1,2>>}", "EnvGates": '{"CS","CP","SC","CSP"}', "Controls": all_ctl}, None),
        ("no env, controls", {"D": "3", "EDims": "<<>>", "A0": "<<>>", "N": "2", "M": "6",
                              "SysGates": "{<<1,2>>,<<0,3>>}", "EnvGates": '{"I"}', "Controls": ctl_sets}, None),
        ("1 env, controls", {"D": "2", "EDims": "<<2>>", "A0": "<<0>>", "N": "2", "M": "4",
                             "SysGates": "{<<1,2>>}", "EnvGates": '{"CS","SW","CSP"}', "Controls": ctl_sets}, None),
        # environments without memory (an ancilla of dimension one: every bond of the process tensor has dimension one) and
        # steps in which an environment acts on the system alone - the maps are not symmetric matrices
        ("memoryless environment (unit bonds)", {"D": "3", "EDims": "<<1>>", "A0": "<<0>>", "N": "2", "M": "6",
                                                 "SysGates": "{<<1,2>>}", "EnvGates": '{"SX","I","CP"}', "Controls": ctl_sets}, None),
        ("unit-bond environment next to a qubit ancilla", {"D": "2", "EDims": "<<1,2>>", "A0": "<<0,1>>", "N": "2", "M": "4",
                                                           "SysGates": "{<<1,2>>}", "EnvGates": '{"SX","CS","CSP"}',
                                                           "Controls": '{ {}, {<<1,FALSE,2,1,"int">>} }'}, None),
        ("3 envs (sampled)", {"D": "2", "EDims": "<<2,2,2>>", "A0": "<<1,0,1>>", "N": "3", "M": "4",
                              "SysGates": "{<<1,2>>,<<0,2>>}", "EnvGates": '{"CS","CP","SC","SW","CSP"}',
                              "Controls": ctl_sets}, "num=%d" % (60 if quick else 400)),
    ]
    if not quick:
        configs.append(("1 env, 3 steps", {"D": "2", "EDims": "<<2>>", "A0": "<<1>>", "N": "3", "M": "4",
                                           "SysGates": "{<<0,2>>,<<1,2>>}", "EnvGates": '{"CS","CP","SC","SW","CSP"}',
                                           "Controls": all_ctl}, None))
        configs.append(("2 envs, 3 steps (sampled)", {"D": "3", "EDims": "<<3,2>>", "A0": "<<1,1>>", "N": "3", "M": "6",
                                                      "SysGates": "{<<1,2>>,<<2,3>>}", "EnvGates": '{"CS","CP","SC","SW","CSP"}',
                                                      "Controls": ctl_sets}, "num=500"))
    jobs = []
    for label, consts, sim in configs:
        consts = dict(consts, Emit="TRUE", Devs="{}", FixedPlan="<< >>", Dephase="FALSE")
        if sim:
            r = ctx.tlc("PTContract", CFG, label=label, constants=consts, workers=1,
                        simulate=sim + ",", extra=["-depth", "40", "-seed", str(ctx.seed + 11)], timeout=2400)
        else:
            r = ctx.tlc("PTContract", CFG, label=label, constants=consts, workers=1)
        seen = set()
        prev = None
        for idx, case in enumerate(r.cases):
            hk = repr((case["plan"], case["ctl"]))
            if hk in seen:
                continue
            seen.add(hk)
            env_names = [it[3] for it in case["plan"] if it[0] == "env"]
            all_diag = all(nm in eng.DIAGONAL for nm in env_names)
            vs = [{}]
            if idx % 3 == 0:
                vs.append({"transforms": True})
            if idx % 3 == 1:
                vs.append({"transforms": "scaled"})
            if idx % 3 == 2 and case["edims"]:
                vs.append({"transforms": ("in-only", "out-only")[(idx // 3) % 2]})      # only one of the two transforms
            if any(nm in eng.DIAGONAL for nm in env_names) and idx % 2 == 0:
                vs.append({"rank3": True})
            if idx % 5 == 0 and case["edims"]:
                vs.append({"caps": "by-hand", "start": 0.5, "dt": 0.125})
            if case["ctl"] and idx % 2 == 1:
                vs.append({"float_times": True, "start": -0.75})
            if case["ctl"] and idx % 2 == 0:
                vs.append({"final_only": True})                 # record_all=False: only the final state
            if case["edims"] and idx % 4 == 3:
                vs.append({"container": "file", "layout": "F"})  # through the HDF5 container, tensors not C-contiguous
            if case["edims"] and idx % 4 == 1:
                vs.append({"buffer": True})                     # tensors handed over in a re-used work buffer
            if all_diag and len(case["edims"]) >= 2:
                for perm in itertools.permutations(range(len(case["edims"]))):
                    if list(perm) != sorted(perm):
                        vs.append({"order": list(perm), "rank3": bool(idx % 2)})
            if prev is not None and idx % 4 == 0 and case["edims"] and prev["edims"] == case["edims"] \
                    and prev["n"] == case["n"] and prev["d"] == case["d"]:
                # the same process-tensor objects held other tensors before and were already used once
                vs.append({"first_use": prev, "rank3": True})
            prev = case
            for v in vs:
                jobs.append({"case": case, "variant": v, "seed": ctx.seed})
    results = core.pmap(eng.run_case, jobs, chunksize=8)
    for job, mm in zip(jobs, results):
        c = job["case"]
        vshow = {k: (v if k != "first_use" else "other plan") for k, v in job["variant"].items()}
        cid = {"d": c["d"], "edims": c["edims"], "n": c["n"], "ctl": c["ctl"], "plan": c["plan"], "variant": vshow}
        nontrivial = any(it[0] == "env" and it[3] != "I" for it in c["plan"]) or bool(c["ctl"])
        ctx.case(cid, nontrivial=nontrivial)
        for x in mm:
            key = "C03:%denv:%s%s" % (len(c["edims"]), x["what"], ":order" if job["variant"].get("order") else "")
            ctx.violation(key, "%s: %s" % (cid, x), {"case": c, "variant": job["variant"]})
    # additivity of spectral densities / order independence of commuting baths
    add_jobs = [(ctx.seed, k, a, n) for k in (None, 1, 2) for a in (None, 1) for n in (2, 3)
                if not (k is None and a is not None)]
    for j, mm in zip(add_jobs, core.pmap(additivity_job, add_jobs)):
        ctx.case({"additivity": {"dkmax": j[1], "add_corr": j[2], "N": j[3]}}, nontrivial=True)
        for x in mm:
            ctx.violation("C03:two-baths:" + x["what"], "%s: %s" % (j, x), {"additivity": list(j)})
    ctx.rule = ("behaviours of PTContract.tla (per-step gate choices x control schedules; exhaustive for <= 2 envs and "
                "2 steps, TLC -simulate samples for 3 envs / 3 steps) x presentation variants (rank-3 tensors, transforms, "
                "caps by hand, float control times, list permutations for system-diagonal environments); non-trivial = "
                "at least one non-identity environment gate or a control")
    ctx.exhaustive = False
    ctx.assumptions += ["environments are monomial (permutation x phase) unitaries on system+ancilla; the contraction code "
                        "is linear and index-generic, so leg/transposition/order errors are visible on them; non-monomial "
                        "environments are covered through the PT-TEMPO probes of C01/C02"]


def replay(ctx, rep):
    core._init_worker()
    c = rep["case"]
    if "parse" in c:
        mm = parse_job(c["parse"])
    elif "additivity" in c:
        mm = additivity_job(tuple(c["additivity"]))
    else:
        mm = eng.run_case({"case": c["case"], "variant": c["variant"], "seed": rep.get("seed", 0)})
    ctx.case(c)
    for x in mm:
        ctx.violation("C03:replay:" + x["what"], str(x), c)
