r"""C09 - mean-field evolution agrees across methods and integrates the field correctly.

Spec: specs/MeanField.tla - Heun's rule in exact dyadic fixed-point arithmetic, with the
complete list of field-equation evaluations (stage, time, state observable, field) per
step; TLC checks ExactForLinear (closed form for equations of motion linear in time) and
CallsConsistent on every state and emits expected fields and evaluations for every
configuration (equation of motion coefficients incl. explicit time dependence and
complex field coupling, start times != 0, 1..2 systems of different dimension).
Binding: the field equation of motion is the hook - a probe field_eom logs every call
(t, observable decoded from the states it is handed, a); MeanFieldTempo and
compute_dynamics_with_field (record_all True/False) must make exactly the specified
evaluations and return exactly the specified fields (all numbers are dyadic, so the real
floating point arithmetic is exact); systems that ignore the field must evolve exactly as
their plain clock.  Cross-method agreement with field-dependent Hamiltonians and real
probe-bath process tensors is checked differentially.
"""
import numpy as np

from harness import core, probes

LEVEL = "model_checking"

CFG = """
INIT Init
NEXT Next
INVARIANT ExactForLinear
INVARIANT CallsConsistent
INVARIANT EmitCase
"""
SC = 4096


def sc(x):
    return str(int(round(x * SC)))


def build(case, log):
    import oqupy
    dt = case["dt"] / SC
    t0 = case["t0"] / SC
    c = [x / SC for x in case["coef"]]
    systems, rhos = [], []
    for (d, shift, pops) in case["sys"]:
        h = probes.shift_hamiltonian(d, shift, dt)
        systems.append(oqupy.TimeDependentSystemWithField(lambda t, a, _h=h: _h))
        rhos.append(np.diag(np.array(pops, dtype=float) / SC).astype(complex))

    def observable(states):
        p = 0.0
        for i, st in enumerate(states, start=1):
            d = st.shape[0]
            p += i * float(np.real(sum(n * st[n, n] for n in range(d))))
        return p

    def eom(t, states, a):
        p = observable(states)
        log.append((float(t), p, complex(a)))
        return c[0] + c[1] * t + c[2] * p + (c[3] + 1j * c[4]) * a

    mfs = oqupy.MeanFieldSystem(systems, field_eom=eom)
    a0 = (case["a0"][0] + 1j * case["a0"][1]) / SC
    return mfs, rhos, a0, dt, t0


def run_case(job):
    import oqupy
    case, method = job[0], job[1]
    warm = len(job) > 2 and job[2]
    n = case["n"]
    log = []
    out = []
    try:
        mfs, rhos, a0, dt, t0 = build(case, log)
        if warm:
            # the same system objects were used before, with another time step (a time-step convergence check is the
            # everyday reason): nothing of that earlier use may survive in them
            if method == "mftempo":
                corr = probes.make_probe_sd(probes.probe_weights(1, 8), 2 * dt)
                wb = [oqupy.Bath(np.zeros((r.shape[0], r.shape[0])), corr) for r in rhos]
                wp = oqupy.TempoParameters(dt=2 * dt, epsrel=1e-14, dkmax=1, subdiv_limit=None)
                oqupy.MeanFieldTempo(mfs, wb, wp, [r.copy() for r in rhos], a0, t0).compute(
                    t0 + 2 * dt + dt / 4, progress_type="silent")
            else:
                oqupy.compute_dynamics_with_field(mfs, a0, dt=2 * dt, num_steps=1,
                                                  initial_state_list=[r.copy() for r in rhos], start_time=t0,
                                                  subdiv_limit=None, progress_type="silent")
        log.clear()
        if method == "mftempo":
            corr = probes.make_probe_sd(probes.probe_weights(1, 8), dt)
            baths = [oqupy.Bath(np.zeros((r.shape[0], r.shape[0])), corr) for r in rhos]
            params = oqupy.TempoParameters(dt=dt, epsrel=1e-14, dkmax=1, subdiv_limit=None)
            t = oqupy.MeanFieldTempo(mfs, baths, params, [r.copy() for r in rhos], a0, t0)
            dyn = t.compute(t0 + n * dt + dt / 4, progress_type="silent")
            rec_all = True
        else:
            rec_all = method == "cdwf"
            dyn = oqupy.compute_dynamics_with_field(mfs, a0, dt=dt, num_steps=n,
                                                    initial_state_list=[r.copy() for r in rhos], start_time=t0,
                                                    record_all=rec_all, subdiv_limit=None, progress_type="silent")
    except Exception as ex:  # pylint: disable=broad-except
        import traceback
        return [{"what": "exception", "detail": "%s: %s" % (type(ex).__name__, str(ex)[:150]),
                 "tb": traceback.format_exc()[-300:]}]
    want_fields = [(f[0] + 1j * f[1]) / SC for f in case["fields"]]
    fields = np.array(dyn.fields)
    times = np.array(dyn.times)
    if rec_all:
        if len(fields) != n + 1:
            out.append({"what": "length", "observed": len(fields)})
        else:
            for k in range(n + 1):
                if abs(fields[k] - want_fields[k]) > 1e-12:
                    out.append({"what": "field", "step": k, "expected": str(want_fields[k]), "observed": str(fields[k])})
                    break
                if abs(times[k] - (t0 + k * dt)) > 1e-12:
                    out.append({"what": "time", "step": k})
                    break
    else:
        if len(fields) != 1 or abs(fields[0] - want_fields[-1]) > 1e-12:
            out.append({"what": "final-field", "expected": str(want_fields[-1]), "observed": str(fields[:1])})
    # the field-equation evaluations: exactly the specified ones
    want_calls = [(cc["t"] / SC, cc["p"] / SC, (cc["a"][0] + 1j * cc["a"][1]) / SC, cc["stage"], cc["k"])
                  for cc in case["calls"]]
    pending = list(want_calls)
    consumed = []
    same = lambda w, t, p, a: abs(w[0] - t) < 1e-12 and abs(w[1] - p) < 1e-9 and abs(w[2] - a) < 1e-12
    for (t, p, a) in log:
        hit = next((w for w in pending if same(w, t, p, a)), None)
        if hit is None and any(w[3] == "deriv" and same(w, t, p, a) for w in consumed):
            continue        # the derivative is re-evaluated once per system: stuttering
        if hit is None:
            near = min(want_calls, key=lambda w: abs(w[2] - a) + abs(w[1] - p))
            out.append({"what": "unexpected-evaluation", "t": t, "p": p, "a": str(a),
                        "closest_expected": {"stage": near[3], "k": near[4], "t": near[0], "p": near[1], "a": str(near[2])}})
            break
        pending.remove(hit)
        consumed.append(hit)
    else:
        if pending:
            out.append({"what": "missing-evaluation", "stage": pending[0][3], "k": pending[0][4]})
    # systems ignore the field: populations are those of the plain clock
    obs = probes.norm_seq(case["obs"])
    sd = dyn.system_dynamics
    if rec_all and not out:
        for k in range(n + 1):
            p = sum(i * float(np.real(sum(m * sd[i - 1].states[k][m, m] for m in range(sd[i - 1].states[k].shape[0]))))
                    for i in range(1, len(sd) + 1))
            if abs(p - obs[k] / SC) > 1e-9:
                out.append({"what": "system-state", "step": k})
                break
    return out


def agreement_job(job):
    """MeanFieldTempo vs compute_dynamics_with_field with PT-TEMPO process tensors, field-dependent H."""
    import oqupy
    seed, t0, nsys, kmem = job
    dt = 0.125
    n = 4
    sx = np.array([[0, 1], [1, 0]], dtype=complex)
    sz = np.diag([1.0 + 0j, -1.0])
    sm = np.array([[0, 0], [1, 0]], dtype=complex)
    w = probes.probe_weights(seed, 24, scale=2e-2)

    def mk():
        systems = [oqupy.TimeDependentSystemWithField(
            lambda t, a, _j=j: 0.5 * (1 + 0.2 * _j) * sz + 0.4 * np.cos(t) * sx + 0.3 * (a * sm.conj().T + np.conj(a) * sm))
            for j in range(nsys)]
        eom = lambda t, states, a: -1j * 0.7 * a - 0.2j * sum(np.trace(s @ sm) for s in states) + 0.1 * t
        return oqupy.MeanFieldSystem(systems, field_eom=eom)
    rhos = [np.array([[0.6, 0.2 - 0.1j], [0.2 + 0.1j, 0.4]]) for _ in range(nsys)]
    try:
        # a different bath for every system (same dimension): influence data must not leak between systems
        baths = [oqupy.Bath((0.5 - 0.2 * j) * sz + 0.15 * j * sx, probes.make_probe_sd(w * (1 + 0.6 * j), dt))
                 for j in range(nsys)]
        kw = {} if kmem is None else {"dkmax": kmem}
        params = oqupy.TempoParameters(dt=dt, epsrel=1e-13, **kw)
        a = oqupy.MeanFieldTempo(mk(), baths, params, [r.copy() for r in rhos], 0.3 - 0.1j, t0).compute(
            t0 + n * dt + dt / 4, progress_type="silent")
        pts = [oqupy.PtTempo(b, t0, t0 + n * dt + dt / 4, params).get_process_tensor(progress_type="silent")
               for b in baths]
        b = oqupy.compute_dynamics_with_field(mk(), 0.3 - 0.1j, process_tensor_list=pts,
                                              initial_state_list=[r.copy() for r in rhos], start_time=t0,
                                              progress_type="silent")
    except Exception as ex:  # pylint: disable=broad-except
        return [{"what": "exception", "detail": "%s: %s" % (type(ex).__name__, str(ex)[:150])}]
    out = []
    ef = np.max(np.abs(np.array(a.fields) - np.array(b.fields)))
    es = max(np.max(np.abs(np.array(x.states) - np.array(y.states))) for x, y in zip(a.system_dynamics, b.system_dynamics))
    if not ef < 1e-8:
        out.append({"what": "methods-disagree-field", "err": float(ef)})
    if not es < 1e-8:
        out.append({"what": "methods-disagree-states", "err": float(es)})
    if np.max(np.abs(np.array(a.times) - np.array(b.times))) > 1e-12:
        out.append({"what": "methods-disagree-times"})
    return out


def plain_job(job):
    """A mean-field system that ignores the field evolves as in a plain TEMPO run: explicitly time-dependent
    Hamiltonian, Lindblad rate and Lindblad operator, both mean-field methods against Tempo."""
    import oqupy
    seed, t0 = job[0], job[1]
    subdiv = job[2] if len(job) > 2 else "default"           # "none": the Liouvillian is sampled, not integrated
    # field equation: "moving" (never stationary), "zero" (the field never moves: its derivative is exactly 0 at every
    # step), "rest" (proportional to a field that starts at 0)
    eom_kind = job[3] if len(job) > 3 else "moving"
    eom = {"moving": lambda t, st, a: -0.5j * a + 0.2 * t, "zero": lambda t, st, a: 0.0,
           "rest": lambda t, st, a: -0.5j * a}[eom_kind]
    a0 = 0.0 if eom_kind == "rest" else 0.3 - 0.1j
    dt, n = 0.125, 4
    sx = np.array([[0, 1], [1, 0]], dtype=complex)
    sz = np.diag([1.0 + 0j, -1.0])
    sm = np.array([[0, 0], [1, 0]], dtype=complex)
    w = probes.probe_weights(seed, 24, scale=2e-2)
    ham = lambda t: 0.5 * sz + 0.4 * np.cos(1.3 * t) * sx
    gam = lambda t: 0.3 + 0.25 * np.sin(2.0 * t) + 0.1 * t
    lop = lambda t: sm + 0.2 * np.cos(t) * sz
    rho = np.array([[0.6, 0.2 - 0.1j], [0.2 + 0.1j, 0.4]])
    out = []
    try:
        bath = oqupy.Bath(0.5 * sz, probes.make_probe_sd(w, dt))
        pkw = {"subdiv_limit": None} if subdiv == "none" else {}
        params = oqupy.TempoParameters(dt=dt, epsrel=1e-13, dkmax=3, **pkw)
        end = t0 + n * dt + dt / 4
        ref = oqupy.Tempo(oqupy.TimeDependentSystem(ham, gammas=[gam], lindblad_operators=[lop]), bath, params, rho.copy(),
                          t0).compute(end, progress_type="silent")

        def mk():
            fs = oqupy.TimeDependentSystemWithField(lambda t, a: ham(t), gammas=[gam], lindblad_operators=[lop])
            return oqupy.MeanFieldSystem([fs], field_eom=eom)
        a = oqupy.MeanFieldTempo(mk(), [bath], params, [rho.copy()], a0, t0).compute(end, progress_type="silent")
        pt = oqupy.PtTempo(bath, t0, end, params).get_process_tensor(progress_type="silent")
        b = oqupy.compute_dynamics_with_field(mk(), a0, process_tensor_list=[pt], initial_state_list=[rho.copy()],
                                              start_time=t0, progress_type="silent", **pkw)
    except Exception as ex:  # pylint: disable=broad-except
        return [{"what": "exception", "detail": "%s: %s" % (type(ex).__name__, str(ex)[:150])}]
    for name, res in (("MeanFieldTempo", a), ("compute_dynamics_with_field", b)):
        got = np.array(res.system_dynamics[0].states)
        want = np.array(ref.states)
        if got.shape != want.shape or not np.max(np.abs(got - want)) < 1e-7:
            out.append({"what": "field-independent-system-differs-from-tempo", "method": name,
                        "err": float(np.max(np.abs(got - want))) if got.shape == want.shape else "shape"})
    return out


def stepfn_job(job):
    """A field equation that switches on exactly at a grid time (f = 1 for t > t_g): both methods must evaluate their Heun
    stages at the same grid times - bit for bit, or the switch is seen one step apart."""
    import oqupy
    t0, dt, g = job
    tg = float(repr(round(t0 + g * dt, 10)))
    sx = np.array([[0, 1], [1, 0]], dtype=complex)
    rho = np.array([[0.6, 0.2], [0.2, 0.4]], dtype=complex)

    def mk():
        fs = oqupy.TimeDependentSystemWithField(lambda t, a: 0.5 * sx)
        return oqupy.MeanFieldSystem([fs], field_eom=lambda t, st, a: 1.0 if t > tg else 0.0)
    try:
        n = g + 3
        corr = probes.make_probe_sd(probes.probe_weights(1, 8), dt)
        bath = oqupy.Bath(np.zeros((2, 2)), corr)
        params = oqupy.TempoParameters(dt=dt, epsrel=1e-12, dkmax=1)
        a = oqupy.MeanFieldTempo(mk(), [bath], params, [rho.copy()], 0.0 + 0j, t0).compute(t0 + n * dt + dt / 4, progress_type="silent")
        b = oqupy.compute_dynamics_with_field(mk(), 0.0 + 0j, dt=dt, num_steps=n, initial_state_list=[rho.copy()], start_time=t0,
                                              progress_type="silent")
    except Exception as ex:  # pylint: disable=broad-except
        return [{"what": "exception", "detail": "%s: %s" % (type(ex).__name__, str(ex)[:150])}]
    fa, fb = np.array(a.fields), np.array(b.fields)
    if fa.shape != fb.shape or np.max(np.abs(fa - fb)) > 1e-12:
        return [{"what": "methods-see-a-switch-at-a-grid-time-differently", "MeanFieldTempo": [str(x) for x in fa],
                 "compute_dynamics_with_field": [str(x) for x in fb]}]
    return []


def run(ctx):
    quick = ctx.tier == "quick"
    coefs = [(1, 2, 0, 0, 0), (0.5, -1, 0, 0, 0), (0, 1, 1, 0, 0), (1, 0, 2, 0, -1), (0.5, 1, 1, 1, 0), (0, 0, 1, 0, 1),
             (0, 1, 0, 0, 0)]
    coefset = "{" + ", ".join("<<%s>>" % ",".join(sc(v) for v in c) for c in coefs) + "}"
    sysset = ("{ << <<2, 1, <<%s,%s>> >> >>, << <<3, 1, <<%s,%s,%s>> >>, <<2, 1, <<%s,%s>> >> >>, "
              "<< <<3, 2, <<%s,%s,%s>> >> >> }" % (sc(.75), sc(.25), sc(.5), sc(.25), sc(.25), sc(.5), sc(.5),
                                                 sc(.25), sc(.25), sc(.5)))
    cases = []
    for dtv, nsteps in ((0.5, 3), (0.25, 2)) if quick else ((0.5, 3), (0.25, 2), (0.5, 2), (1.0, 3)):
        r = ctx.tlc("MeanField", CFG, label="dt=%s, %d steps" % (dtv, nsteps), workers=4,
                    constants={"SC": str(SC), "DtN": sc(dtv), "T0Set": "{0,%s,%s}" % (sc(1), sc(-0.5)),
                               "NSteps": str(nsteps), "CoefSet": coefset,
                               "A0Set": "{<<%s,%s>>, <<0,%s>>}" % (sc(1), sc(-0.5), sc(0.25)),
                               "SysSet": sysset, "Emit": "TRUE"})
        cases += r.cases
    jobs = [(c, m, False) for c in cases for m in ("mftempo", "cdwf", "cdwf-final")]
    jobs += [(c, m, True) for i, c in enumerate(cases) if i % 3 == 0 for m in ("mftempo", "cdwf")]
    res = core.pmap(run_case, jobs, chunksize=4)
    for (c, m, w), mm in zip(jobs, res):
        m = m + ("+reused-system" if w else "")
        cid = {"method": m, "dt": c["dt"] / SC, "t0": c["t0"] / SC, "n": c["n"], "coef": [x / SC for x in c["coef"]],
               "a0": [x / SC for x in c["a0"]], "systems": [[s[0], s[1]] for s in c["sys"]]}
        ctx.case(cid, nontrivial=True)
        for x in mm:
            ctx.violation("C09:%s:%s" % (m, x["what"]), "%s: %s" % (cid, x), {"case": c, "method": m.split("+")[0], "warm": w})
    ajobs = [(ctx.seed, t0, ns, km) for t0 in (0.0, 1.0) for ns in (1, 2) for km in ((None, 2) if quick else (None, 1, 2, 3))]
    for j, mm in zip(ajobs, core.pmap(agreement_job, ajobs)):
        ctx.case({"agreement": {"t0": j[1], "systems": j[2], "dkmax": j[3]}}, nontrivial=True)
        for x in mm:
            ctx.violation("C09:agreement:%s" % x["what"], "%s: %s" % (j, x), {"agreement": list(j)})
    pjobs = [(ctx.seed, t0) for t0 in (0.0, 1.0, -0.75)] + [(ctx.seed, t0, "none") for t0 in (0.0, 0.5)]
    pjobs += [(ctx.seed, t0, sd, k) for t0 in (0.0, 0.5) for sd in ("default", "none") for k in ("zero", "rest")]
    for j, mm in zip(pjobs, core.pmap(plain_job, pjobs)):
        ctx.case({"field_independent_vs_tempo": {"t0": j[1], "subdiv_limit": "None" if len(j) > 2 and j[2] == "none" else "default",
                                                 "field_equation": j[3] if len(j) > 3 else "moving"}}, nontrivial=True)
        for x in mm:
            ctx.violation("C09:plain:%s" % x["what"], "%s: %s" % (j, x), {"plain": list(j)})
    sjobs = [(t0, dt, g) for t0 in (0.0, 0.3, -0.7) for dt in (0.1, 0.2, 0.05) for g in (1, 2, 3)]
    for j, mm in zip(sjobs, core.pmap(stepfn_job, sjobs)):
        ctx.case({"switch_at_grid_time": {"t0": j[0], "dt": j[1], "step": j[2]}}, nontrivial=True)
        for x in mm:
            ctx.violation("C09:switch:%s" % x["what"], "%s: %s" % (j, x), {"stepfn": list(j)})
    ctx.rule = ("every configuration of MeanField.tla (7 equations of motion x 3 start times x 2 initial fields x 3 system "
                "lists x (dt, steps)) x {MeanFieldTempo, compute_dynamics_with_field record_all True/False}; plus "
                "differential agreement of the two methods for field-dependent Hamiltonians with probe-bath process tensors")
    ctx.exhaustive = True
    ctx.assumptions += ["all numbers are dyadic rationals with <= 12 fractional bits, so IEEE arithmetic is exact and the "
                        "comparison tolerance (1e-12) only absorbs expm rounding of the clock propagators"]


def replay(ctx, rep):
    if "plain" in rep["case"]:
        core._init_worker()
        ctx.case({"replay": True})
        for x in plain_job(tuple(rep["case"]["plain"])):
            ctx.violation("C09:replay:" + x["what"], str(x), rep["case"])
        return
    core._init_worker()
    c = rep["case"]
    if "stepfn" in c:
        mm = stepfn_job(tuple(c["stepfn"]))
    elif "agreement" in c:
        mm = agreement_job(tuple(c["agreement"]))
    else:
        mm = run_case((c["case"], c["method"], c.get("warm", False)))
    ctx.case({"replay": True})
    for x in mm:
        ctx.violation("C09:replay:" + x["what"], str(x), c)
