"""Conformance of the index helpers in oqupy/util.py (create_delta, add_singleton, is_diagonal_matrix) with
specs/TensorUtil.tla.  TLC enumerates every input shape (rank <= 3, dimensions 1..3) x every surjective index
scrambling (<= 4 output legs) with the exact non-zero pattern of the result; the real create_delta must produce that
tensor for random complex input (and leave its input untouched).  add_singleton and is_diagonal_matrix are enumerated in
the harness over the same shapes / all 0-1 matrices up to 3 x 3.

Coverage beyond the listed properties (run by `bin/extra tensorutil`)."""
import itertools

import numpy as np

from harness import core, probes

CFG = """SPECIFICATION Spec
INVARIANT Bijective
INVARIANT EmitCase
"""


def delta_rows(rows):
    from oqupy import util
    out = []
    for case in rows:
        shape = tuple(case["shape"])
        scr = [int(x) for x in case["scr"]]
        r = np.random.default_rng([31, len(shape)] + list(shape) + scr)
        t = r.normal(size=shape) + 1j * r.normal(size=shape)
        keep = t.copy()
        try:
            got = util.create_delta(t, scr)
        except Exception as ex:  # pylint: disable=broad-except
            out.append({"what": "exception", "shape": list(shape), "scr": scr, "detail": "%s: %s" % (type(ex).__name__, str(ex)[:100])})
            continue
        want = np.zeros(tuple(case["outshape"]), dtype=complex)
        for e in case["pattern"]:
            want[tuple(e["o"])] = keep[tuple(e["i"])]
        if got.shape != want.shape or not np.array_equal(got, want):
            out.append({"what": "create_delta", "shape": list(shape), "scr": scr})
        if not np.array_equal(t, keep):
            out.append({"what": "create_delta-modified-its-input", "shape": list(shape), "scr": scr})
    return out


def other_helpers():
    from oqupy import util
    out = []
    n = 0
    for k in (1, 2, 3):
        for shape in itertools.product((1, 2, 3), repeat=k):
            t = np.arange(int(np.prod(shape)), dtype=complex).reshape(shape)
            for idx in range(k + 1):
                for copy in (True, False):
                    n += 1
                    src = t.copy()
                    got = util.add_singleton(src, idx, copy=copy)
                    want_shape = shape[:idx] + (1,) + shape[idx:]
                    if got.shape != want_shape or not np.array_equal(got.reshape(-1), t.reshape(-1)):
                        out.append({"what": "add_singleton", "shape": list(shape), "index": idx, "copy": copy})
                    if copy and src.shape != shape:
                        out.append({"what": "add_singleton-reshaped-its-input", "shape": list(shape), "index": idx})
    for d in (1, 2, 3):
        for bits in itertools.product((0, 1), repeat=d * d):
            n += 1
            m = np.array(bits, dtype=complex).reshape(d, d) * (1 + 2j)
            want = all(m[i, j] == 0 for i in range(d) for j in range(d) if i != j)
            if bool(util.is_diagonal_matrix(m)) != want:
                out.append({"what": "is_diagonal_matrix", "matrix": [list(map(int, r)) for r in np.abs(m) > 0]})
    return n, out


def run(ctx):
    quick = ctx.tier == "quick"
    r = ctx.tlc("TensorUtil", CFG, label="shapes x scramblings", workers=4,
                constants={"MaxRank": "3", "MaxOut": "4" if quick else "5", "Dims": "{1,2,3}", "Emit": "TRUE"}, timeout=1800)
    rows = r.cases
    chunks = [rows[i:i + 100] for i in range(0, len(rows), 100)]
    for ch, mm in zip(chunks, core.pmap(delta_rows, chunks)):
        for c in ch:
            ctx.case({"create_delta": {"shape": c["shape"], "scr": c["scr"]}}, nontrivial=len(c["scr"]) > len(c["shape"]))
        for x in mm:
            ctx.violation("X-TensorUtil:%s" % x["what"], str(x), {"row": x})
    n, mm = other_helpers()
    for _ in range(n):
        ctx.evaluations += 1
    for x in mm:
        ctx.violation("X-TensorUtil:%s" % x["what"], str(x), {"row": x})
    ctx.rule = ("every input shape of rank <= 3 with dimensions 1..3 x every index scrambling that refers to every input leg "
                "(<= %s output legs): exact non-zero pattern; add_singleton at every position (copy on / off); "
                "is_diagonal_matrix on every 0-1 pattern up to 3 x 3" % ("4" if quick else "5"))
    ctx.exhaustive = True
    ctx.assumptions += ["scramblings that omit an input leg and negative add_singleton positions are unspecified"]


def replay(ctx, rep):
    raise core.MachineryError("rerun the check (rows come from TLC)")
