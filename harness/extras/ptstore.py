"""Conformance of SimpleProcessTensor and FileProcessTensor with specs/PTStore.tla (the process tensor as a
random-access store).  TLC enumerates histories of writes at arbitrary positions; every history is replayed on an
in-memory and on a file-backed object, which must both show the observations the specification prescribes after
every operation; finally the file is closed and opened again with both import types.

Coverage beyond the listed properties (run by `bin/extra ptstore`)."""
import os
import shutil
import tempfile

import numpy as np

from harness import core

CFG = """SPECIFICATION Spec
INVARIANT HistFaithful
PROPERTY WriteLocal
PROPERTY Monotone
"""

MPO_SHAPES = {1: (1, 2, 4, 4), 2: (2, 3, 4, 4), 3: (3, 1, 4), 4: (2, 2, 4)}


def tensor(kind, t):
    r = np.random.default_rng([7, {"mpo": 1, "cap": 2, "init": 3}[kind], t])
    shape = MPO_SHAPES[t] if kind == "mpo" else ((t + 1,) if kind == "cap" else (t + 1, 4))
    return r.normal(size=shape) + 1j * r.normal(size=shape)


def expand(a):
    from oqupy import util
    return util.create_delta(a, [0, 1, 2, 2]) if a.ndim == 3 else a


def observe(pt, obs, who):
    out = []
    if len(pt) != obs["len"]:
        return [{"what": "length", "who": who, "expected": obs["len"], "observed": len(pt)}]
    for i, t in enumerate(obs["mpo"]):
        if t == 0:
            continue            # reading an empty slot is unspecified
        want = tensor("mpo", t)
        for transformed in (False, True):
            got = pt.get_mpo_tensor(i, transformed=transformed)
            if got is None or not np.array_equal(expand(np.asarray(got)), expand(want)):
                out.append({"what": "mpo-tensor", "who": who, "slot": i, "transformed": transformed})
    try:
        pt.get_mpo_tensor(obs["beyond"])
        out.append({"what": "read-beyond-the-end-accepted", "who": who, "slot": obs["beyond"]})
    except IndexError:
        pass
    for i, t in enumerate(obs["caps"]):
        if t == 0:
            continue
        got = pt.get_cap_tensor(i)
        if got is None or not np.array_equal(np.asarray(got), tensor("cap", t)):
            out.append({"what": "cap-tensor", "who": who, "slot": i})
    if pt.get_cap_tensor(obs["capnone"]) is not None:
        out.append({"what": "cap-beyond-the-end-not-none", "who": who})
    got = pt.get_initial_tensor()
    if obs["init"] == 0:
        if got is not None:
            out.append({"what": "initial-tensor-not-none", "who": who})
    elif got is None or not np.array_equal(np.asarray(got), tensor("init", obs["init"])):
        out.append({"what": "initial-tensor", "who": who})
    if obs["bonds"]:
        ts = [tensor("mpo", t) for t in obs["mpo"]]
        want = [x.shape[0] for x in ts] + [ts[-1].shape[1]]
        gotb = [int(x) for x in pt.get_bond_dimensions()]
        if gotb != want:
            out.append({"what": "bond-dimensions", "who": who, "expected": want, "observed": gotb})
    return out


def replay_history(job):
    case, tmpdir, idx = job
    import oqupy
    from oqupy.process_tensor import SimpleProcessTensor, FileProcessTensor
    path = os.path.join(tmpdir, "store_%d.h5" % idx)
    out = []
    fpt = None
    try:
        spt = SimpleProcessTensor(2, dt=0.1)
        fpt = FileProcessTensor("write", filename=path, hilbert_space_dimension=2, dt=0.1)
        for k, h in enumerate(case["hist"]):
            if h["op"] == "reopen":
                fpt.close()
                fpt = None
                for typ in ("file", "simple"):
                    imp = oqupy.import_process_tensor(path, typ)
                    out += [dict(x, step=k) for x in observe(imp, h["obs"], "reopened-as-" + typ)]
                    if typ == "file":
                        imp.close()
                break
            for pt in (spt, fpt):
                if h["op"] == "set_mpo":
                    pt.set_mpo_tensor(h["pos"], tensor("mpo", h["t"]).copy())
                elif h["op"] == "set_cap":
                    pt.set_cap_tensor(h["pos"], tensor("cap", h["t"]).copy())
                elif h["op"] == "set_init":
                    pt.set_initial_tensor(None if h["t"] == 0 else tensor("init", h["t"]).copy())
            for pt, who in ((spt, "in-memory"), (fpt, "file-backed")):
                mm = observe(pt, h["obs"], who)
                if mm:
                    return out + [dict(x, step=k, op=h["op"]) for x in mm]
    except Exception as ex:  # pylint: disable=broad-except
        import traceback
        out.append({"what": "exception", "detail": "%s: %s" % (type(ex).__name__, str(ex)[:160]), "tb": traceback.format_exc()[-400:]})
    finally:
        try:
            if fpt is not None:
                fpt.close()
        except Exception:  # pylint: disable=broad-except
            pass
        if os.path.exists(path):
            os.remove(path)
    return out


def digest(case):
    return [[h["op"], h["pos"], h["t"]] for h in case["hist"]]


def run(ctx):
    quick = ctx.tier == "quick"
    consts = {"MaxPos": "2", "NTensors": "2" if quick else "3", "MaxOps": "3" if quick else "4", "Emit": "TRUE"}
    r = ctx.tlc("PTStore", CFG, label="all histories of %s writes over positions 0..2" % consts["MaxOps"], workers=8,
                constants=consts, timeout=1800)
    cases = r.cases
    tmpdir = tempfile.mkdtemp(prefix="vstore_")
    try:
        jobs = [(c, tmpdir, i) for i, c in enumerate(cases)]
        res = core.pmap(replay_history, jobs, chunksize=16)
    finally:
        shutil.rmtree(tmpdir, ignore_errors=True)
    for c, mm in zip(cases, res):
        d = digest(c)
        ctx.case({"history": d}, nontrivial=any(h[0] == "reopen" for h in d) or len({h[1] for h in d}) > 1)
        for x in mm:
            ctx.violation("X-PTStore:%s:%s" % (x.get("who", "-"), x["what"]), "%s: %s" % (d, x), {"case": c})
    ctx.rule = ("every history of %s operations (set_mpo_tensor / set_cap_tensor at positions 0..2 in any order, with "
                "overwrites; set_initial_tensor incl. None; close + re-open as the last operation) replayed on a "
                "SimpleProcessTensor and a FileProcessTensor; observations after every operation" % consts["MaxOps"])
    ctx.exhaustive = True
    ctx.assumptions += ["reading an empty MPO slot and negative positions are unspecified",
                        "rank-3 tensors are compared in delta-expanded form (the classes differ in what the untransformed getter returns)"]


def replay(ctx, rep):
    core._init_worker()
    c = rep["case"]["case"]
    ctx.case({"replay": digest(c)})
    tmpdir = tempfile.mkdtemp(prefix="vstore_")
    try:
        for x in replay_history((c, tmpdir, 0)):
            ctx.violation("X-PTStore:replay:%s" % x["what"], str(x), {"case": c})
    finally:
        shutil.rmtree(tmpdir, ignore_errors=True)
