"""Conformance of SystemChain / compute_tebd_propagator with specs/ChainBuild.tla (how a chain model is assembled and
turned into Trotter layers - the construction layer underneath PT-TEBD).

TLC checks WeightsComplete / TimeComplete / LayerDisjoint / Symmetric / AllBonds / AddLocal and that three named
deviations violate them, and enumerates every history of add_* calls.  Each history is replayed on a real SystemChain
(sites of different dimension, complex non-Hermitian Lindblad operators, complex Liouvillians); after every call
get_nn_full_liouvillians() must equal the matrices assembled - by an independent construction of the superoperators -
from the weights and term lists the specification prescribes; at the end compute_tebd_propagator (orders 1 and 2) must
have the specification's layer structure and every gate, contracted over its bond, must be exp(duration x Liouvillian).

Coverage beyond the listed properties (run by `bin/extra chainbuild`)."""
import numpy as np

from harness import core, probes

CFG = """SPECIFICATION Spec
INVARIANT WeightsComplete
INVARIANT TimeComplete
INVARIANT LayerDisjoint
INVARIANT Symmetric
INVARIANT AllBonds
PROPERTY AddLocal
"""
DIMS = [2, 3, 2, 2, 3, 2]
DT = 0.3


def mat(kind, k, d, salt):
    """term library: complex matrices, Hermitian for Hamiltonians"""
    r = np.random.default_rng([11, {"H": 1, "L": 2, "D": 3}[kind], k, d, salt])
    a = r.normal(size=(d, d)) + 1j * r.normal(size=(d, d))
    if kind == "H":
        return (a + a.conj().T) / 2
    return a


def sup_left(a, d):       # rho -> a rho   (row-major vec)
    return np.kron(a, np.eye(d))


def sup_right(a, d):      # rho -> rho a
    return np.kron(np.eye(d), a.T)


def site_term(kind, k, d):
    if kind == "H":
        h = mat("H", k, d, 0)
        return -1j * (sup_left(h, d) - sup_right(h, d))
    if kind == "L":
        r = np.random.default_rng([12, k, d])
        return r.normal(size=(d * d, d * d)) + 1j * r.normal(size=(d * d, d * d))
    a = mat("D", k, d, 0)
    g = 0.5 + 0.25 * k
    ada = a.conj().T @ a
    return g * (sup_left(a, d) @ sup_right(a.conj().T, d) - 0.5 * sup_left(ada, d) - 0.5 * sup_right(ada, d))


def two_site_vec_perm(dl, dr):
    """P with (vec_l x vec_r) ordering [il, jl, ir, jr] = P @ joint row-major vec [il, ir, jl, jr]"""
    n = dl * dl * dr * dr
    p = np.zeros((n, n))
    for il in range(dl):
        for jl in range(dl):
            for ir in range(dr):
                for jr in range(dr):
                    a = ((il * dl + jl) * dr + ir) * dr + jr
                    b = ((il * dr + ir) * dl + jl) * dr + jr
                    p[a, b] = 1.0
    return p


def bond_term(kind, k, dl, dr):
    """two-site superoperator in the chain's convention (left site's vec index major)"""
    p = two_site_vec_perm(dl, dr)
    dd = dl * dr
    if kind == "L":
        r = np.random.default_rng([13, k, dl, dr])
        n = dl * dl * dr * dr
        return r.normal(size=(n, n)) + 1j * r.normal(size=(n, n))
    if kind == "H":
        h = np.kron(mat("H", k, dl, 1), mat("H", k, dr, 2))
        joint = -1j * (sup_left(h, dd) - sup_right(h, dd))
    else:
        a = np.kron(mat("D", k, dl, 1), mat("D", k, dr, 2))
        g = 0.5 + 0.25 * k
        ada = a.conj().T @ a
        joint = g * (sup_left(a, dd) @ sup_right(a.conj().T, dd) - 0.5 * sup_left(ada, dd) - 0.5 * sup_right(ada, dd))
    return p @ joint @ p.T


def apply_op(chain, h, dims):
    pos, kind, k = h["pos"] - 1, h["kind"], h["k"]
    if h["op"] == "site":
        d = dims[pos]
        if kind == "H":
            chain.add_site_hamiltonian(pos, mat("H", k, d, 0))
        elif kind == "L":
            chain.add_site_liouvillian(pos, site_term("L", k, d))
        else:
            chain.add_site_dissipation(pos, mat("D", k, d, 0), gamma=0.5 + 0.25 * k)
    else:
        dl, dr = dims[pos], dims[pos + 1]
        if kind == "H":
            chain.add_nn_hamiltonian(pos, mat("H", k, dl, 1), mat("H", k, dr, 2))
        elif kind == "L":
            chain.add_nn_liouvillian(pos, bond_term("L", k, dl, dr))
        else:
            chain.add_nn_dissipation(pos, mat("D", k, dl, 1), mat("D", k, dr, 2), gamma=0.5 + 0.25 * k)


def expected_full(full, dims):
    out = []
    for b, f in enumerate(probes.norm_seq(full)):
        dl, dr = dims[b], dims[b + 1]
        m = np.zeros((dl * dl * dr * dr,) * 2, dtype=complex)
        for kind, k in f["left"]:
            m += f["wl"] / 2.0 * np.kron(site_term(kind, k, dl), np.eye(dr * dr))
        for kind, k in f["right"]:
            m += f["wr"] / 2.0 * np.kron(np.eye(dl * dl), site_term(kind, k, dr))
        for kind, k in f["nn"]:
            m += bond_term(kind, k, dl, dr)
        out.append(m)
    return out


def replay_history(case):
    import oqupy
    from oqupy import mps_mpo
    from scipy.linalg import expm
    n = case["L"]
    dims = DIMS[:n]
    out = []
    try:
        chain = oqupy.SystemChain(dims)
        want = None
        for step, h in enumerate(case["hist"]):
            apply_op(chain, h, dims)
            got = chain.get_nn_full_liouvillians()
            want = expected_full(h["full"], dims)
            if len(got) != len(want):
                return [{"what": "number-of-bonds", "step": step, "expected": len(want), "observed": len(got)}]
            for b, (g, w) in enumerate(zip(got, want)):
                if g.shape != w.shape or np.max(np.abs(g - w)) > 1e-11:
                    return [{"what": "full-liouvillian", "step": step, "bond": b, "op": [h["op"], h["pos"], h["kind"], h["k"]],
                             "err": float(np.max(np.abs(g - w))) if g.shape == w.shape else "shape"}]
        for order, key in ((1, "order1"), (2, "order2")):
            prop = mps_mpo.compute_tebd_propagator(chain, DT, 1e-14, order)
            layers = prop.gate_layers
            spec_layers = probes.norm_seq(case[key])
            if len(layers) != len(spec_layers):
                return [{"what": "number-of-layers", "order": order, "expected": len(spec_layers), "observed": len(layers)}]
            for li, (lay, sl) in enumerate(zip(layers, spec_layers)):
                sites = [g.sites[0] for g in lay.gates]
                if sites != [b - 1 for b in sl["bonds"]]:
                    return [{"what": "layer-bonds", "order": order, "layer": li, "expected": [b - 1 for b in sl["bonds"]],
                             "observed": sites}]
                for g in lay.gates:
                    b = g.sites[0]
                    if list(g.sites) != [b, b + 1]:
                        return [{"what": "gate-sites", "order": order, "layer": li, "observed": list(g.sites)}]
                    dl, dr = dims[b], dims[b + 1]
                    tl, tr = g.tensors
                    # left tensor [out_l, in_l, bond], right tensor [bond, out_r, in_r]
                    full = np.einsum("abx,xcd->acbd", tl, tr).reshape(dl * dl * dr * dr, dl * dl * dr * dr)
                    ref = expm(sl["dur"] / 2.0 * DT * want[b])
                    err = np.max(np.abs(full - ref))
                    if err > 1e-9 * max(1.0, np.max(np.abs(ref))):
                        return [{"what": "gate-propagator", "order": order, "layer": li, "bond": b, "err": float(err)}]
    except Exception as ex:  # pylint: disable=broad-except
        import traceback
        out.append({"what": "exception", "detail": "%s: %s" % (type(ex).__name__, str(ex)[:160]), "tb": traceback.format_exc()[-500:]})
    return out


def digest(case):
    return [[h["op"], h["pos"], h["kind"], h["k"]] for h in case["hist"]]


def tlaps_proof(ctx):
    """Unbounded counterpart of WeightsComplete / TimeComplete: specs/ChainWeights.tla, checked by the TLA+ proof system for
    every chain length; the same module with the end weights falsified must NOT be provable (adequacy)."""
    import os
    import shutil
    import subprocess
    import tempfile
    tmp = tempfile.mkdtemp(prefix="vtlaps_")
    try:
        src = open(os.path.join(core.SPECS, "ChainWeights.tla")).read()
        results = {}
        for name, text in (("ChainWeights", src),
                           ("ChainWeightsBad", src.replace("MODULE ChainWeights", "MODULE ChainWeightsBad")
                            .replace("WR(b) == IF b = L - 1 THEN 2 ELSE 1", "WR(b) == IF b = L THEN 2 ELSE 1"))):
            with open(os.path.join(tmp, name + ".tla"), "w") as f:
                f.write(text)
            try:
                p = subprocess.run(["tlapm", "--cleanfp", name + ".tla"], cwd=tmp, stdout=subprocess.PIPE,
                                   stderr=subprocess.STDOUT, text=True, timeout=600)
            except (OSError, subprocess.TimeoutExpired) as ex:
                raise core.MachineryError("tlapm could not be run: %r" % ex)
            results[name] = p.stdout
        if "All 3 obligations proved" not in results["ChainWeights"]:
            raise core.MachineryError("ChainWeights.tla is not proved:\n" + results["ChainWeights"][-800:])
        if "obligations proved." in results["ChainWeightsBad"] and "failed" not in results["ChainWeightsBad"]:
            raise core.MachineryError("the falsified weights are provable too: the proof says nothing")
        ctx.note("TLAPS: WeightsCompleteForAllLengths and TimeCompleteForAllLengths proved for every chain length L >= 2 "
                 "(3 obligations, SMT); the falsified variant is rejected")
        ctx.extra["tlaps"] = {"module": "ChainWeights.tla", "obligations_proved": 3, "falsified_variant_rejected": True}
    finally:
        shutil.rmtree(tmp, ignore_errors=True)


def run(ctx):
    quick = ctx.tier == "quick"
    tlaps_proof(ctx)
    cases = []
    for n in ((2, 3, 4) if quick else (2, 3, 4, 5, 6)):
        consts = {"L": str(n), "NTerms": "2", "MaxOps": "2" if (quick or n > 3) else "3", "Dev": '"none"', "Emit": "TRUE"}
        for dev in ("halfends", "order2full", "oddfirst"):
            r = ctx.tlc("ChainBuild", CFG, label="L=%d deviation %s (must violate)" % (n, dev), must_hold=False, workers=2,
                        constants=dict(consts, Dev='"%s"' % dev, Emit="FALSE"))
            if r.ok:
                raise core.MachineryError("ChainBuild deviation %s not distinguished (L=%d)" % (dev, n))
        r = ctx.tlc("ChainBuild", CFG, label="L=%d, all histories of %s add_* calls" % (n, consts["MaxOps"]), workers=8,
                    constants=consts, timeout=1800)
        cs = r.cases
        if quick and n > 2:
            cs = cs[::3]
        cases += cs
    res = core.pmap(replay_history, cases, chunksize=8)
    for c, mm in zip(cases, res):
        d = digest(c)
        ctx.case({"L": c["L"], "history": d}, nontrivial=len({(h[0], h[1]) for h in d}) > 1 or c["L"] > 2)
        for x in mm:
            ctx.violation("X-ChainBuild:%s" % x["what"], "L=%d %s: %s" % (c["L"], d, x), {"case": c})
    ctx.rule = ("every history of add_site_hamiltonian / add_site_liouvillian / add_site_dissipation / add_nn_hamiltonian / "
                "add_nn_liouvillian / add_nn_dissipation calls (2 term ids per kind, any site / bond, repeats) on chains of "
                "length 2..%d with site dimensions %s; full Liouvillians after every call, Trotter layers and gates (orders 1, 2) "
                "at the end" % (4 if quick else 6, DIMS))
    ctx.exhaustive = not quick
    ctx.assumptions += ["term matrices are seed-fixed random complex matrices (Hermitian for Hamiltonians); superoperators are "
                        "assembled independently (row-major vec, kron) and compared at 1e-11; gates at 1e-9 with epsrel 1e-14"]


def replay(ctx, rep):
    core._init_worker()
    c = rep["case"]["case"] if "case" in rep["case"] else rep["case"]
    mm = replay_history(c)
    ctx.case({"history": digest(c)})
    for x in mm:
        ctx.violation("X-ChainBuild:replay:" + x["what"], str(x), {"case": c})
