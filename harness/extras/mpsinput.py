"""Conformance of AugmentedMPS (oqupy/mps_mpo.py) with specs/MpsInput.tla: the four input formats of the gamma
tensors, their completion to four legs <<left bond, physical, augmented, right bond>>, the acceptance rules for bond
dimensions and lambda matrices, and - for accepted closed inputs - the state they stand for: the reduced density
matrices a chain computation (PtTebd, no process tensors) reports at step 0 for every site and every pair of sites
must equal the dense contraction gamma_1 lambda_1 gamma_2 ... evaluated independently.

Coverage beyond the listed properties (run by `bin/extra mpsinput`)."""
import itertools

import numpy as np

from harness import core, probes

CFG = """SPECIFICATION Spec
INVARIANT ProductClosed
INVARIANT SizePreserved
INVARIANT ProductsAccepted
"""


def gamma_array(g, site):
    r = np.random.default_rng([21, site, g["l"], g["r"], g["a"], {"vec": 1, "mat": 2, "mps": 3, "aug": 4}[g["f"]]])
    d = g["d"]
    shape = {"vec": (d * d,), "mat": (d, d), "mps": (g["l"], d * d, g["r"]), "aug": (g["l"], d * d, g["a"], g["r"])}[g["f"]]
    return r.normal(size=shape) + 1j * r.normal(size=shape)


def lambda_array(kind, dim, bond):
    r = np.random.default_rng([22, bond, dim])
    v = 0.5 + r.random(dim)
    if kind == "none":
        return None, np.ones(dim)
    if kind == "vec":
        return v, v
    if kind == "diag":
        return np.diag(v), v
    if kind == "offdiag":
        m = np.diag(v)
        if dim > 1:
            m[0, dim - 1] = 0.25
            return m, None
        return np.full((1, 1, 1), 1.0), None          # rank 3: no diagonal matrix either
    if kind == "negative":
        w = v.copy()
        w[-1] = -w[-1]
        return w, None
    if kind == "zero":
        w = v.copy()
        w[0] = 0.0
        return w, None
    if kind == "short":
        return np.concatenate([v, [1.0]]), None
    raise ValueError(kind)


def replay_case(case):
    import oqupy
    gam = probes.norm_seq(case["gammas"])
    n = len(gam)
    arrays = [gamma_array(g, i) for i, g in enumerate(gam)]
    lam = probes.norm_seq(case["lambdas"])
    lam_arrays, lam_vals = None, [np.ones(gam[i]["r"]) for i in range(n - 1)]
    if lam[0] == "given":
        kinds = probes.norm_seq(lam[1]) if lam[1] else []
        lam_arrays, lam_vals = [], []
        for b, k in enumerate(kinds):
            a, v = lambda_array(k, gam[b]["r"], b)
            lam_arrays.append(a)
            lam_vals.append(v)
    before = [a.copy() for a in arrays]
    try:
        mps = oqupy.AugmentedMPS([a for a in arrays], lam_arrays)
        accepted = True
    except (AssertionError, ValueError, IndexError, TypeError):
        accepted = False
    if any(not np.array_equal(a, b) for a, b in zip(arrays, before)):
        return [{"what": "input-array-modified"}]
    if accepted != case["accepted"]:
        return [{"what": "accepted", "expected": case["accepted"], "observed": accepted}]
    if not accepted:
        return []
    shapes = [list(s) for s in probes.norm_seq(case["shapes"])]
    got = [list(g.shape) for g in mps.gammas]
    if got != shapes:
        return [{"what": "full-shapes", "expected": shapes, "observed": got}]
    for i, (g, a) in enumerate(zip(mps.gammas, arrays)):
        if not np.array_equal(np.asarray(g).reshape(-1), a.reshape(-1)):
            return [{"what": "gamma-content", "site": i}]
    if len(mps.lambdas) != n - 1:
        return [{"what": "number-of-lambdas", "observed": len(mps.lambdas)}]
    for b, (l, v) in enumerate(zip(mps.lambdas, lam_vals)):
        if np.asarray(l).shape != v.shape or not np.allclose(l, v, rtol=0, atol=0):
            return [{"what": "lambda-values", "bond": b}]
    if not case["state"] or n < 2:
        return []
    # ---- the state the input stands for
    dims = [g["d"] for g in gam]
    t = np.asarray(mps.gammas[0])[0, :, 0, :]                    # [P1, r]
    for i in range(1, n):
        t = t * lam_vals[i - 1]                                   # lambda on the open right bond
        t = np.tensordot(t, np.asarray(mps.gammas[i])[:, :, 0, :], axes=([-1], [0]))
    t = t[..., 0]                                                 # [P1, .., Pn]
    chain = oqupy.SystemChain(dims)
    tebd = oqupy.PtTebd(initial_augmented_mps=mps, system_chain=chain, process_tensors=[None] * n,
                        parameters=oqupy.PtTebdParameters(dt=0.1, epsrel=1e-14), dynamics_sites=[])
    tebd.initialize()
    subsets = [(i,) for i in range(n)] + list(itertools.combinations(range(n), 2)) + ([tuple(range(n))] if n > 2 else [])
    for sub in subsets:
        x = t
        for i in reversed(range(n)):                              # trace out the other sites
            if i not in sub:
                tr = np.eye(dims[i]).reshape(-1)
                x = np.tensordot(x, tr, axes=([i], [0]))
        ds = [dims[i] for i in sub]
        x = x.reshape([q for d in ds for q in (d, d)])
        k = len(sub)
        x = x.transpose([2 * i for i in range(k)] + [2 * i + 1 for i in range(k)]).reshape(int(np.prod(ds)), int(np.prod(ds)))
        got = tebd.get_current_density_matrix(sub[0] if k == 1 else sub)
        if got.shape != x.shape or np.max(np.abs(got - x)) > 1e-11 * max(1.0, np.max(np.abs(x))):
            return [{"what": "state", "sites": list(sub), "err": float(np.max(np.abs(got - x))) if got.shape == x.shape else "shape"}]
    return []


def safe(case):
    try:
        return replay_case(case)
    except Exception as ex:  # pylint: disable=broad-except
        import traceback
        return [{"what": "exception", "detail": "%s: %s" % (type(ex).__name__, str(ex)[:160]), "tb": traceback.format_exc()[-500:]}]


def digest(case):
    return {"gammas": [[g["f"], g["l"], g["a"], g["r"], g["d"]] for g in probes.norm_seq(case["gammas"])],
            "lambdas": case["lambdas"]}


def run(ctx):
    quick = ctx.tier == "quick"
    cases = []
    for n in (1, 2, 3):
        consts = {"NSites": str(n), "Dims": "<<2, 3, 2>>", "BondDims": "{1, 2}" if (n < 3 or not quick) else "{1, 2}", "Emit": "TRUE"}
        r = ctx.tlc("MpsInput", CFG, label="%d site(s): all inputs" % n, workers=4, constants=consts, timeout=1800)
        cs = r.cases
        if n == 3:
            cs = cs[::(9 if quick else 2)]
        cases += cs
    res = core.pmap(safe, cases, chunksize=32)
    for c, mm in zip(cases, res):
        ctx.case(digest(c), nontrivial=bool(c["accepted"]) and len(probes.norm_seq(c["gammas"])) > 1)
        for x in mm:
            ctx.violation("X-MpsInput:%s" % x["what"], "%s: %s" % (digest(c), x), {"case": c})
    ctx.rule = ("every combination of gamma formats (vector, matrix, canonical MPS tensor, augmented tensor; bond dimensions "
                "1..2, augmented dimension 1..2) on 1..3 sites of dimension 2, 3, 2 x lambdas absent / per bond one of none, "
                "vector, diagonal matrix, non-diagonal, negative, zero, wrong length / one too few: acceptance, full shapes, "
                "content, lambda values, and for accepted closed inputs the reduced state of every site, pair and the whole "
                "chain against the dense contraction (3-site inputs sampled 1 in %d)" % (9 if quick else 2))
    ctx.exhaustive = False
    ctx.assumptions += ["tensors are seed-fixed random complex arrays (get_current_density_matrix is linear in them)"]


def replay(ctx, rep):
    core._init_worker()
    c = rep["case"]["case"]
    ctx.case(digest(c))
    for x in safe(c):
        ctx.violation("X-MpsInput:replay:" + x["what"], str(x), {"case": c})
