"""Conformance of oqupy/backends/node_array.py with specs/NodeArray.tla.

TLC enumerates (or samples) histories of tensor-network operations; every history is replayed on real NodeArray
objects built from random complex operands.  After every operation the real array must have the length, edge flags,
rank, leg dimensions (in order) and bond dimensions the specification prescribes, and its dense contraction must equal
the contraction of the operands over the connections the specification records (independent einsum evaluation).

This is coverage of the system beyond the listed properties (the layer underneath TEMPO and PT-TEMPO); it is run by
`bin/extra nodearray` and is not bound to a property id."""
import json
import os
import sys
import time

import numpy as np

from harness import core

CFG = """SPECIFICATION Spec
INVARIANT OpenLegsExact
INVARIANT ConnectionsWellFormed
INVARIANT Uniform
INVARIANT CleanBonds
INVARIANT Ownership
"""

INITS = "{<<1,1,TRUE,TRUE>>, <<2,1,FALSE,TRUE>>, <<2,2,TRUE,FALSE>>, <<3,1,FALSE,FALSE>>, <<2,2,TRUE,TRUE>>, <<1,2,FALSE,FALSE>>}"
ALLOPS = '{"vec","mat","svd","join","split","contract","zip"}'


def operand(t, shape, seed):
    r = np.random.default_rng([seed, t, 77])
    return r.normal(size=shape) + 1j * r.normal(size=shape)


def expected_dense(case, snap, tensors):
    """contraction of the live operands over the recorded connections; open legs in the recorded order"""
    parent = {}

    def find(x):
        while parent.get(x, x) != x:
            x = parent[x]
        return x
    for a, b in snap["conn"]:
        ra, rb = find(a), find(b)
        if ra != rb:
            parent[ra] = rb
    free = ([snap["left"]] if snap["left"] else []) + [x for legs in snap["legs"] for x in legs] + \
           ([snap["right"]] if snap["right"] else [])
    ids = {}

    def idx(label):
        return ids.setdefault(find(label), len(ids))
    args = []
    for t in snap["live"]:
        args += [tensors[t], [idx(x) for x in case["opnd"][t - 1]]]
    args.append([idx(x) for x in free])
    return np.einsum(*args, optimize=True), free


def real_dense(arr):
    import tensornetwork as tn
    c = arr.copy()
    order = ([c.left_edge] if c.left else []) + [e for edges in c.array_edges for e in edges] + \
            ([c.right_edge] if c.right else [])
    if len(c.nodes) == 1:
        node = c.nodes[0]
        if order:
            node.reorder_edges(order)
        return np.array(node.tensor)
    res = tn.contractors.greedy(c.nodes, output_edge_order=order, ignore_edge_order=not order)
    return np.array(res.tensor)


def compare(case, snap, arr, tensors):
    dim = case["dim"]
    out = []
    if len(arr) != snap["n"]:
        return [{"what": "length", "expected": snap["n"], "observed": len(arr)}]
    if bool(arr.left) != bool(snap["left"]) or bool(arr.right) != bool(snap["right"]):
        return [{"what": "edge-flags", "expected": [bool(snap["left"]), bool(snap["right"])],
                 "observed": [bool(arr.left), bool(arr.right)]}]
    if snap["left"] and arr.left_edge.dimension != dim[snap["left"] - 1]:
        out.append({"what": "left-edge-dimension", "expected": dim[snap["left"] - 1], "observed": arr.left_edge.dimension})
    if snap["right"] and arr.right_edge.dimension != dim[snap["right"] - 1]:
        out.append({"what": "right-edge-dimension", "expected": dim[snap["right"] - 1], "observed": arr.right_edge.dimension})
    want_legs = [[dim[x - 1] for x in legs] for legs in snap["legs"]]
    got_legs = [[e.dimension for e in edges] for edges in arr.array_edges]
    if want_legs != got_legs:
        out.append({"what": "array-legs", "expected": want_legs, "observed": got_legs})
    got_bd = [int(x) for x in arr.bond_dimensions]
    if got_bd != list(snap["bd"]):
        out.append({"what": "bond-dimensions", "expected": list(snap["bd"]), "observed": got_bd})
    if snap["n"] > 0:
        try:
            rk = arr.rank
        except AssertionError:
            rk = "non-uniform"
        if rk != len(snap["legs"][0]):
            out.append({"what": "rank", "expected": len(snap["legs"][0]), "observed": rk})
    if out:
        return out
    want, _ = expected_dense(case, snap, tensors)
    got = real_dense(arr)
    if got.shape != want.shape:
        return [{"what": "dense-shape", "expected": list(want.shape), "observed": list(got.shape)}]
    scale = max(1.0, float(np.max(np.abs(want)))) if want.size else 1.0
    err = float(np.max(np.abs(got - want))) if want.size else 0.0
    if not err <= 1e-9 * scale:
        out.append({"what": "meaning", "err": err, "scale": scale})
    return out


def replay_history(job):
    case, seed = job
    from oqupy.backends import node_array as na
    dim = case["dim"]
    tensors = {}

    def make(t):
        if t not in tensors:
            tensors[t] = operand(t, [dim[x - 1] for x in case["opnd"][t - 1]], seed)
        return tensors[t]

    def fresh_array(h):
        ts = [make(h["tbase"] + j + 1) for j in range(h["n"])]
        return na.NodeArray([x.copy() for x in ts], left=h["L"], right=h["R"], name="operand"), ts
    arr = None
    out = []
    for k, h in enumerate(case["hist"]):
        op = h["op"]
        copy = (k + seed) % 2 == 0
        b = ts = None
        try:
            if op == "new":
                arr, _ = fresh_array(h)
            elif op == "vec":
                arr.apply_vector(make(h["tbase"] + 1).copy(), left=h["side"] == "left")
            elif op == "mat":
                arr.apply_matrix(make(h["tbase"] + 1).copy(), left=h["side"] == "left")
            elif op == "svd":
                arr.svd_sweep(from_index=h["from"] - 1, to_index=h["to"] - 1)
            elif op == "join":
                b, ts = fresh_array(h)
                old = arr
                arr = na.join(arr, b, copy=copy) if h["side"] == "right" else na.join(b, arr, copy=copy)
                if copy and len(old) + len(b) != len(arr):
                    out.append({"what": "join-consumed-its-arguments"})
            elif op == "split":
                left, right = na.split(arr, h["at"], copy=copy)
                if len(left) != h["at"] or len(left) + len(right) != len(arr if copy else left) + (0 if copy else len(right)):
                    out.append({"what": "split-lengths", "observed": [len(left), len(right)]})
                arr = left if h["keep"] == "left" else right
            elif op in ("zip", "contract"):
                b, ts = fresh_array(h)
                axes = [(a[0] - 1, a[1] - 1) for a in h["axes"]]
                li = h["at"] - 1
                ri = li + h["n"] - 1
                fn = arr.zip_up if op == "zip" else arr.contract
                fn(b, axes=axes, left_index=li, right_index=ri, direction=h["dir"], copy=copy)
            else:
                raise core.MachineryError("unknown operation " + op)
        except core.MachineryError:
            raise
        except Exception as ex:  # pylint: disable=broad-except
            import traceback
            return out + [{"what": "exception", "step": k, "op": op, "detail": "%s: %s" % (type(ex).__name__, str(ex)[:160]),
                           "tb": traceback.format_exc()[-300:]}]
        mm = compare(case, h["after"], arr, tensors)
        if b is not None and copy:
            # an operand passed with copy=True stays what it was
            if len(b) != h["n"] or any(np.array(n.tensor).shape != t.shape or not np.array_equal(np.array(n.tensor), t)
                                        for n, t in zip(b.nodes, ts)):
                mm.append({"what": "operand-modified-despite-copy"})
        if mm:
            return out + [dict(x, step=k, op=op) for x in mm]
    return out


def digest(case):
    return [[h["op"]] + [h[f] for f in ("side", "from", "to", "n", "rank", "L", "R", "at", "dir", "axes", "keep")
                         if h[f] not in ("", 0, False, [])] for h in case["hist"]]


def run(ctx):
    quick = ctx.tier == "quick"
    base = {"Inits": INITS, "OpKinds": ALLOPS, "MaxLen": "3", "Devs": "{}"}
    ex = ctx.tlc("NodeArray", CFG, label="all histories of 2 operations (exhaustive)", workers=8,
                 constants=dict(base, MaxOps="2", Emit="TRUE"))
    cases = list(ex.cases)
    # deviations must be rejected by the invariants (adequacy of the specification's properties)
    for dev in ("SplitKeepsConnection", "MatrixKeepsOldEdge"):
        r = ctx.tlc("NodeArray", CFG, label="deviation %s (must violate)" % dev, workers=8, must_hold=False,
                    constants=dict(base, MaxOps="2", Emit="FALSE", Devs='{"%s"}' % dev))
        if r.ok:
            raise core.MachineryError("deviation %s not distinguished" % dev)
    depth, num = (5, 1500) if quick else (7, 12000)
    sim = ctx.tlc("NodeArray", CFG, label="sampled histories of %d operations" % depth, workers=1, timeout=2400,
                  simulate="num=%d" % num, extra=["-depth", str(depth + 3), "-seed", str(1000 + ctx.seed)],
                  constants=dict(base, MaxOps=str(depth), MaxLen="4", Emit="TRUE"))
    seen = set()
    for c in sim.cases:
        key = json.dumps(digest(c))
        if key not in seen:
            seen.add(key)
            cases.append(c)
    # the ZipPrependsLegs deviation describes an implementation that orders the legs differently: its predictions must
    # be refuted by the real code (binding check: the harness distinguishes leg orders)
    zp = ctx.tlc("NodeArray", CFG, label="deviated leg order after zip_up (predictions, not properties)", workers=8,
                 constants=dict(base, MaxOps="1", Emit="TRUE", OpKinds='{"zip"}', Devs='{"ZipPrependsLegs"}'))
    jobs = [(c, ctx.seed) for c in cases]
    res = core.pmap(replay_history, jobs, chunksize=16)
    ops = {}
    for c, mm in zip(cases, res):
        d = digest(c)
        for h in d:
            ops[h[0]] = ops.get(h[0], 0) + 1
        ctx.case({"history": d}, nontrivial=len(c["hist"]) > 2)
        for x in mm:
            ctx.violation("X-NodeArray:%s:%s" % (x.get("op"), x["what"]), "%s: %s" % (d, x), {"case": c})
    refuted = sum(1 for mm in core.pmap(replay_history, [(c, ctx.seed) for c in zp.cases], chunksize=16) if mm)
    differing = sum(1 for c in zp.cases if any(len(l) > 1 for l in c["hist"][-1]["after"]["legs"]))
    ctx.note("binding: %d deviated zip_up predictions with more than one leg per node, %d refuted by the real code"
             % (differing, refuted))
    if differing and refuted == 0 and not ctx.violations:
        raise core.MachineryError("the harness does not distinguish the order of array legs")
    ctx.note("operations replayed: " + ", ".join("%s=%d" % kv for kv in sorted(ops.items())))
    ctx.rule = ("every history of 2 operations from 6 initial arrays (exhaustive) and %d sampled histories of %d operations "
                "(apply_vector, apply_matrix, svd_sweep, join, split, contract, zip_up; lengths <= 4, ranks 0..3), each replayed "
                "on real NodeArray objects with random complex operands" % (num, depth))
    ctx.exhaustive = False
    ctx.assumptions += ["no truncation (max_singular_values = max_truncation_err = None): bond dimensions are min(rows, columns)",
                        "split only at bonds that are original connections (after an SVD the parts are defined up to a gauge)",
                        "contract in direction 'left' at the first node of a longer array is left unspecified (the code merges "
                        "the first node with the last one)"]


def replay(ctx, rep):
    core._init_worker()
    c = rep["case"]["case"]
    ctx.case({"replay": digest(c)})
    for x in replay_history((c, rep.get("seed", 0))):
        ctx.violation("X-NodeArray:replay:%s" % x["what"], str(x), {"case": c})
