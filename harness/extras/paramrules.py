"""Conformance of the parameter objects and labels with specs/ParamRules.tla.

Part A: TLC emits the full acceptance table of TempoParameters (8 640 argument combinations) and GibbsParameters with
what an accepted object must report (the memory cut-off in both forms); every row is tried on the real constructors.
Part B: TLC enumerates every history of set / delete operations on the attributes of PtTebdParameters and on the name /
description of API objects; every history is replayed, the reported attributes are compared after every operation
(a rejected set must change nothing), on PtTebdParameters and - for the labels - on ten kinds of API object including a
file-backed process tensor.

Coverage beyond the listed properties (run by `bin/extra paramrules`)."""
import os
import shutil
import tempfile

import numpy as np

from harness import core, probes

CFG = """SPECIFICATION Spec
INVARIANT AlwaysValid
INVARIANT CutoffConsistent
INVARIANT CutoffRounded
INVARIANT TableOut
PROPERTY RejectedSetKeeps
PROPERTY Independent
"""
NONE, JUNK = 98, 97


class _Junk:            # a non-numeric, non-text object
    pass


def num(v, scale):
    if v == NONE:
        return None
    if v == JUNK:
        return _Junk()
    return v * scale


def tempo_rows(rows):
    import oqupy
    out = []
    for row in rows:
        a = row["args"]
        kw = dict(dt=num(a["dt"], 0.1), epsrel=num(a["epsrel"], 1e-6), tcut=num(a["tcut"], 0.1),
                  dkmax=None if a["dkmax"] == NONE else int(a["dkmax"]), add_correlation_time=num(a["addt"], 0.1),
                  subdiv_limit=None if a["subdiv"] == NONE else int(a["subdiv"]))
        try:
            p = oqupy.TempoParameters(**kw)
            ok = True
        except (TypeError, ValueError, AssertionError):
            ok = False
        if ok != row["accepted"]:
            out.append({"what": "tempo-accepted", "args": a, "expected": row["accepted"], "observed": ok})
            continue
        if not ok:
            continue
        r = row["reports"]
        want_dk = None if r["dkmax"] == NONE else r["dkmax"]
        want_tc = None if r["tcut"] == NONE else r["tcut"] / 10.0
        want_add = None if r["addt"] == NONE else r["addt"] / 10.0
        want_sub = None if r["subdiv"] == NONE else r["subdiv"]
        close = lambda x, y: (x is None and y is None) or (x is not None and y is not None and abs(x - y) < 1e-12)
        if p.dkmax != want_dk or not close(p.tcut, want_tc):
            out.append({"what": "tempo-cutoff", "args": a, "expected": [want_dk, want_tc], "observed": [p.dkmax, p.tcut]})
        elif not close(p.add_correlation_time, want_add) or p.subdiv_limit != want_sub or abs(p.dt - r["dt"] / 10.0) > 1e-15:
            out.append({"what": "tempo-reports", "args": a})
    return out


def gibbs_rows(rows):
    import oqupy
    out = []
    for row in rows:
        a = row["args"]
        n = _Junk() if a["n"] == JUNK else int(a["n"])
        try:
            p = oqupy.GibbsParameters(n_steps=n, epsrel=a["epsrel"] * 1e-6)
            ok = p.n_steps == n
        except (TypeError, ValueError, AssertionError):
            ok = False
        if ok != row["accepted"]:
            out.append({"what": "gibbs-accepted", "args": a, "expected": row["accepted"], "observed": ok})
    return out


TEXT = {50: "__unnamed__", 51: "__no_description__", 60: "alpha", 61: "a longer text"}


def attr_value(at, v):
    if v == NONE:
        return None
    if v == JUNK:
        return 12345 if at in ("name", "description") else _Junk()
    if at in ("name", "description"):
        return TEXT[v]
    if at == "dt":
        return v / 10.0
    if at == "order":
        return int(v)
    return v * 1e-6


def observed(obj, attrs):
    out = {}
    for at in attrs:
        x = getattr(obj, at)
        out[at] = x
    return out


def expected(after, attrs):
    out = {}
    for at in attrs:
        v = after[at]
        if at in ("name", "description"):
            out[at] = TEXT[v]
        elif at == "dt":
            out[at] = v / 10.0
        elif at == "order":
            out[at] = int(v)
        else:
            out[at] = 1.0e-5 if v == 1 else v * 1e-6          # 1 stands for the default tolerance
    return out


def same(a, b):
    for k in a:
        if isinstance(a[k], str) or isinstance(b[k], str):
            if a[k] != b[k]:
                return False
        elif abs(a[k] - b[k]) > 1e-15:
            return False
    return True


def makers(tmpdir, idx):
    import oqupy
    from oqupy.process_tensor import SimpleProcessTensor, FileProcessTensor, TrivialProcessTensor
    sz = np.diag([1.0, -1.0])
    corr = oqupy.PowerLawSD(alpha=0.1, zeta=1.0, cutoff=1.0, cutoff_type="exponential")
    return {
        "System": lambda: oqupy.System(sz),
        "TimeDependentSystem": lambda: oqupy.TimeDependentSystem(lambda t: sz),
        "Bath": lambda: oqupy.Bath(sz, corr),
        "TempoParameters": lambda: oqupy.TempoParameters(dt=0.1, epsrel=1e-5),
        "Dynamics": lambda: oqupy.Dynamics(),
        "Control": lambda: oqupy.Control(2),
        "SystemChain": lambda: oqupy.SystemChain([2, 2]),
        "SimpleProcessTensor": lambda: SimpleProcessTensor(2, dt=0.1),
        "TrivialProcessTensor": lambda: TrivialProcessTensor(),
        "FileProcessTensor": lambda: FileProcessTensor("write", filename=os.path.join(tmpdir, "labels_%d.h5" % idx),
                                                       hilbert_space_dimension=2, dt=0.1),
    }


def replay_history(job):
    case, tmpdir, idx = job
    import oqupy
    hist = case["hist"]
    out = []
    label_only = all(h["at"] in ("name", "description") for h in hist)
    targets = [("PtTebdParameters", lambda: oqupy.PtTebdParameters(dt=0.2), ("dt", "order", "epsrel", "name", "description"))]
    if label_only:
        targets += [(k, mk, ("name", "description")) for k, mk in makers(tmpdir, idx).items()]
    for who, mk, attrs in targets:
        try:
            obj = mk()
            for step, h in enumerate(hist):
                before = observed(obj, attrs)
                raised = False
                try:
                    if h["op"] == "set":
                        setattr(obj, h["at"], attr_value(h["at"], h["v"]))
                    else:
                        delattr(obj, h["at"])
                except (AssertionError, AttributeError, TypeError, ValueError):
                    raised = True
                got = observed(obj, attrs)
                if raised == h["ok"]:
                    out.append({"what": "accepted", "who": who, "step": step, "op": [h["op"], h["at"], h["v"]],
                                "expected": h["ok"], "observed": not raised})
                    break
                if raised and not same(got, before):
                    out.append({"what": "rejected-operation-changed-the-object", "who": who, "step": step,
                                "op": [h["op"], h["at"], h["v"]]})
                    break
                want = expected(h["after"], attrs)
                if not same(got, want):
                    out.append({"what": "attributes", "who": who, "step": step, "op": [h["op"], h["at"], h["v"]],
                                "expected": want, "observed": got})
                    break
            if who == "FileProcessTensor":
                fname = obj.filename
                final = observed(obj, attrs)
                obj.close()
                imp = oqupy.import_process_tensor(fname, "simple")
                if not same(observed(imp, attrs), final):
                    out.append({"what": "labels-not-in-the-file", "who": who, "expected": final, "observed": observed(imp, attrs)})
                os.remove(fname)
        except Exception as ex:  # pylint: disable=broad-except
            import traceback
            out.append({"what": "exception", "who": who, "detail": "%s: %s" % (type(ex).__name__, str(ex)[:160]),
                        "tb": traceback.format_exc()[-400:]})
    return out


def digest(case):
    return [[h["op"], h["at"], h["v"]] for h in case["hist"]]


def run(ctx):
    quick = ctx.tier == "quick"
    # part A
    r = ctx.tlc("ParamRules", CFG, label="constructor tables", workers=1, constants={"MaxOps": "0", "Emit": "TRUE"})
    table = next(c for c in r.cases if "tempo" in c)
    rows = table["tempo"]
    chunks = [rows[i:i + 400] for i in range(0, len(rows), 400)]
    for ch, mm in zip(chunks, core.pmap(tempo_rows, chunks)):
        for row in ch:
            ctx.case({"TempoParameters": row["args"]}, nontrivial=row["accepted"])
        for x in mm:
            ctx.violation("X-ParamRules:%s" % x["what"], str(x), {"tempo_row": x["args"]})
    for row in table["gibbs"]:
        ctx.case({"GibbsParameters": row["args"]}, nontrivial=row["accepted"])
    for x in gibbs_rows(table["gibbs"]):
        ctx.violation("X-ParamRules:%s" % x["what"], str(x), {"gibbs_row": x["args"]})
    # part B
    nops = 2 if quick else 3
    h = ctx.tlc("ParamRules", CFG.replace("INVARIANT TableOut\n", ""), label="attribute histories of %d operations" % nops, workers=8,
                constants={"MaxOps": str(nops), "Emit": "TRUE"}, timeout=1800)
    cases = [c for c in h.cases if "hist" in c]
    tmpdir = tempfile.mkdtemp(prefix="vparam_")
    try:
        jobs = [(c, tmpdir, i) for i, c in enumerate(cases)]
        res = core.pmap(replay_history, jobs, chunksize=16)
    finally:
        shutil.rmtree(tmpdir, ignore_errors=True)
    for c, mm in zip(cases, res):
        d = digest(c)
        ctx.case({"history": d}, nontrivial=any(not hh["ok"] for hh in c["hist"]) or any(hh["op"] == "del" for hh in c["hist"]))
        for x in mm:
            ctx.violation("X-ParamRules:%s:%s" % (x.get("who", "-"), x["what"]), "%s: %s" % (d, x), {"case": c})
    ctx.rule = ("part A: every combination of argument classes of TempoParameters (%d rows) and GibbsParameters; part B: every "
                "history of %d set / delete operations over dt, order, epsrel, name, description on PtTebdParameters, histories over "
                "the labels also on 10 kinds of API object (file-backed process tensor: labels re-read from the file)" % (len(rows), nops))
    ctx.exhaustive = True
    ctx.assumptions += ["argument classes: positive / zero / negative numbers, None, a non-numeric object; no ties in tcut / dt"]


def replay(ctx, rep):
    core._init_worker()
    c = rep["case"]
    if "tempo_row" in c or "gibbs_row" in c:
        raise core.MachineryError("replay of table rows: rerun the check (rows come from TLC)")
    tmpdir = tempfile.mkdtemp(prefix="vparam_")
    try:
        ctx.case({"history": digest(c["case"])})
        for x in replay_history((c["case"], tmpdir, 0)):
            ctx.violation("X-ParamRules:replay:" + x["what"], str(x), c)
    finally:
        shutil.rmtree(tmpdir, ignore_errors=True)
