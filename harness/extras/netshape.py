"""Conformance of the TEMPO / mean-field TEMPO / PT-TEMPO / Gibbs backends (oqupy/backends/tempo_backend.py,
pt_tempo_backend.py) with specs/NetShape.tla (design: incremental bookkeeping = documented meaning of dkmax, checked by
TLC for every algorithm x dkmax x length within bounds; two named deviations must violate) and specs/NetShapeTrace.tla
(code -> spec: every backend step executed by the repository's own tests and by a randomised driver is an event that
TLC holds against the same operators: Continuity, Mechanism, Meaning, Bonds, PtReturn).

Coverage beyond the listed properties (run by `bin/extra netshape`); it supports C01 / C02 (meaning of dkmax) and C14
(continuing a computation) from the structural side."""
import json
import os
import shutil
import subprocess
import sys
import tempfile
import warnings

import numpy as np

from harness import core

DESIGN_CFG = """SPECIFICATION Spec
INVARIANT ClosedForm
INVARIANT Bounded
INVARIANT PtEnds
INVARIANT RowWidth
INVARIANT SameAsOps
"""
TRACE_CFG = """SPECIFICATION Spec
INVARIANT EmitBad
POSTCONDITION TraceAccepted
CHECK_DEADLOCK FALSE
"""


# ------------------------------------------------------------------------------------------------ randomised driver
def driver(seed, count):
    import oqupy
    warnings.simplefilter("ignore")
    rng = np.random.default_rng([seed, 909])
    for _ in range(count):
        kind = ("tempo", "tempo", "mftempo", "pttempo", "pttempo", "gibbs", "tebd")[int(rng.integers(0, 7))]
        d = int(rng.choice([2, 2, 3]))
        vals = rng.choice([-1.0, -0.5, 0.0, 0.5, 1.0], size=d, replace=bool(rng.random() < 0.5))
        if len(set(vals)) == 1:
            vals[0] += 1.5
        op = np.diag(vals).astype(complex)
        h = rng.normal(size=(d, d))
        h = 0.3 * (h + h.T)
        rho = np.eye(d, dtype=complex) / d
        rho[0, 0] += 0.1
        rho[d - 1, d - 1] -= 0.1
        corr = oqupy.PowerLawSD(alpha=float(rng.choice([0.05, 0.2])), zeta=1.0, cutoff=3.0, cutoff_type="exponential",
                                temperature=float(rng.choice([0.0, 0.4])))
        bath = oqupy.Bath(op, corr)
        dt = float(rng.choice([0.1, 0.25]))
        dk = [None, 0, 1, 2, 3, 5, 9][int(rng.integers(0, 7))]
        eps = float(rng.choice([1e-3, 1e-6, 1e-10]))
        unique = bool(rng.random() < 0.4)
        n = int(rng.integers(3, 10))
        try:
            if kind == "tempo":
                tp = oqupy.TempoParameters(dt=dt, dkmax=dk, epsrel=eps)
                t = oqupy.Tempo(oqupy.System(h), bath, tp, rho, float(rng.choice([0.0, 1.0])), unique=unique)
                cut = int(rng.integers(0, n + 1))
                t.compute(t._start_time + cut * dt, progress_type="silent")            # pylint: disable=protected-access
                t.compute(t._start_time + n * dt, progress_type="silent")              # pylint: disable=protected-access
            elif kind == "mftempo":
                tp = oqupy.TempoParameters(dt=dt, dkmax=dk, epsrel=eps)
                nsys = int(rng.integers(1, 3))
                systems = [oqupy.TimeDependentSystemWithField(lambda t, a, h=h, k=k: h * (1 + 0.1 * k) + 0.05 * abs(a) * np.eye(d))
                           for k in range(nsys)]
                mfs = oqupy.MeanFieldSystem(systems, field_eom=lambda t, states, a: -0.2 * a + 0.1 * states[0][0, 0].real)
                t = oqupy.MeanFieldTempo(mfs, [bath] * nsys, tp, [rho] * nsys, 0.3 + 0j, 0.0, unique=unique)
                t.compute(n * dt, progress_type="silent")
            elif kind == "pttempo":
                dkp = dk if dk != 0 else 4
                tp = oqupy.TempoParameters(dt=dt, dkmax=dkp, epsrel=eps)
                pt = oqupy.PtTempo(bath, 0.0, n * dt, tp, unique=unique)
                pt.compute(progress_type="silent")
                if rng.random() < 0.5:
                    pt.get_process_tensor(progress_type="silent")
            elif kind == "tebd":
                nsite = int(rng.integers(2, 4))
                nst = int(rng.integers(2, 5))
                sz = np.diag([1.0, -1.0]).astype(complex)
                sx = np.array([[0, 1], [1, 0]], dtype=complex)
                tp = oqupy.TempoParameters(dt=dt, dkmax=int(rng.integers(1, 4)), epsrel=1e-4)
                pts = []
                for _s in range(nsite):
                    if rng.random() < 0.6:
                        pts.append(oqupy.pt_tempo_compute(oqupy.Bath(0.5 * sz, corr), 0.0, nst * dt, tp, progress_type="silent"))
                    else:
                        pts.append(None)
                chain = oqupy.SystemChain([2] * nsite)
                for _s in range(nsite):
                    chain.add_site_hamiltonian(_s, 0.3 * sx)
                for _s in range(nsite - 1):
                    chain.add_nn_hamiltonian(_s, sz, sz)
                ctl = None
                if rng.random() < 0.5:
                    ctl = oqupy.ChainControl([2] * nsite)
                    ctl.add_single_site_control(np.kron(sx, sx.conj()), int(rng.integers(0, nsite)), int(rng.integers(0, nst)),
                                                post=bool(rng.random() < 0.5))
                r2 = np.array([[0.7, 0.1], [0.1, 0.3]], dtype=complex)
                tebd = oqupy.PtTebd(oqupy.AugmentedMPS([r2] * nsite), chain, pts,
                                    oqupy.PtTebdParameters(dt=dt, order=int(rng.choice([1, 2])), epsrel=eps),
                                    dynamics_sites=[0], chain_control=ctl)
                tebd.compute(nst // 2, progress_type="silent")
                tebd.compute(nst, progress_type="silent")
            else:
                g = oqupy.GibbsTempo(oqupy.System(np.diag(np.diag(h))), oqupy.Bath(op, oqupy.PowerLawSD(
                    alpha=0.1, zeta=1.0, cutoff=2.0, cutoff_type="exponential", temperature=float(rng.choice([0.5, 1.5])))),
                    oqupy.GibbsParameters(n_steps=n, epsrel=eps))
                g.compute(progress_type="silent")
        except Exception as ex:  # pylint: disable=broad-except
            print("DRIVER-UNEXPECTED %s %s: %s" % (kind, (d, dk, n, unique), repr(ex)[:200]))


# ------------------------------------------------------------------------------------------------ the check
def _env(trace):
    return dict(os.environ, VERIF_NET_TRACE=trace, OQUPY_VERIF="1", PYTHONPATH=core.VERIF + ":" + core.REPO,
                OMP_NUM_THREADS="1", PYTHONHASHSEED="0")


def record(ctx, tmp):
    procs, out = [], []
    suites = [("repo tests/coverage", ["tests/coverage"])]
    if ctx.tier == "thorough":
        suites.append(("repo tests/physics", ["tests/physics"]))
    for label, paths in suites:
        tr = os.path.join(tmp, "net_%d.ndjson" % len(out))
        procs.append((subprocess.Popen([core.PY, "-m", "pytest", "-q", "-p", "no:cacheprovider", "-p", "harness.net_plugin", "-x"] + paths,
                                       cwd=core.REPO, env=_env(tr), stdout=subprocess.PIPE, stderr=subprocess.STDOUT, text=True), label))
        out.append((label, tr))
    nshards, per = (6, 40) if ctx.tier == "quick" else (12, 250)
    for k in range(nshards):
        tr = os.path.join(tmp, "net_%d.ndjson" % len(out))
        procs.append((subprocess.Popen([core.PY, "-c", "import harness.net_plugin; from harness.extras import netshape; netshape.driver(%d, %d)"
                                        % (1000 * ctx.seed + k, per)], cwd=core.VERIF, env=_env(tr), stdout=subprocess.PIPE,
                                       stderr=subprocess.STDOUT, text=True), "driver %d" % k))
        out.append(("randomised driver, shard %d" % k, tr))
    for p, label in procs:
        try:
            txt = p.communicate(timeout=3000)[0]
        except subprocess.TimeoutExpired:
            p.kill()
            raise core.MachineryError("net trace recording timed out: %s" % label)
        for ln in txt.splitlines():
            if "DRIVER-UNEXPECTED" in ln:
                ctx.note("%s: %s" % (label, ln[:300]))
        if label.startswith("driver") and p.returncode != 0:
            raise core.MachineryError("%s exited with %d: %s" % (label, p.returncode, txt[-400:]))
    return out


def validate(ctx, path, label):
    r = ctx.tlc("NetShapeTrace", TRACE_CFG, label=label, workers=1, env={"TRACE_FILE": path}, must_hold=False, timeout=1800)
    if r.violated and r.violated != "TraceAccepted":
        raise core.MachineryError("NetShapeTrace.tla on %s: %s\n%s" % (label, r.violated, r.raw[-1500:]))
    summary = next((c for c in r.cases if "bad" in c), None)
    if summary is None:
        raise core.MachineryError("NetShapeTrace.tla consumed no trace (%s)\n%s" % (label, r.raw[-1500:]))
    return summary


def run(ctx):
    quick = ctx.tier == "quick"
    consts = {"MaxK": "6" if quick else "12", "MaxN": "10" if quick else "20", "Emit": "FALSE"}
    ctx.tlc("NetShape", DESIGN_CFG, label="design: every algorithm x dkmax x N", workers=4, constants=dict(consts, Dev='"none"'))
    for dev in ("CutOffByOne", "EndPhaseLate"):
        r = ctx.tlc("NetShape", DESIGN_CFG, label="deviation %s must violate" % dev, workers=4, must_hold=False,
                    constants=dict(consts, Dev='"%s"' % dev))
        if r.ok:
            raise core.MachineryError("NetShape.tla: deviation %s satisfies every invariant" % dev)
    # unbounded: the incremental rule preserves the closed form for EVERY dkmax, N and step (TLA+ proof system)
    core.tlaps(ctx, "NetShapeProof", ("IF cur <= K THEN cur", "IF cur < K THEN cur"))
    tmp = tempfile.mkdtemp(prefix="vnet_")
    try:
        sources = record(ctx, tmp)
        merged = os.path.join(tmp, "all.ndjson")
        events = []
        with open(merged, "w") as fo:
            for label, path in sources:
                if not os.path.exists(path):
                    continue
                for line in open(path):
                    if line.strip():
                        fo.write(line)
                        e = json.loads(line)
                        e["_src"] = label
                        events.append(e)
        if len(events) < 200:
            raise core.MachineryError("net trace recording produced only %d events" % len(events))
        summary = validate(ctx, merged, "code -> spec: %d backend steps" % len(events))
        if summary["events"] != len(events):
            raise core.MachineryError("TLC consumed %s of %d events" % (summary["events"], len(events)))
        # binding self-test: corrupt one length, one bond list
        for field in ("mps", "bonds", "pt"):
            idx = next(i for i, e in enumerate(events) if e["ev"] == "step" and not e["raised"] and e["mps"] >= 3)
            if field == "pt":
                idx = next(i for i, e in enumerate(events) if e["ev"] == "tebd-op" and e["op"] == "pt" and max(e["pt"]) > 1)
            corrupt = os.path.join(tmp, "corrupt.ndjson")
            with open(corrupt, "w") as fo:
                for i, e in enumerate(events):
                    e2 = {k: v for k, v in e.items() if k != "_src"}
                    if i == idx:
                        if field == "mps":
                            e2["mps"] += 1
                        elif field == "pt":
                            e2["pt"] = [x + 1 for x in e2["pt"]]
                        else:
                            e2["bonds"] = e2["bonds"][:-1]
                    fo.write(json.dumps(e2) + "\n")
            s2 = validate(ctx, corrupt, "binding self-test: corrupted %s (must be rejected)" % field)
            if not any(b["line"] == idx + 1 for b in s2["bad"]):
                raise core.MachineryError("NetShapeTrace.tla accepts a trace with a corrupted %s (line %d)" % (field, idx + 1))
        by_oid = {}
        for e in events:
            by_oid.setdefault(e.get("oid"), []).append(e)
        algs = {}
        for oid, evs in by_oid.items():
            if oid is None:
                continue
            a = evs[0].get("alg", "tebd" if evs[0]["ev"].startswith("tebd") else None)
            algs[a] = algs.get(a, 0) + 1
            ctx.case({"backend": a, "K": evs[0].get("K"), "N": evs[0].get("N"), "source": evs[0]["_src"], "events": len(evs)},
                     nontrivial=len(evs) > 2)
        for b in summary["bad"]:
            e = events[b["line"] - 1]
            evs = [{k: v for k, v in x.items() if k != "_src"} for x in by_oid.get(e.get("oid"), [e])]
            for rule in sorted(b["rules"]):
                ctx.violation("X-NetShape:%s:%s" % (b["kind"], rule),
                              "event %d (%s): %s violates %s" % (b["line"], e["_src"], {k: v for k, v in e.items() if k != "_src"}, rule),
                              {"trace_events": evs})
        for need in ("tempo", "pt", "gibbs", "tebd"):
            if algs.get(need, 0) < 5:
                raise core.MachineryError("fewer than 5 %s backends were traced" % need)
        ctx.traces += len(events)
        ctx.extra["net_trace"] = {"events": len(events), "backends": algs, "sources": sorted({e["_src"] for e in events}),
                                  "raised_steps": sum(1 for e in events if e.get("raised"))}
    finally:
        shutil.rmtree(tmp, ignore_errors=True)
    ctx.rule = ("design: TLC over every algorithm (TEMPO, PT-TEMPO, Gibbs) x dkmax 0..%s / None x N 1..%s; code -> spec: every backend "
                "step of the repository's tests/coverage%s and of %d randomised computations (d 2..3, dkmax None/0..9, unique on/off, "
                "epsrel 1e-3..1e-10, split calls)" % (consts["MaxK"], consts["MaxN"], "" if quick else " and tests/physics",
                                                       240 if quick else 3000))
    ctx.exhaustive = False
    ctx.assumptions += ["a backend step that raises leaves a network about which nothing is stated",
                        "bond bound: D^min(sites left, sites right) with D = d^2 (exponent <= 6)"]


def replay(ctx, rep):
    tmp = tempfile.mkdtemp(prefix="vnet_")
    try:
        path = os.path.join(tmp, "one.ndjson")
        with open(path, "w") as fo:
            for e in rep["case"]["trace_events"]:
                fo.write(json.dumps(e) + "\n")
        s = validate(ctx, path, "replay of one backend's events")
        ctx.case({"replay": True})
        for b in s["bad"]:
            ctx.violation("X-NetShape:replay:%s" % ",".join(sorted(b["rules"])), str(b), rep["case"])
    finally:
        shutil.rmtree(tmp, ignore_errors=True)


if __name__ == "__main__":
    driver(int(sys.argv[1]), int(sys.argv[2]))
