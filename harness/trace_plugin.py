"""pytest plugin (and plain importable recorder): records one event per public compute call of the method objects
(Tempo, MeanFieldTempo, PtTempo, GibbsTempo, PtTebd) while ANY program - in particular the repository's own unmodified
test-suite - runs.  The ndjson trace is validated by TLC against specs/TraceRun.tla.

Harness-side only: methods are wrapped from outside (no source hook); enabled only when VERIF_TRACE_FILE is set (the
checks set it together with OQUPY_VERIF=1).  The linearization point of a sequential library is the return of the
public call; events are written in the `finally` of the wrapper, so failing calls are logged too."""
import json
import os

_OUT = os.environ.get("VERIF_TRACE_FILE")
_TICK = 1e-4
_state = {"n": 0, "f": None}


def _ticks(x):
    """time -> (integer number of ticks, on the tick grid?)"""
    try:
        v = float(x) / _TICK
    except (TypeError, ValueError):
        return 0, False
    r = round(v)
    return int(r), abs(v - r) < 1e-6 and abs(r) < 2 ** 30


def _emit(rec):
    if _state["f"] is None:
        _state["f"] = open(_OUT, "a")
    _state["f"].write(json.dumps(rec) + "\n")
    _state["f"].flush()


def _oid(obj):
    if not hasattr(obj, "_verif_oid"):
        _state["n"] += 1
        try:
            obj._verif_oid = "%d-%d" % (os.getpid(), _state["n"])       # pylint: disable=protected-access
        except AttributeError:
            return None
    return obj._verif_oid                                               # pylint: disable=protected-access


def _grid(times, start, dt):
    """(count, sorted?, every time is start + k dt?)"""
    import numpy as np
    t = np.asarray(times, dtype=float)
    if len(t) == 0:
        return 0, True, True
    srt = bool(np.all(np.diff(t) > 0)) if len(t) > 1 else True
    ok = bool(np.max(np.abs(t - (start + dt * np.arange(len(t))))) < 1e-9 * max(1.0, abs(start) + abs(dt) * len(t)))
    return int(len(t)), srt, ok


def _step(backend):
    s = getattr(backend, "step", None) if backend is not None else None
    return -1 if s is None else int(s)


def install():
    import oqupy
    from oqupy import tempo as tempo_mod, pt_tempo as ptt_mod, pt_tebd as tebd_mod

    def wrap_init(cls, describe):
        orig = cls.__init__

        def __init__(self, *a, **kw):
            orig(self, *a, **kw)
            try:
                rec = describe(self)
                rec.update(ev="new", oid=_oid(self))
                if rec["oid"] is not None:
                    _emit(rec)
            except Exception as ex:  # pylint: disable=broad-except
                _emit({"ev": "hook-error", "where": cls.__name__ + ".__init__", "detail": repr(ex)[:200]})
        cls.__init__ = __init__

    def wrap_compute(cls, name, observe, target_of):
        orig = getattr(cls, name)

        def compute(self, *a, **kw):
            if getattr(self, "_verif_depth", 0) > 0:          # nested public call (get_process_tensor -> compute): one event
                return orig(self, *a, **kw)
            try:
                self._verif_depth = 1
            except AttributeError:
                return orig(self, *a, **kw)
            before = None
            try:
                before = observe(self)
            except Exception:  # pylint: disable=broad-except
                pass
            raised = True
            try:
                out = orig(self, *a, **kw)
                raised = False
                return out
            finally:
                self._verif_depth = 0
                try:
                    after = observe(self)
                    tgt, ongrid = target_of(self, a, kw)
                    if getattr(self, "_verif_oid", None) is not None and before is not None:
                        _emit({"ev": "compute", "oid": self._verif_oid, "call": name, "raised": raised, "target": tgt,
                               "ongrid": ongrid, "step_before": before["step"], "step_after": after["step"],
                               "nrec_before": before["nrec"], "nrec_after": after["nrec"], "sorted": after["sorted"],
                               "grid": after["grid"], "ptlen": after.get("ptlen", -1)})
                except Exception as ex:  # pylint: disable=broad-except
                    _emit({"ev": "hook-error", "where": cls.__name__ + "." + name, "detail": repr(ex)[:200]})
        setattr(cls, name, compute)

    # ---- Tempo / MeanFieldTempo
    def describe_tempo(kind):
        def f(self):
            s, g1 = _ticks(self._start_time)
            d, g2 = _ticks(self._parameters.dt)
            return {"kind": kind, "start": s, "dt": d, "ongrid": g1 and g2 and d > 0, "aux": 0}
        return f

    def observe_tempo(self):
        dyn = self._dynamics
        n, srt, ok = (0, True, True) if dyn is None else _grid(dyn.times, self._start_time, self._parameters.dt)
        return {"step": _step(self._backend_instance), "nrec": n, "sorted": srt, "grid": ok}

    def target_time(self, a, kw):
        t = kw.get("end_time", a[0] if a else None)
        return _ticks(t)
    for cls, kind in ((tempo_mod.Tempo, "tempo"), (tempo_mod.MeanFieldTempo, "mftempo")):
        wrap_init(cls, describe_tempo(kind))
        wrap_compute(cls, "compute", observe_tempo, target_time)

    # ---- GibbsTempo
    def describe_gibbs(self):
        return {"kind": "gibbs", "start": 0, "dt": 1, "ongrid": True, "aux": int(self._parameters.n_steps)}

    def observe_gibbs(self):
        dyn = self._dynamics
        n = 0 if dyn is None else len(dyn.times)
        srt = True if dyn is None or n < 2 else bool(all(x < y for x, y in zip(dyn.times[:-1], dyn.times[1:])))
        return {"step": _step(self._backend_instance), "nrec": int(n), "sorted": srt, "grid": True}
    wrap_init(tempo_mod.GibbsTempo, describe_gibbs)
    wrap_compute(tempo_mod.GibbsTempo, "compute", observe_gibbs, lambda self, a, kw: (0, True))

    # ---- PtTempo
    def describe_pt(self):
        s, g1 = _ticks(self._start_time)
        d, g2 = _ticks(self._parameters.dt)
        e, g3 = _ticks(self._end_time)
        return {"kind": "pttempo", "start": s, "dt": d, "ongrid": g1 and g2 and g3 and d > 0, "aux": e}

    def observe_pt(self):
        be = self._backend_instance
        try:
            plen = len(self._process_tensor)
        except Exception:  # pylint: disable=broad-except
            plen = -1
        # "sorted" carries: the process tensor handed out has the length the backend was asked for
        return {"step": _step(be), "nrec": int(self._num_steps), "sorted": True, "grid": True, "ptlen": int(plen)}
    wrap_init(ptt_mod.PtTempo, describe_pt)
    wrap_compute(ptt_mod.PtTempo, "compute", observe_pt, lambda self, a, kw: (0, True))
    wrap_compute(ptt_mod.PtTempo, "get_process_tensor", observe_pt, lambda self, a, kw: (0, True))

    # ---- PtTebd
    def describe_tebd(self):
        s, g1 = _ticks(self._start_time)
        d, g2 = _ticks(self._parameters.dt)
        return {"kind": "tebd", "start": s, "dt": d, "ongrid": g1 and g2 and d > 0, "aux": int(self._start_step)}

    def observe_tebd(self):
        res = self._results
        if not res:
            return {"step": -1 if self._step is None else int(self._step), "nrec": 0, "sorted": True, "grid": True}
        n, srt, ok = _grid(res["time"], self._start_time, self._parameters.dt)
        return {"step": -1 if self._step is None else int(self._step), "nrec": n, "sorted": srt, "grid": ok}

    def target_step(self, a, kw):
        t = kw.get("end_step", a[0] if a else None)
        return (int(t), True) if isinstance(t, int) else (0, False)
    wrap_init(tebd_mod.PtTebd, describe_tebd)
    wrap_compute(tebd_mod.PtTebd, "compute", observe_tebd, target_step)

    # ---- stateless front ends: compute_dynamics / compute_dynamics_with_field (one "call" event each)
    import inspect
    from oqupy import system_dynamics as sd_mod

    def pt_list(x):
        if x is None:
            return []
        if isinstance(x, (list, tuple)):
            out = []
            for y in x:
                out += pt_list(y)
            return out
        return [x]

    def wrap_fn(name, pts_arg, times_of):
        orig = getattr(sd_mod, name)
        sig = inspect.signature(orig)

        def fn(*a, **kw):
            raised = True
            out = None
            try:
                out = orig(*a, **kw)
                raised = False
                return out
            finally:
                try:
                    try:
                        b = sig.bind(*a, **kw)
                    except TypeError:
                        return                 # pylint: disable=lost-exception   (a call that does not even bind: no event)
                    b.apply_defaults()
                    arg = b.arguments
                    pts = [p for p in pt_list(arg.get(pts_arg)) if type(p).__name__ != "TrivialProcessTensor"]
                    lens = [len(p) for p in pts]
                    dt = arg.get("dt")
                    if dt is None:
                        dts = [p.dt for p in pts if p.dt is not None]
                        dt = dts[0] if dts else None
                    start = arg.get("start_time") or 0.0
                    ns = arg.get("num_steps")
                    s_t, g1 = _ticks(start)
                    d_t, g2 = _ticks(dt if dt is not None else 0.0)
                    rec = {"ev": "call", "oid": "-", "fn": name, "raised": raised, "start": s_t, "dt": d_t,
                           "ongrid": bool(g1 and g2 and d_t > 0), "nsteps": -1 if ns is None else int(ns),
                           "ptmin": min(lens) if lens else -1, "record_all": bool(arg.get("record_all", True)),
                           "nrec": -1, "sorted": True, "grid": True, "last": 0, "lastgrid": False}
                    if not raised and dt is not None:
                        times = times_of(out)
                        n, srt, _ = _grid(times, start, dt)
                        rec.update(nrec=n, sorted=srt)
                        if n:
                            rec["last"], rec["lastgrid"] = _ticks(times[-1])
                            if rec["record_all"]:
                                rec["grid"] = _grid(times, start, dt)[2]
                    _emit(rec)
                except Exception as ex:  # pylint: disable=broad-except
                    _emit({"ev": "hook-error", "where": name, "detail": repr(ex)[:200]})
        fn.__wrapped__ = orig
        setattr(sd_mod, name, fn)
        if getattr(oqupy, name, None) is orig:
            setattr(oqupy, name, fn)
    wrap_fn("compute_dynamics", "process_tensor", lambda d: d.times)
    wrap_fn("compute_dynamics_with_field", "process_tensor_list", lambda d: d.times)
    return oqupy


if _OUT:
    install()
