"""Child process for the process-tensor file experiments (C16/C17).

usage: python -m harness.ptfile_child <scenario> <path> <crash_at> <flush_at> <trace_out>

Runs a writer scenario with oqupy.process_tensor's h5py replaced by a recording proxy.
Every h5py call that changes the file is one event (the linearization point is the
return of the h5py call).  After event number <flush_at> the file is flushed
(write-back), after event number <crash_at> the process dies with os._exit(17)
(0 = never).  The event trace is written as JSON to <trace_out> when the scenario
finishes normally.
"""
import json
import os
import sys

import numpy as np


class Recorder:
    def __init__(self, crash_at, flush_at):
        self.events = []
        self.crash_at = crash_at
        self.flush_at = flush_at
        self.file = None

    def emit(self, op, name="", val=0):
        if isinstance(val, (bool, np.bool_)):
            val = "TRUE" if val else "FALSE"
        elif isinstance(val, (int, np.integer)):
            val = int(val)
        else:
            val = str(val)
        self.events.append({"op": op, "name": name, "val": val})
        n = len(self.events)
        if n == self.flush_at and self.file is not None and op != "close":
            self.file.flush()
        if n == self.crash_at:
            if os.environ.get("VERIF_CRASH_MODE", "kill") == "kill":
                os._exit(17)                      # the process is killed
            raise KeyboardInterrupt("injected")   # the writer is interrupted: the stack unwinds, the
                                                  # interpreter shuts down normally (HDF5 flushes its files)


class AttrsProxy:
    def __init__(self, attrs, rec):
        self._a = attrs
        self._rec = rec

    def __setitem__(self, k, v):
        self._a[k] = v
        self._rec.emit("attr", k, v)

    def __getitem__(self, k):
        return self._a[k]

    def __contains__(self, k):
        return k in self._a


class DSProxy:
    def __init__(self, ds, name, rec):
        self._d = ds
        self._n = name
        self._rec = rec

    def resize(self, shape):
        self._d.resize(shape)
        self._rec.emit("resize", self._n, shape[0])

    def __setitem__(self, k, v):
        self._d[k] = v
        self._rec.emit("setitem", self._n, int(k))

    def __getitem__(self, k):
        return self._d[k]

    def __len__(self):
        return len(self._d)

    def __iter__(self):
        return iter(self._d)

    def __array__(self, *a, **kw):
        return np.array(self._d)

    @property
    def shape(self):
        return self._d.shape


class FileProxy:
    def __init__(self, real_h5py, rec, filename, mode):
        self._f = real_h5py.File(filename, mode)
        self._rec = rec
        self._mode = mode
        rec.file = self._f
        if mode in ("w", "x"):
            rec.emit("create", mode)

    @property
    def attrs(self):
        return AttrsProxy(self._f.attrs, self._rec) if self._mode != "r" else self._f.attrs

    def create_dataset(self, name, shape, **kw):
        ds = self._f.create_dataset(name, shape, **kw)
        self._rec.emit("dataset", name, shape[0])
        return DSProxy(ds, name, self._rec)

    def __getitem__(self, k):
        return self._f[k]

    def flush(self):
        self._f.flush()

    def close(self):
        self._f.close()
        if self._mode != "r":
            self._rec.emit("close")


class H5Proxy:
    def __init__(self, real, rec):
        self._real = real
        self._rec = rec

    def File(self, filename, mode="r"):
        return FileProxy(self._real, self._rec, filename, mode)

    def __getattr__(self, k):
        return getattr(self._real, k)


def ancilla_pt(n, with_caps=True, dt=0.25, transforms=False, name="probe", description="ancilla pt"):
    from harness import ptc_engine as eng
    case = {"d": 2, "m": 4, "n": n, "edims": [2], "a0": [1],
            "plan": [["env", r, 1, ("SW", "CSP", "SC")[r % 3]] for r in range(n)]}
    pt = eng.build_pts(case, {"transforms": transforms, "caps": "computed" if with_caps else "none",
                              "pt_dt": dt is not None}, dt if dt is not None else 0.25)[0]
    pt.name = name
    pt.description = description
    return pt


def scenario(name, path):
    import oqupy
    if name.startswith("export"):
        # export2 / export3 / export1nocaps / exportT (transforms)
        n = int(name[6]) if name[6:7].isdigit() else 2
        pt = ancilla_pt(n, with_caps="nocaps" not in name, transforms=name.endswith("T"))
        pt.export(path, overwrite="over" in name)
        return
    if name.startswith("stream"):
        # a user script that streams tensors into a file-backed process tensor and keeps its labels up to date
        from oqupy.process_tensor import FileProcessTensor
        n = int(name[6])
        src = ancilla_pt(n)
        fpt = FileProcessTensor("write", filename=path, hilbert_space_dimension=2, dt=0.25)
        fpt.name = "streamed"
        for k in range(n):
            fpt.set_mpo_tensor(k, np.array(src.get_mpo_tensor(k, transformed=False)))
            fpt.description = "%d of %d tensors written" % (k + 1, n)
        for k in range(n + 1):
            fpt.set_cap_tensor(k, np.array(src.get_cap_tensor(k)))
        fpt.description = "complete"
        fpt.close()
        return
    if name.startswith("ptcompute"):
        # the pt_tempo_compute() shortcut with a file-backed process tensor
        from harness import probes
        n = int(name[9])
        dt = 0.25
        sd = probes.make_probe_sd(probes.probe_weights(3, 16, scale=3e-2), dt)
        bath = oqupy.Bath(np.diag([0.5, -0.5]), sd)
        params = oqupy.TempoParameters(dt=dt, epsrel=1e-12, dkmax=2)
        pt = oqupy.pt_tempo_compute(bath, 0.0, n * dt + dt / 4, parameters=params, process_tensor_file=path,
                                    progress_type="silent")
        pt.close()
        return
    if name.startswith("pttempo"):
        from harness import probes
        n = int(name[7])
        dt = 0.25
        sd = probes.make_probe_sd(probes.probe_weights(3, 16, scale=3e-2), dt)
        coupling = np.diag([0.5, -0.5]) if "D" not in name else 0.5 * np.array([[0, 1], [1, 0]])
        bath = oqupy.Bath(coupling, sd)
        params = oqupy.TempoParameters(dt=dt, epsrel=1e-12, dkmax=2)
        p = oqupy.PtTempo(bath, 0.0, n * dt + dt / 4, params, process_tensor_file=path,
                          overwrite="over" in name)
        pt = p.get_process_tensor(progress_type="silent")
        pt.close()
        return
    raise ValueError(name)


def main():
    scen, path, crash_at, flush_at, trace_out = sys.argv[1:6]
    rec = Recorder(int(crash_at), int(flush_at))
    import oqupy.process_tensor as ptmod
    import h5py as real
    ptmod.h5py = H5Proxy(real, rec)
    import warnings
    warnings.simplefilter("ignore")
    if os.environ.get("VERIF_FAKE_VERSION"):
        ptmod.__version__ = os.environ["VERIF_FAKE_VERSION"]       # the writer is another release of the same library
    fail_step = int(os.environ.get("VERIF_FAIL_STEP", "0") or 0)
    if fail_step:
        # the writer is interrupted between file operations: in the fail_step-th propagation step of PT-TEMPO
        from oqupy.backends import pt_tempo_backend as ptb
        real_step = ptb.PtTempoBackend.compute_step
        calls = [0]

        def compute_step(self, *a, **kw):
            calls[0] += 1
            if calls[0] == fail_step:
                raise KeyboardInterrupt("injected in propagation step %d" % fail_step)
            return real_step(self, *a, **kw)
        ptb.PtTempoBackend.compute_step = compute_step
    try:
        scenario(scen, path)
    except KeyboardInterrupt:
        sys.exit(17)
    if trace_out != "-":
        with open(trace_out, "w") as f:
            json.dump(rec.events, f)
    return 0


if __name__ == "__main__":
    sys.exit(main())
