"""Replay of PTContract.tla behaviours into the real contraction code.

A behaviour (case) carries the plan of gates that were applied and the reduced state
recorded after every step as a list of terms.  The harness builds, from the same gate
alphabet, a real System (half-step superoperators), real SimpleProcessTensors (MPO
tensors of the ancilla environments, rank 3 or 4, with or without transforms, caps
by compute_caps) and a real Control object, runs compute_dynamics and compares every
entry of every recorded state.
"""
import numpy as np

from harness import probes

PHASE_TAB = [[0, 0, 0, 0], [0, 1, 2, 3], [0, 3, 1, 2]]
PRIMES = [2, 3, 5, 7, 11, 13, 17, 19]
A_DIAG = np.array([2 + 1j, 3 + 2j, 1 + 4j, 5 + 2j])
B_DIAG = np.array([1 + 2j, 4 + 1j, 2 + 3j, 6 + 1j])
TOL = 1e-9
DEPH_G = 0.0625        # gamma * dt / 4 of the parameterised dephasing (C08)


def omega(m):
    return np.exp(2j * np.pi / m)


def sys_unitary(d, g, m):
    k, phid = g
    u = np.zeros((d, d), dtype=complex)
    for t in range(d):
        u[(t + k) % d, t] = omega(m) ** PHASE_TAB[phid - 1][t]
    return u


def env_map(name, t, a, d, ed):
    if name == "I":
        return t, a, 0
    if name == "CS":
        return t, (a + t) % ed, 0
    if name == "CP":
        return t, a, t * a
    if name == "SC":
        return (t + a) % d, a, 0
    if name == "SW":
        return a % d, t % ed, 0
    if name == "CSP":
        return t, (a + t) % ed, t * a + a
    if name == "SX":
        return (t + 1) % d, a, t
    raise ValueError(name)


DIAGONAL = {"I", "CS", "CP", "CSP"}


def env_unitary(name, d, ed, m):
    """U[t_out, a_out, t_in, a_in]"""
    u = np.zeros((d, ed, d, ed), dtype=complex)
    for t in range(d):
        for a in range(ed):
            t2, a2, ph = env_map(name, t, a, d, ed)
            u[t2, a2, t, a] = omega(m) ** ph
    return u


def superop(u):
    """row-major vec: vec(U rho U^dagger) = (U kron U*) vec(rho)"""
    return np.kron(u, u.conj())


def mpo_tensor(u4, first_state=None, rank3=False):
    """MPO tensor [past bond, future bond, system in, system out] of one step of an
    ancilla environment with joint unitary U[x, a, y, b] (x,a out; y,b in)."""
    d, ed = u4.shape[0], u4.shape[1]
    t = np.einsum("xayb,XAYB->bBaAyYxX", u4, u4.conj()).reshape(ed * ed, ed * ed, d * d, d * d)
    if first_state is not None:
        t = np.tensordot(first_state.reshape(ed * ed), t, axes=(0, 0))[np.newaxis]
    if rank3:
        # system-diagonal gate: delta between in and out leg
        t = np.einsum("pfii->pfi", t)
    return t


def build_pts(case, variant, dt):
    """`variant["first_use"]`: another case of the same shape - the process tensors are first filled with ITS
    tensors and contracted once, then every tensor is overwritten with this case's (set_mpo_tensor on the same
    objects): results must be those of the current content."""
    import oqupy
    from oqupy.process_tensor import SimpleProcessTensor
    other = variant.get("first_use")
    if other is not None:
        v2 = {k: v for k, v in variant.items() if k != "first_use"}
        pts = build_pts(other, v2, dt)
        system = build_system(other)
        oqupy.compute_dynamics(system, initial_state=np.eye(case["d"], dtype=complex) / case["d"], process_tensor=pts,
                               progress_type="silent")
        fresh = build_pts(case, v2, dt)
        for pt, new in zip(pts, fresh):
            for r in range(case["n"]):
                pt.set_mpo_tensor(r, new.get_mpo_tensor(r, transformed=False) if False else new._mpo_tensors[r])
            if v2.get("caps", "computed") == "computed":
                pt.compute_caps()
        return pts
    d = case["d"]
    m = case["m"]
    n = case["n"]
    edims = case["edims"]
    a0 = case["a0"]
    gates = {}
    for item in case["plan"]:
        if item[0] == "env":
            gates[(item[1], item[2])] = item[3]
    pts = []
    for e, ed in enumerate(edims, start=1):
        w = None
        gmat = None
        kw = {}
        if variant.get("transforms"):
            w = sys_unitary(d, (1, 3), m)            # a monomial change of basis of the system
            gmat = superop(w)
            if variant.get("transforms") == "scaled":
                # a non-unitary (but invertible) change of the Liouville basis
                gmat = np.diag(1.0 + 0.25 * np.arange(d * d)) @ gmat
            kw = {"transform_in": gmat.T, "transform_out": np.linalg.inv(gmat).T}
            if variant.get("transforms") == "in-only":
                kw.pop("transform_out")
            if variant.get("transforms") == "out-only":
                kw.pop("transform_in")
        if variant.get("container") == "file":
            # the hand-built tensors go through the HDF5 container (a temporary file, removed by run_case)
            from oqupy.process_tensor import FileProcessTensor
            pt = FileProcessTensor("write", hilbert_space_dimension=d, dt=(dt if variant.get("pt_dt", True) else None), **kw)
        else:
            pt = SimpleProcessTensor(d, dt=(dt if variant.get("pt_dt", True) else None), **kw)
        anc = np.zeros((ed, ed), dtype=complex)
        anc[a0[e - 1], a0[e - 1]] = 1.0
        for r in range(n):
            name = gates[(r, e)]
            u4 = env_unitary(name, d, ed, m)
            r3 = bool(variant.get("rank3")) and name in DIAGONAL and w is None
            t = mpo_tensor(u4, first_state=anc if r == 0 else None, rank3=r3)
            if r == n - 1:
                # close the process tensor: trace out the ancilla after the last step
                t = np.tensordot(t, np.eye(ed).reshape(ed * ed), axes=(1, 0))
                t = np.moveaxis(t[np.newaxis], 0, 1)
            if w is not None:
                # stored tensor lives in the transformed basis: T~ = inv(G).T @ T @ G.T on (in, out)
                gin = np.linalg.inv(gmat).T if "transform_in" in kw else np.eye(d * d)
                gout = gmat.T if "transform_out" in kw else np.eye(d * d)
                t = np.einsum("iy,pfyx,xo->pfio", gin, t, gout)
            if variant.get("layout") == "F":
                t = np.asfortranarray(t)          # assembled with another leg order in memory (not C-contiguous)
            if variant.get("buffer"):
                # the caller fills one work buffer per shape again and again (complex128, as the process tensor stores it)
                key = t.shape
                bufs = variant.setdefault("_buffers", {})
                if key not in bufs:
                    bufs[key] = np.zeros(key, dtype=complex)
                bufs[key][...] = t
                pt.set_mpo_tensor(r, bufs[key])
            else:
                pt.set_mpo_tensor(r, t)
        if variant.get("buffer"):
            for b_ in variant.get("_buffers", {}).values():
                b_[...] = np.nan                       # ... and leaves garbage in it afterwards
        if variant.get("caps", "computed") == "computed":
            pt.compute_caps()
        elif variant.get("caps") == "none":
            pass
        else:
            cap = np.eye(ed).reshape(ed * ed)
            pt.set_cap_tensor(0, np.array([1.0]))
            for r in range(1, n):
                pt.set_cap_tensor(r, cap)
            pt.set_cap_tensor(n, np.array([1.0]))
        pts.append(pt)
    return pts


def build_system(case):
    import oqupy
    d, m = case["d"], case["m"]
    halves = {}
    for item in case["plan"]:
        if item[0] in ("h1", "h2"):
            halves[(item[0], item[1])] = superop(sys_unitary(d, item[2], m))

    class PlanSystem(oqupy.System):
        start_times = None      # the start times for which the library asked for propagators (observation)

        def get_propagators(self, dt, start_time, subdiv_limit, epsrel):
            if self.start_times is None:
                self.start_times = []
            self.start_times.append(float(start_time))

            def propagators(step):
                return halves[("h1", step)], halves[("h2", step)]
            return propagators

    return PlanSystem(np.zeros((d, d)))


def k_operator(d):
    """non-diagonal monomial operator K = Shift(1) . diag(B)"""
    k = np.zeros((d, d), dtype=complex)
    for t in range(d):
        k[(t + 1) % d, t] = B_DIAG[t]
    return k


def control_superop(d, m, r, cid):
    if cid == 1:
        return np.eye(d * d, dtype=complex)
    if cid == 2:
        return PRIMES[r] * superop(sys_unitary(d, (1, 2), m))
    if cid == 3:
        p = np.zeros((d, d), dtype=complex)
        p[0, 0] = 1.0
        return np.kron(p, p.conj())
    if cid == 4:
        return np.kron(np.diag(A_DIAG[:d]), np.eye(d))          # left multiplication by A
    if cid == 5:
        return superop(sys_unitary(d, (1, 1), m))
    if cid == 6:
        return np.kron(np.diag(B_DIAG[:d]), np.eye(d))
    if cid == 7:
        return np.kron(np.eye(d), np.diag(A_DIAG[:d]).T)          # right multiplication by A
    if cid == 8:
        return np.kron(np.eye(d), np.diag(B_DIAG[:d]).T)
    if cid == 9:
        return np.kron(k_operator(d), np.eye(d))                   # left multiplication by K
    raise ValueError(cid)


def control_time(c, dt, start, float_times=False):
    r, post, kind = c[0], c[1], c[4]
    if kind == "f-":
        return float(start + (r - 0.3) * dt)
    if kind == "f+":
        return float(start + (r + 0.3) * dt)
    if float_times and (r % 2 == 1):
        # all controls of one step and side share the same float time
        return float(start + (r + (-0.3 if post else 0.3)) * dt)
    return int(r)


def build_control(case, dt, start, float_times=False, between=None):
    """`between`: a callable run after the first half of the controls has been added (the same Control
    object is used in a computation, then extended: controls added later must still act)."""
    import oqupy
    d, m = case["d"], case["m"]
    ctrl = oqupy.Control(d)
    entries = sorted(case["ctl"], key=lambda c: c[3])
    for i, c in enumerate(entries):
        if between is not None and i == (len(entries) + 1) // 2:
            between(ctrl)
        ctrl.add_single(control_time(c, dt, start, float_times), control_superop(d, m, c[0], c[2]),
                        post=bool(c[1]))
    return ctrl


def unitary_log_hamiltonian(u, tau):
    """Hermitian H with expm(-1j H tau) = u."""
    from scipy.linalg import logm
    h = 1j * logm(u) / tau
    return (h + h.conj().T) / 2


def step_unitaries(case):
    d, m = case["d"], case["m"]
    out = {}
    for item in case["plan"]:
        if item[0] in ("h1", "h2"):
            out[(item[0], item[1])] = sys_unitary(d, item[2], m)
    return out


def expected_state(rec, rho0, d, m):
    out = np.zeros((d, d), dtype=complex)
    for t in rec:
        c = rho0[t["s"], t["sp"]] * omega(m) ** t["ph"]
        for f in t["f"]:
            if f[0] == "p":
                c *= f[1]
            elif f[0] == "A":
                c *= A_DIAG[f[1]]
            elif f[0] == "B":
                c *= B_DIAG[f[1]]
            elif f[0] == "Ac":
                c *= np.conj(A_DIAG[f[1]])
            elif f[0] == "Bc":
                c *= np.conj(B_DIAG[f[1]])
            elif f[0] == "d":
                c *= np.exp(-DEPH_G * f[1])
            else:
                raise ValueError(f)
        out[t["kt"], t["bt"]] += c
    return out


def run_case(job):
    import oqupy
    case, variant, seed = job["case"], job["variant"], job["seed"]
    d, m, n = case["d"], case["m"], case["n"]
    dt = variant.get("dt", 0.25)
    start = variant.get("start", 0.0)
    rho0 = probes.generic_rho(d, seed)
    out = []
    try:
        pts = build_pts(case, variant, dt)
        order = variant.get("order")
        if order:
            pts = [pts[i] for i in order]
        system = build_system(case)
        kw = {}
        if not pts or not variant.get("pt_dt", True):
            kw["dt"] = dt
        if not pts:
            kw["num_steps"] = n
        between = None
        if variant.get("incremental"):
            between = lambda c_: oqupy.compute_dynamics(system, initial_state=rho0, process_tensor=pts if pts else None,
                                                        control=c_, start_time=start, progress_type="silent", **kw)
        ctrl = build_control(case, dt, start, float_times=variant.get("float_times", False), between=between) \
            if case["ctl"] else None
        if variant.get("reused") and ctrl is not None:
            # the Control object (absolute times) has been used before, for a computation starting elsewhere
            oqupy.compute_dynamics(system, initial_state=rho0, process_tensor=pts if pts else None, control=ctrl,
                                   start_time=start + variant["reused"] * dt, progress_type="silent", **kw)
        dyn = oqupy.compute_dynamics(system, initial_state=rho0,
                                     process_tensor=pts if pts else None,
                                     control=ctrl, start_time=start, progress_type="silent",
                                     record_all=not variant.get("final_only", False), **kw)
    except Exception as ex:  # pylint: disable=broad-except
        import traceback
        return [{"what": "exception", "detail": "%s: %s" % (type(ex).__name__, str(ex)[:200]),
                 "tb": traceback.format_exc()[-400:]}]
    states = np.array(dyn.states)
    for pt_ in pts:
        if hasattr(pt_, "remove") and hasattr(pt_, "filename"):
            try:
                pt_.remove()
            except Exception:  # pylint: disable=broad-except
                pass
    if variant.get("final_only"):
        # only the final state is recorded: it is the last state of the full record, under the final time
        if len(states) != 1:
            return [{"what": "length", "expected": 1, "observed": len(states)}]
        want = expected_state(case["recs"][-1], rho0, d, m)
        err = np.max(np.abs(states[0] - want))
        if not err < TOL * max(1.0, np.max(np.abs(want))):
            return [{"what": "state", "step": n, "err": float(err), "final_only": True}]
        if abs(dyn.times[0] - (start + n * dt)) > 1e-12:
            return [{"what": "time", "step": n, "final_only": True}]
        return []
    seen = getattr(system, "start_times", None) or []
    if any(abs(x - start) > 1e-12 for x in seen[-1:]):
        # a time-dependent system would be sampled at the wrong times
        return [{"what": "system-propagators-requested-for-wrong-start-time", "expected": start, "observed": seen[-1]}]
    if len(states) != n + 1:
        return [{"what": "length", "expected": n + 1, "observed": len(states)}]
    for r, rec in enumerate(case["recs"]):
        want = expected_state(rec, rho0, d, m)
        err = np.max(np.abs(states[r] - want))
        if not err < TOL * max(1.0, np.max(np.abs(want))):
            idx = int(np.argmax(np.abs(states[r] - want)))
            out.append({"what": "state", "step": r, "err": float(err), "element": list(divmod(idx, d)),
                        "expected": str(want.flat[idx]), "observed": str(states[r].flat[idx])})
            break
        if abs(dyn.times[r] - (start + r * dt)) > 1e-12:
            out.append({"what": "time", "step": r})
    return out
