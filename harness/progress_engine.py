"""Deterministic replay of Progress.tla schedules on the real ProgressBar.

oqupy.util.Timer and oqupy.util.Lock are replaced by fakes whose methods are the
preemption points: every thread (the caller and each timer-callback thread) blocks at
the entry of Timer(...), Timer.start(), Timer.cancel(), Lock.acquire and Lock.release
until the scheduler grants it the next step.  The scheduler follows the action
sequence of a TLC behaviour; at every grant it checks that the thread is waiting at the
statement the specification says comes next (structural conformance), and at the end it
compares the timers' states with the specification's.
"""
import io
import threading

TIMEOUT = 60.0


class Mismatch(Exception):
    pass


class Sched:
    def __init__(self):
        self.cv = threading.Condition()
        self.waiting = {}       # thread id -> point name it waits at
        self.turn = None
        self.finished = set()
        self.ids = {}           # threading ident -> logical id
        self.timers = {}        # timer id -> FakeTimer
        self.next_timer = 1
        self.errors = []
        self.writes = []        # (thread id) per write call
        self.caller_done = False
        self.late_writes = 0

    def me(self):
        return self.ids.get(threading.get_ident())

    def point(self, name):
        th = self.me()
        if th is None:
            return        # not a scheduled thread (construction outside the experiment)
        with self.cv:
            self.waiting[th] = name
            self.cv.notify_all()
            if not self.cv.wait_for(lambda: self.turn == th, TIMEOUT):
                raise RuntimeError("scheduler never granted %s at %s" % (th, name))
            self.turn = None
            del self.waiting[th]

    def settle(self, th):
        """wait until thread th is at a point or finished"""
        with self.cv:
            ok = self.cv.wait_for(lambda: th in self.waiting or th in self.finished, TIMEOUT)
        if not ok:
            # a scheduling time-out is a failure of the harness (machine overloaded?), never a verdict
            raise RuntimeError("thread %s neither reached a statement nor finished within %ss" % (th, TIMEOUT))

    def grant(self, th, expect):
        self.settle(th)
        with self.cv:
            if th in self.finished:
                raise Mismatch("thread %s has finished but the specification expects '%s'" % (th, expect))
            at = self.waiting[th]
            if at != expect:
                raise Mismatch("thread %s is at statement '%s' but the specification expects '%s'" % (th, at, expect))
            self.turn = th
            self.cv.notify_all()
        # let it run to its next point / end
        with self.cv:
            self.cv.wait_for(lambda: self.turn is None, TIMEOUT)
        self.settle(th)

    def run_thread(self, th, fn):
        def body():
            self.ids[threading.get_ident()] = th
            try:
                fn()
            except Exception as ex:  # pylint: disable=broad-except
                if type(ex).__name__ != "InjectedOutputError":
                    self.errors.append("%s: %s" % (type(ex).__name__, ex))
            finally:
                with self.cv:
                    self.finished.add(th)
                    if th == 0:
                        self.caller_done = True
                    self.cv.notify_all()
        t = threading.Thread(target=body, daemon=True)
        t.start()
        return t


def make_fakes(sched):
    class FakeTimer:
        def __init__(self, interval, function, args=None, kwargs=None):
            sched.point("new")
            self.id = sched.next_timer
            sched.next_timer += 1
            self.function = function
            self.state = "new"
            sched.timers[self.id] = self

        def start(self):
            sched.point("start")
            if self.state == "new":
                self.state = "armed"

        def cancel(self):
            sched.point("cancel")
            if self.state in ("new", "armed"):
                self.state = "cancelled"

    class FakeLock:
        def __init__(self):
            self.holder = None

        def acquire(self, blocking=True, timeout=-1):
            sched.point("acquire")
            if self.holder is not None:
                raise RuntimeError("lock granted while held")
            self.holder = sched.me()
            return True

        def release(self):
            sched.point("release")
            self.holder = None

        def __enter__(self):
            self.acquire()
            return self

        def __exit__(self, *a):
            self.release()

    class FakeFile(io.StringIO):
        def write(self, s):
            th = sched.me()
            if th not in (None, 0) and sched.caller_done:
                sched.late_writes += 1
            sched.writes.append(th)
            return len(s)

        def flush(self):
            pass

    return FakeTimer, FakeLock, FakeFile


SKIP = {"call_update", "call_exit", "raise", "check", "stop", "print", "print_fail"}


class InjectedOutputError(OSError):
    pass


def replay_schedule(case):
    """Run one TLC behaviour on the real ProgressBar. Returns list of mismatches."""
    import oqupy.util as util
    sched = Sched()
    fake_timer, fake_lock, fake_file = make_fakes(sched)
    saved = (util.Timer, getattr(util, "Lock", None))
    util.Timer = fake_timer
    if saved[1] is not None:
        util.Lock = fake_lock
    out = []
    try:
        hist = case["hist"]
        n_updates = sum(1 for h in hist if h[0] == 0 and h[1] == "call_update")
        do_exit = any(h[0] == 0 and h[1] == "call_exit" for h in hist)
        bar = util.ProgressBar(10, None)
        bar._file = fake_file()
        # outcome of every redraw, per thread, in the order of the behaviour
        outcomes = {}
        for th, act in hist:
            if act in ("print", "print_fail"):
                outcomes.setdefault(th, []).append(act == "print")
        failing = any(act == "print_fail" for _, act in hist)
        real_print = bar._print_status

        def print_status():
            th = sched.me()
            seq = outcomes.get(th)
            if seq:
                if not seq.pop(0):
                    raise InjectedOutputError("injected: the output stream rejects the write")
            return real_print()
        if failing:
            bar._print_status = print_status

        def caller():
            if failing:
                # the APIs under this fault class use the bar as a context manager
                try:
                    with bar:
                        for k in range(n_updates):
                            bar.update(k)
                except InjectedOutputError:
                    pass
                return
            bar.enter()
            for k in range(n_updates):
                bar.update(k)
            if do_exit:
                bar.exit()
        sched.run_thread(0, caller)
        try:
            for th, act in hist:
                if act in SKIP:
                    continue
                if act == "fire":
                    t = sched.timers.get(th)
                    if t is None or t.state != "armed":
                        raise Mismatch("specification fires timer %s but the real timer is %s" % (
                            th, None if t is None else t.state))
                    t.state = "fired"
                    sched.run_thread(th, t.function)
                    sched.settle(th)
                    continue
                sched.grant(th, act)
            # every thread must be finished now (the behaviour is complete)
            for th in list(sched.waiting):
                raise Mismatch("thread %s still waits at '%s' after the behaviour ended" % (th, sched.waiting[th]))
        except Mismatch as ex:
            out.append({"what": "protocol-mismatch", "detail": str(ex)})
            # release everything so that threads can end
            with sched.cv:
                sched.ids.clear()
                sched.turn = None
            return out
        if sched.errors:
            out.append({"what": "exception-in-thread", "detail": sched.errors[:2]})
        want = {int(k) if not isinstance(k, int) else k: v for k, v in (
            case["tstate"].items() if isinstance(case["tstate"], dict) else enumerate(case["tstate"], start=1))}
        got = {i: t.state for i, t in sched.timers.items()}
        for i, st in want.items():
            if st == "none":
                if i in got:
                    out.append({"what": "extra-timer", "id": i})
            elif got.get(i) != st:
                out.append({"what": "timer-state", "id": i, "expected": st, "observed": got.get(i)})
        armed = sum(1 for t in sched.timers.values() if t.state == "armed")
        if armed != case["armed"]:
            out.append({"what": "armed-count", "expected": case["armed"], "observed": armed})
    finally:
        util.Timer = saved[0]
        if saved[1] is not None:
            util.Lock = saved[1]
    return out


# ------------------------------------------------------------------ passive fake (API faults)

def install_passive_timer():
    """Replace oqupy.util.Timer by a timer that never fires; returns the registry list."""
    import oqupy.util as util
    registry = []

    class PassiveTimer:
        def __init__(self, interval, function, args=None, kwargs=None):
            self.state = "new"
            self.function = function
            registry.append(self)

        def start(self):
            if self.state == "new":
                self.state = "armed"

        def cancel(self):
            if self.state in ("new", "armed"):
                self.state = "cancelled"

    util.Timer = PassiveTimer
    return registry
