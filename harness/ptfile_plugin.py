"""pytest plugin: while ANY program (the repository's own tests) runs, every HDF5 file that oqupy.process_tensor opens for
writing gets its own recorder (harness/ptfile_child.py proxies: one event per h5py call that changes the file, logged at the
call's return).  At interpreter exit the traces are dumped to VERIF_PTFILE_TRACES; C17 validates each of them with TLC
against specs/PTFile.tla (trace conformance + CrashNeverClean / CleanCloseComplete / FlagCoversData on the crash model)."""
import atexit
import json
import os

_OUT = os.environ.get("VERIF_PTFILE_TRACES")
_REG = []


def install():
    import h5py as real
    import oqupy.process_tensor as ptmod
    from harness.ptfile_child import Recorder, FileProxy

    class Multi:
        def File(self, filename, mode="r"):
            rec = Recorder(0, 0)
            if mode != "r":
                _REG.append((str(filename), mode, rec))
            return FileProxy(real, rec, filename, mode)

        def __getattr__(self, k):
            return getattr(real, k)
    ptmod.h5py = Multi()

    def dump():
        with open(_OUT, "w") as f:
            json.dump([{"file": os.path.basename(fn), "mode": mode, "events": rec.events} for fn, mode, rec in _REG], f)
    atexit.register(dump)


if _OUT:
    install()
