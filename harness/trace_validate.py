"""Code -> spec: record traces of public compute calls from (a) the repository's own unmodified test-suite and (b) the
randomised driver, and let TLC validate every event against specs/TraceRun.tla.  Used by C14 (and C13)."""
import json
import os
import shutil
import subprocess
import tempfile

from harness import core

CFG = """SPECIFICATION Spec
INVARIANT EmitBad
POSTCONDITION TraceAccepted
CHECK_DEADLOCK FALSE
"""


def _env(trace):
    return dict(os.environ, VERIF_TRACE_FILE=trace, OQUPY_VERIF="1", PYTHONPATH=core.VERIF + ":" + core.REPO,
                OMP_NUM_THREADS="1", PYTHONHASHSEED="0")


def record(tier, seed, tmp, light=False):
    """returns list of (source label, trace file)"""
    out = []
    procs = []
    # (a) the repository's tests as drivers (their assertions are not what is judged here: every event is)
    suites = [("repo tests/coverage", ["tests/coverage"])]
    if tier == "thorough":
        suites.append(("repo tests/physics", ["tests/physics"]))
    for label, paths in suites:
        tr = os.path.join(tmp, "trace_%d.ndjson" % len(out))
        p = subprocess.Popen([core.PY, "-m", "pytest", "-q", "-p", "no:cacheprovider", "-p", "harness.trace_plugin",
                              "-x", "--timeout=900"] + paths, cwd=core.REPO, env=_env(tr), stdout=subprocess.PIPE,
                             stderr=subprocess.STDOUT, text=True)
        procs.append((p, label))
        out.append((label, tr))
    # (b) randomised histories
    nshards = 6 if tier == "quick" else 12
    per = 100 if tier == "quick" else 600
    if light:
        nshards, per, seed = nshards // 3, per, seed + 77
    for k in range(nshards):
        tr = os.path.join(tmp, "trace_%d.ndjson" % len(out))
        p = subprocess.Popen([core.PY, "-m", "harness.trace_driver", str(1000 * seed + k), str(per)], cwd=core.VERIF,
                             env=_env(tr), stdout=subprocess.PIPE, stderr=subprocess.STDOUT, text=True)
        procs.append((p, "driver %d" % k))
        out.append(("randomised driver, shard %d" % k, tr))
    notes = []
    for p, label in procs:
        try:
            txt = p.communicate(timeout=3000)[0]
        except subprocess.TimeoutExpired:
            p.kill()
            raise core.MachineryError("trace recording timed out: %s" % label)
        if "DRIVER-UNEXPECTED" in txt:
            notes.append("%s: %s" % (label, [ln for ln in txt.splitlines() if "DRIVER-UNEXPECTED" in ln][:3]))
        if label.startswith("driver") and p.returncode != 0:
            notes.append("%s exited with %d: %s" % (label, p.returncode, txt[-300:]))
    return out, notes


def validate(ctx, trace_path, label):
    r = ctx.tlc("TraceRun", CFG, label=label, workers=1, env={"TRACE_FILE": trace_path}, must_hold=False, timeout=1800)
    if r.violated and r.violated != "TraceAccepted":
        raise core.MachineryError("TraceRun.tla on %s: %s\n%s" % (label, r.violated, r.raw[-1500:]))
    summary = next((c for c in r.cases if "bad" in c), None)
    if summary is None:
        raise core.MachineryError("TraceRun.tla consumed no trace (%s)\n%s" % (label, r.raw[-1500:]))
    return summary


def run(ctx, key_prefix, light=False):
    tmp = tempfile.mkdtemp(prefix="vtrace_")
    try:
        sources, notes = record(ctx.tier, ctx.seed, tmp, light)
        for n in notes:
            ctx.note("trace recording: " + n)
        merged = os.path.join(tmp, "all.ndjson")
        events = []
        with open(merged, "w") as fo:
            for label, path in sources:
                if not os.path.exists(path):
                    continue
                for line in open(path):
                    if line.strip():
                        fo.write(line)
                        e = json.loads(line)
                        e["_src"] = label
                        events.append(e)
        if len(events) < 50:
            raise core.MachineryError("trace recording produced only %d events" % len(events))
        summary = validate(ctx, merged, "code -> spec: %d recorded events" % len(events))
        if summary["events"] != len(events):
            raise core.MachineryError("TLC consumed %s of %d events" % (summary["events"], len(events)))
        # ---- binding self-test: a corrupted field must be rejected
        kinds = {e["oid"]: e["kind"] for e in events if e["ev"] == "new"}
        idx = next(i for i, e in enumerate(events) if e["ev"] == "compute" and not e["raised"] and e["call"] == "compute"
                   and e["step_after"] > 0 and kinds.get(e["oid"]) in ("tempo", "mftempo", "tebd"))
        corrupt = os.path.join(tmp, "corrupt.ndjson")
        with open(corrupt, "w") as fo:
            for i, e in enumerate(events):
                e2 = {k: v for k, v in e.items() if k != "_src"}
                if i == idx:
                    e2["step_after"] += 1
                fo.write(json.dumps(e2) + "\n")
        s2 = validate(ctx, corrupt, "binding self-test: one corrupted field (must be rejected)")
        if not any(b["line"] == idx + 1 for b in s2["bad"]):
            raise core.MachineryError("TraceRun.tla accepts a corrupted trace (line %d)" % (idx + 1))
        # ---- verdicts
        by_oid = {}
        for e in events:
            by_oid.setdefault(e.get("oid"), []).append(e)
        nobj = 0
        for oid, evs in by_oid.items():
            if oid is None:
                continue
            nobj += 1
            ctx.case({"trace_object": evs[0].get("kind"), "source": evs[0]["_src"], "events": len(evs)},
                     nontrivial=sum(1 for e in evs if e["ev"] == "compute") > 1)
        for b in summary["bad"]:
            e = events[b["line"] - 1]
            evs = [{k: v for k, v in x.items() if k != "_src"} for x in by_oid.get(e.get("oid"), [e])]
            for rule in sorted(b["rules"]):
                ctx.violation("%s:trace:%s:%s" % (key_prefix, b["kind"], rule),
                              "event %d (%s): %s violates %s" % (b["line"], e["_src"], {k: v for k, v in e.items() if k != "_src"}, rule),
                              {"trace_events": evs})
        ctx.traces += len(events)
        ctx.extra["trace_validation"] = {"events": len(events), "objects": nobj,
                                         "sources": sorted({e["_src"] for e in events}),
                                         "raised_calls": sum(1 for e in events if e.get("raised"))}
    finally:
        shutil.rmtree(tmp, ignore_errors=True)


def replay(ctx, case, key_prefix):
    tmp = tempfile.mkdtemp(prefix="vtrace_")
    try:
        path = os.path.join(tmp, "one.ndjson")
        with open(path, "w") as fo:
            for e in case["trace_events"]:
                fo.write(json.dumps(e) + "\n")
        s = validate(ctx, path, "replay of one object's events")
        ctx.case({"replay": True})
        for b in s["bad"]:
            ctx.violation("%s:replay:trace:%s" % (key_prefix, ",".join(sorted(b["rules"]))), str(b), case)
    finally:
        shutil.rmtree(tmp, ignore_errors=True)
