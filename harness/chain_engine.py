"""Replay of Chain.tla behaviours into the real PtTebd.

Usable in-process (sequential mode) and as a child process for the parallel modes
(`python -m harness.chain_engine case.json mode order`), which must run in a fresh
interpreter so that a missing import in the library cannot hide behind the harness's own
imports.
"""
import json
import sys

import numpy as np

PHI = [0, 1, 3, 2]
PRIMES = [2, 3, 5, 7, 11, 13, 17, 19]
DT = 0.25


def site_rho(d, seed, i):
    from harness import probes
    return probes.generic_rho(d, seed + 17 * i)


def build(case, seed, backend_config=None, layer_log=None):
    import oqupy
    from harness import ptc_engine as eng
    nsites, d, ed, n, m = case["l"], case["d"], case["ed"], case["n"], case["m"]
    tau = DT / 2
    chain = oqupy.SystemChain([d] * nsites)
    lev = np.diag(np.arange(d, dtype=float))
    for i in range(nsites):
        hi = case["h"][i]
        if hi:
            chain.add_site_hamiltonian(i, -(2 * np.pi * hi / (m * tau)) * np.diag(np.array(PHI[:d], dtype=float)))
    for b in range(nsites - 1):
        jb = case["j"][b]
        if jb:
            chain.add_nn_hamiltonian(b, -(2 * np.pi * jb / (m * tau)) * lev, lev)
    pts = []
    for i in range(nsites):
        names = [case["envplan"][r][i] for r in range(n)]
        if all(nm == "I" for nm in names):
            pts.append(None)
            continue
        sub = {"d": d, "m": m, "n": n, "edims": [ed], "a0": [case["a0"][i]],
               "plan": [["env", r, 1, names[r]] for r in range(n)]}
        # every third process tensor is stored in another (monomial, not symmetric) basis of the system with its
        # transform_in / transform_out set: the same environment
        pts.append(eng.build_pts(sub, {"rank3": bool(i % 2), "transforms": (i + n + len(case["ctl"])) % 3 == 0}, DT)[0])
    rhos = [site_rho(d, seed, i) for i in range(nsites)]
    ctrl = oqupy.ChainControl([d] * nsites)
    for c in sorted(case["ctl"], key=lambda c: c[4]):
        r, post, site, cid = c[0], c[1], c[2], c[3]
        ctrl.add_single_site_control(site_control(d, r, cid), site=int(site) - 1, step=int(r), post=bool(post))
    subsets = [tuple(int(x) - 1 for x in s) for s in case["subsets"]]
    dyn_sites = [s[0] if len(s) == 1 else s for s in subsets]
    tebd = oqupy.PtTebd(oqupy.AugmentedMPS([r.copy() for r in rhos]), chain, pts,
                        oqupy.PtTebdParameters(dt=DT, order=case["order"], epsrel=1e-13),
                        chain_control=ctrl, start_time=0.5, dynamics_sites=dyn_sites,
                        backend_config=backend_config)
    return tebd, rhos, dyn_sites


def site_control(d, r, cid):
    shift = np.zeros((d, d))
    for t in range(d):
        shift[(t + 1) % d, t] = 1.0
    s = np.kron(shift, shift)
    if cid == 1:
        return np.eye(d * d)
    if cid == 2:
        return PRIMES[r] * s
    if cid == 3:
        p = np.zeros((d, d))
        p[0, 0] = 1.0
        return np.kron(p, p)
    if cid == 5:
        return s
    raise ValueError(cid)


def expected_subset(terms, rhos, d, m, nsub):
    mm = 4 * m
    w = np.exp(2j * np.pi / mm)
    out = np.zeros((d ** nsub, d ** nsub), dtype=complex)
    for t in terms:
        c = w ** t["ph"]
        for i, (a, b) in enumerate(zip(t["s"], t["sp"])):
            c *= rhos[i][a, b]
        for f in t["f"]:
            if f[0] == "p":
                c *= f[1]
        row = 0
        col = 0
        for k, b in zip(t["ks"], t["bs"]):
            row = row * d + k
            col = col * d + b
        out[row, col] += c
    return out


def compare(case, seed, res, rhos, dyn_sites):
    from harness import probes
    d, m, n = case["d"], case["m"], case["n"]
    out = []
    for r in range(n + 1):
        rec = case["recs"][r]
        nrm = None
        for item in rec:
            sub = tuple(int(x) - 1 for x in probes.norm_seq(item["sub"]))
            key = sub[0] if len(sub) == 1 else sub
            want = expected_subset(item["terms"], rhos, d, m, len(sub))
            got = np.array(res["dynamics"][key].states[r])
            scale = max(1.0, np.max(np.abs(want)))
            if got.shape != want.shape or np.max(np.abs(got - want)) > 1e-8 * scale:
                out.append({"what": "reduced-state", "step": r, "sites": list(sub),
                            "err": float(np.max(np.abs(got - want))) if got.shape == want.shape else "shape"})
                return out
            nrm = np.trace(want)
        if abs(res["norm"][r] - nrm) > 1e-8 * max(1.0, abs(nrm)):
            out.append({"what": "norm", "step": r, "expected": str(nrm), "observed": str(res["norm"][r])})
            return out
        if abs(res["time"][r] - (0.5 + r * DT)) > 1e-12:
            out.append({"what": "time", "step": r})
    return out


def run_inprocess(case, seed):
    """sequential mode, with a wrapper that records the gate layers"""
    from oqupy.backends.pt_tebd_backend import PtTebdBackend
    layers = []
    orig = PtTebdBackend.apply_nn_gate_layer

    def wrapped(self, gate_layer):
        layers.append([list(g.sites) for g in gate_layer.gates])
        return orig(self, gate_layer)
    PtTebdBackend.apply_nn_gate_layer = wrapped
    try:
        tebd, rhos, dyn_sites = build(case, seed)
        if case["n"] >= 2 and (case["l"] + case["order"] + len(case["ctl"])) % 2 == 0:
            # the computation is done in two calls with a look at the current state in between (every other configuration)
            tebd.compute(1, progress_type="silent")
            for sites in dyn_sites:
                tebd.get_current_density_matrix(sites)
        res = tebd.compute(case["n"], progress_type="silent")
    finally:
        PtTebdBackend.apply_nn_gate_layer = orig
    out = compare(case, seed, res, rhos, dyn_sites)
    # gate layers vs the specification's layers (every step: first half, second half)
    want = [[[b - 1, b] for b in sorted(tr[3])] for tr in case["trace"]]
    if layers != want:
        k = next((i for i, (a, b) in enumerate(zip(layers, want)) if a != b), min(len(layers), len(want)))
        out.append({"what": "gate-layers", "at": k, "expected": want[k] if k < len(want) else None,
                    "observed": layers[k] if k < len(layers) else None})
    return out


class OrderedExecutor:
    """Stand-in for a concurrent.futures executor with a chosen completion order.

    map(): runs the tasks in the chosen order and hands the results back in submission order (the contract
    of map).  submit(): returns real Future objects; the tasks submitted in one burst are run by a dispatcher
    thread in the chosen order, so result(), as_completed(), wait() and done-callbacks all work and observe
    that completion order."""
    order = None
    GRACE = 0.05       # a burst ends when nothing was submitted for this long, or when a result is awaited

    def __init__(self, *a, **kw):
        import threading
        self._lock = threading.Lock()
        self._pending = []
        self._last = 0.0
        self._thread = None
        self._closed = False
        self._flush = threading.Event()

    def __enter__(self):
        return self

    def __exit__(self, *a):
        self.shutdown()
        return False

    @staticmethod
    def _perm(n):
        idx = list(range(n))
        perm = OrderedExecutor.order
        if perm == "reverse":
            idx = idx[::-1]
        elif perm == "rotate":
            idx = idx[1:] + idx[:1]
        return idx

    def map(self, fn, *iterables, timeout=None, chunksize=1):
        items = list(zip(*iterables))
        results = {}
        for i in self._perm(len(items)):
            results[i] = fn(*items[i])
        return iter([results[i] for i in range(len(items))])

    # -- submit protocol
    def _run_batch(self):
        with self._lock:
            batch, self._pending = self._pending, []
        for i in self._perm(len(batch)):
            fut, fn, a, kw = batch[i]
            if not fut.set_running_or_notify_cancel():
                continue
            try:
                fut.set_result(fn(*a, **kw))
            except BaseException as ex:  # pylint: disable=broad-except
                fut.set_exception(ex)

    def _dispatch(self):
        import time
        while True:
            self._flush.wait(self.GRACE)
            with self._lock:
                idle = time.monotonic() - self._last >= self.GRACE
                have = bool(self._pending)
                closed = self._closed
            if have and (idle or self._flush.is_set() or closed):
                self._flush.clear()
                self._run_batch()
            elif closed and not have:
                return

    def submit(self, fn, *a, **kw):
        import threading
        import time
        import concurrent.futures as cf
        ex = self

        class _Future(cf.Future):
            def result(self, timeout=None):
                ex._flush.set()
                return super().result(timeout)

            def exception(self, timeout=None):
                ex._flush.set()
                return super().exception(timeout)
        fut = _Future()
        with self._lock:
            if self._closed:
                raise RuntimeError("cannot schedule new futures after shutdown")
            self._pending.append((fut, fn, a, kw))
            self._last = time.monotonic()
            if self._thread is None:
                self._thread = threading.Thread(target=self._dispatch, daemon=True)
                self._thread.start()
        return fut

    def shutdown(self, wait=True, cancel_futures=False):
        with self._lock:
            self._closed = True
            th = self._thread
        self._flush.set()
        if th is not None and wait:
            th.join()


def generic_chain(mode, epsrel, seed):
    """A generic (non-commuting, entangling) chain whose result depends on the truncation threshold: every
    execution mode must give the same bond dimensions and density matrices."""
    import oqupy
    from harness import probes
    r = probes.rng_for(seed, "generic-chain")
    sx = np.array([[0, 1], [1, 0]], dtype=complex)
    sy = np.array([[0, -1j], [1j, 0]])
    sz = np.diag([1.0 + 0j, -1.0])
    nsites = 4
    chain = oqupy.SystemChain([2] * nsites)
    for i in range(nsites):
        chain.add_site_hamiltonian(i, (0.4 + 0.2 * r.random()) * sz + 0.3 * r.random() * sx)
    for b in range(nsites - 1):
        chain.add_nn_hamiltonian(b, (0.8 + 0.4 * r.random()) * sx, sx)
        chain.add_nn_hamiltonian(b, (0.5 + 0.3 * r.random()) * sy, sy)
        chain.add_nn_hamiltonian(b, 0.7 * sz, sz)
    rhos = [probes.generic_rho(2, seed + i) for i in range(nsites)]
    cfg = None if mode == "none" else {"parallel": mode}
    t = oqupy.PtTebd(oqupy.AugmentedMPS(rhos), chain, [None] * nsites,
                     oqupy.PtTebdParameters(dt=0.2, order=2, epsrel=epsrel), dynamics_sites=[0, (1, 2), 3],
                     backend_config=cfg)
    res = t.compute(3, progress_type="silent")
    return {"bond": np.array(res["bond_dimensions"]).tolist(),
            "dm": [[[float(z.real), float(z.imag)] for z in np.array(res["dynamics"][k].states).reshape(-1)]
                   for k in (0, (1, 2), 3)]}


def main():
    if sys.argv[1] == "generic":
        import warnings
        warnings.simplefilter("ignore")
        try:
            out = generic_chain(sys.argv[2], float(sys.argv[3]), int(sys.argv[4]))
        except Exception as ex:  # pylint: disable=broad-except
            out = {"error": "%s: %s" % (type(ex).__name__, str(ex)[:160])}
        print("RESULT " + json.dumps(out))
        return
    case = json.load(open(sys.argv[1]))
    mode = sys.argv[2]
    order = sys.argv[3]
    seed = int(sys.argv[4])
    import warnings
    warnings.simplefilter("ignore")
    import oqupy  # noqa: F401  (nothing else is imported before: a missing import in the library must show)
    cfg = {"parallel": mode}
    if order != "real":
        import oqupy.backends.pt_tebd_backend as be
        import concurrent.futures as cf          # the fake replaces the pools; import needed to patch
        OrderedExecutor.order = order
        cf.ThreadPoolExecutor = OrderedExecutor
        cf.ProcessPoolExecutor = OrderedExecutor
    try:
        tebd, rhos, dyn_sites = build(case, seed, backend_config=cfg)
        res = tebd.compute(case["n"], progress_type="silent")
        out = compare(case, seed, res, rhos, dyn_sites)
    except Exception as ex:  # pylint: disable=broad-except
        out = [{"what": "exception", "detail": "%s: %s" % (type(ex).__name__, str(ex)[:160])}]
    print("RESULT " + json.dumps(out))


if __name__ == "__main__":
    main()
