"""Replay of Influence.tla behaviours into the real TEMPO / PT-TEMPO code.

A *case* is one terminal state of Influence.tla (configuration + expected integer
coefficient vectors).  A *variant* says how the case is presented to the real code
(method is fixed by case['alg']; unique, basis rotation, system construction mode,
dkmax-vs-tcut, start time).  The worker returns the list of mismatches.
"""
import numpy as np

from harness import probes

KNONE = 1000
ANONE = 1000
AINF = 999
TOL = 1e-9
EN = [0, 1, 3, 4, 7]      # integer energies of the commuting H_S (units of omega0)


def expected_states(case, weights, rho0, dt, omega0, use_energy):
    """Expected density matrices (in the coupling eigenbasis) for steps 1..N."""
    d = len(case["o"])
    exp = probes.norm_seq(case["expect"])
    out = []
    for m, per_elem in enumerate(exp, start=1):
        per_elem = probes.norm_seq(per_elem)
        rho = np.zeros((d, d), dtype=complex)
        for e, rec in enumerate(per_elem):
            re = np.array(probes.norm_seq(rec["re"]), dtype=float)
            im = np.array(probes.norm_seq(rec["im"]), dtype=float)
            w = weights[:len(re)]
            expo = -np.dot(re, w.real) - 1j * np.dot(im, w.imag)
            i0, j0 = divmod(e, d)
            if use_energy:
                expo += -1j * omega0 * (EN[i0] - EN[j0]) * m * dt
            pi, pj = divmod(rec["pos"], d)
            rho[pi, pj] = rho0[i0, j0] * np.exp(expo)
        out.append(rho)
    return out


def run_variant(job):
    """Run one (case, variant) on the real code.  Returns dict with 'mismatch' list."""
    import oqupy
    case = job["case"]
    var = job["variant"]
    seed = job["seed"]
    d = len(case["o"])
    n_steps = case["N"]
    k = case["K"]
    a = case["A"]
    shifts = list(case["sh"])
    s1, s2 = shifts[0], shifts[1]
    periodic2 = len(shifts) == 2
    dt = var.get("dt", 0.25)
    start = var.get("start", 0.0)
    omega0 = 0.7
    ncell = 2 * n_steps + 6 + (k if k != KNONE else 0) + (a if a not in (ANONE, AINF) else 0)
    log = []
    if var.get("bath") == "customcorr":
        # the library's own CustomCorrelations (2D quadrature of a user correlation function) with a
        # polynomial C(tau): the cell integrals are second differences of F, F'' = C, F(0) = F'(0) = 0
        import oqupy as _oq
        sc = 2e-3 / dt ** 2
        a0, a1, a2 = (0.8 + 0.3j) * sc, (-0.5 + 0.2j) * sc / dt, (0.1 - 0.1j) * sc / dt ** 2
        fpoly = lambda x: a0 * x ** 2 / 2 + a1 * x ** 3 / 6 + a2 * x ** 4 / 12
        lat = np.array([fpoly(c * dt) for c in range(ncell + 2)])
        weights = np.array([lat[1]] + [lat[c + 1] - 2 * lat[c] + lat[c - 1] for c in range(1, ncell)])
        sd = _oq.CustomCorrelations(lambda tau: a0 + a1 * tau + a2 * tau ** 2)
    else:
        weights = probes.probe_weights(seed, ncell)
        sd = probes.make_probe_sd(weights, dt, log=log)

    rot_kind = var.get("rot", "id")
    if rot_kind == "haar":
        rot = probes.haar_unitary(d, seed, str(case["o"]))
    else:
        rot = probes.structured_unitary(d, rot_kind)
    rho0_eig = probes.generic_rho(d, seed)
    rho0 = rot @ rho0_eig @ rot.conj().T
    # "for every initial state": the same matrix is handed over in different memory layouts
    lay = (sum(abs(int(x)) for x in case["o"]) + len(case.get("sh", ())) + int(case.get("N", 0))) % 3
    if lay == 1:
        rho0 = np.asfortranarray(rho0)
    elif lay == 2:
        big = np.zeros((2 * d, 2 * d), dtype=complex)
        big[::2, ::2] = rho0
        rho0 = big[::2, ::2]
    coupling = rot @ np.diag(np.array(case["o"], dtype=float)) @ rot.conj().T
    if rot_kind == "id":
        coupling = np.diag(np.array(case["o"], dtype=float))

    commuting = all(x == 0 for x in shifts)
    energies = omega0 * np.array(EN[:d], dtype=float) if commuting else None
    sysmode = var.get("sysmode", "static" if (periodic2 and s1 == s2) else "td")
    if not (periodic2 and s1 == s2) and sysmode == "static":
        sysmode = "td"
    calls = []
    system = probes.clock_system(sysmode, d, s1, s2, dt, start, energies=energies,
                                 rot=None if rot_kind == "id" else rot, calls=calls, shifts=shifts)

    if var.get("warm_start") is not None and sysmode == "td":
        # the same system object served a computation with another start time before (propagating in legs, scanning the
        # start time): nothing of that may survive in it
        oqupy.compute_dynamics(system, initial_state=rho0.copy(), dt=dt, num_steps=2, start_time=start + var["warm_start"],
                               subdiv_limit=var.get("subdiv", None), progress_type="silent")
    calls.clear()       # drop the calls made by the constructor's dimension probe
    kw = {}
    if k != KNONE:
        if var.get("memory", "dkmax") == "tcut":
            kw["tcut"] = k * dt
        else:
            kw["dkmax"] = k
    if a == AINF:
        kw["add_correlation_time"] = np.inf
    elif a != ANONE:
        kw["add_correlation_time"] = a * dt
    unique = bool(var.get("unique", False))
    mismatch = []
    info = {}
    end_time = start + n_steps * dt + 0.25 * dt       # off-grid end: floor is unambiguous
    method = var.get("method")
    try:
        params = oqupy.TempoParameters(dt=dt, epsrel=1e-15 if var.get("bath") != "customcorr" else 1e-12,
                                       subdiv_limit=var.get("subdiv", None), **kw)
        bath = oqupy.Bath(coupling, sd)
        if method == "mf":
            # mean-field TEMPO with a system that ignores the field and a zero field
            # equation of motion: must evolve exactly as plain TEMPO (row algorithm)
            hsys = system.hamiltonian if sysmode == "td" else (lambda t, _h=system.hamiltonian: _h)
            fsys = oqupy.TimeDependentSystemWithField(lambda t, a: hsys(t))
            mfs = oqupy.MeanFieldSystem([fsys], field_eom=lambda t, states, a: 0.0)
            mft = oqupy.MeanFieldTempo(mfs, [bath], params, [rho0], 0.5 + 0.25j, start,
                                       unique=unique)
            mfd = mft.compute(end_time, progress_type="silent")
            dyn = mfd.system_dynamics[0]
            if np.max(np.abs(np.array(mfd.fields) - (0.5 + 0.25j))) > 1e-12:
                mismatch.append({"what": "field", "detail": "zero field_eom changed the field"})
        elif case["alg"] == "row":
            tempo = oqupy.Tempo(system, bath, params, rho0, start, unique=unique)
            if var.get("legs") and n_steps >= 2:
                # the propagation is continued in a second call on the same object
                tempo.compute(start + (n_steps // 2) * dt + 0.25 * dt, progress_type="silent")
            dyn = tempo.compute(end_time, progress_type="silent")
        else:
            rt = var.get("pt_roundtrip")
            infile = var.get("pt_container") == "file"      # PT-TEMPO writes into an HDF5 container that is used as it is
            pt = oqupy.PtTempo(bath, start, end_time, params, unique=unique, process_tensor_file=True if (rt or infile) else None)
            ptens = pt.get_process_tensor(progress_type="silent")
            if infile:
                info["cleanup"] = ptens.filename
            if rt:
                # the process tensor is written to a file by PT-TEMPO, closed, and imported again
                fname = ptens.filename
                ptens.close()
                ptens = oqupy.import_process_tensor(fname, rt)
                info["cleanup"] = fname
            if var.get("peek_raw"):
                # a read-only look at the stored tensors (as for listing bond dimensions) before the tensor is used
                for r_ in range(len(ptens)):
                    ptens.get_mpo_tensor(r_, transformed=False)
            nsub = var.get("num_steps")
            dyn = oqupy.compute_dynamics(system, initial_state=rho0, process_tensor=ptens,
                                         start_time=start, num_steps=nsub,
                                         subdiv_limit=var.get("subdiv", None),
                                         progress_type="silent")
            info["pt_len"] = len(ptens)
            if rt:
                import os as _os
                if rt == "file":
                    ptens.close()
                _os.remove(fname)
            if infile and not rt:
                ptens.remove()
    except Exception as ex:  # pylint: disable=broad-except
        if info.get("cleanup"):
            import os as _os
            try:
                _os.remove(info["cleanup"])
            except OSError:
                pass
        if "probe lattice exceeded" in str(ex):
            raise          # a limit of the probe, not a verdict about the code: machinery error
        return {"mismatch": [{"what": "exception", "detail": "%s: %s" % (type(ex).__name__, ex)}],
                "info": info}

    times = np.array(dyn.times)
    states = np.array(dyn.states)
    n_have = len(times) - 1
    n_expect = var.get("num_steps") or n_steps
    if n_have != n_expect:
        mismatch.append({"what": "length", "expected": n_expect, "observed": n_have})
    exp_states = expected_states(case, weights, rho0_eig, dt, omega0, commuting)
    for m in range(0, min(n_have, n_expect) + 1):
        if abs(times[m] - (start + m * dt)) > 1e-12:
            mismatch.append({"what": "time", "step": m, "expected": start + m * dt,
                             "observed": float(times[m])})
        got = rot.conj().T @ states[m] @ rot
        want = rho0_eig if m == 0 else exp_states[m - 1]
        err = np.max(np.abs(got - want))
        if not err < TOL:
            idx = int(np.argmax(np.abs(got - want)))
            mismatch.append({"what": "state", "step": m, "err": float(err),
                             "element": list(divmod(idx, d)),
                             "expected": str(want.flat[idx]), "observed": str(got.flat[idx])})
            break
        # physicality of the real state (C04 rides along)
        if abs(np.trace(states[m]) - 1) > 1e-9 or np.max(np.abs(states[m] - states[m].conj().T)) > 1e-9:
            mismatch.append({"what": "unphysical", "step": m})
    # requests made to the bath (trace of the algorithm) vs the algorithm model
    got_reqs = probes.requests_in_grid_units(log, dt)
    want_reqs = [list(r) for r in probes.norm_seq(case["reqs"])]
    seenw = []
    for r in want_reqs:
        if r not in seenw:
            seenw.append(r)
    if var.get("bath") != "customcorr" and got_reqs != seenw:
        mismatch.append({"what": "requests", "expected": seenw, "observed": got_reqs})
    # times handed to the user's H(t): the sampling pattern of each step (binds system.py
    # get_propagators and the start_time both methods use)
    if sysmode == "td" and method != "mf":
        xs = np.array([(t - start) / dt for t in calls])
        bad = None
        if len(xs) == 0:
            bad = "H(t) never called"
        elif var.get("subdiv", None) is None:
            frac = xs - np.floor(xs)
            if not np.all((np.abs(frac - 0.25) < 1e-9) | (np.abs(frac - 0.75) < 1e-9)):
                bad = "sample off the dt/4, 3dt/4 pattern: %s" % sorted(set(np.round(frac, 6)))[:6]
            want = sorted([kk + 0.25 for kk in range(n_expect)] + [kk + 0.75 for kk in range(n_expect)])
            got = sorted(set(np.round(xs, 9)))
            if bad is None and not np.allclose(got, want, atol=1e-9) if len(got) == len(want) else True:
                bad = bad or "steps sampled %s, expected %s" % (got[:12], want[:12])
        else:
            if xs.min() < -1e-9 or xs.max() > n_expect + 1e-9:
                bad = "integration nodes outside [start, start + n dt]: [%g, %g]" % (xs.min(), xs.max())
            halves = set(np.floor(xs * 2 + 1e-9).astype(int))
            if bad is None and not set(range(2 * n_expect)) <= halves:
                bad = "half-steps never sampled: %s" % sorted(set(range(2 * n_expect)) - halves)
        if bad:
            mismatch.append({"what": "hcalls", "detail": bad})
    info["n"] = n_have
    info["hcalls"] = len(calls)
    return {"mismatch": mismatch, "info": info}


def run_mf_pair(job):
    """Two behaviours (same N, dkmax, add_correlation_time; different coupling operators / dimensions) as the
    two systems of ONE MeanFieldTempo with field-independent Hamiltonians and a zero field equation: each
    system must evolve exactly as its own plain TEMPO (its own specification state)."""
    import oqupy
    ca, cb = job["cases"]
    var, seed = job["variant"], job["seed"]
    dt, start = 0.25, var.get("start", 0.5)
    n_steps, k, a = ca["N"], ca["K"], ca["A"]
    omega0 = 0.7
    mismatch = []
    try:
        systems, baths, rhos, exps, rots = [], [], [], [], []
        for j, case in enumerate((ca, cb)):
            d = len(case["o"])
            weights = probes.probe_weights(seed + 101 * j, 2 * n_steps + 6 + (k if k != KNONE else 0)
                                           + (a if a not in (ANONE, AINF) else 0))
            sd = probes.make_probe_sd(weights, dt)
            rot = probes.haar_unitary(d, seed, "mfpair", j) if var.get("rot") else np.eye(d, dtype=complex)
            rho_eig = probes.generic_rho(d, seed + j)
            shifts = list(case["sh"])
            commuting = all(x == 0 for x in shifts)
            hams = []
            for sft in shifts:
                h = probes.shift_hamiltonian(d, sft, dt / 2) + (omega0 * np.diag(np.array(EN[:d], float)) if commuting else 0)
                hams.append(rot @ h @ rot.conj().T)

            def ham(t, fld, _h=hams):
                half = int(np.floor((t - start) / (dt / 2) + 1e-9))
                return _h[half % len(_h)]
            systems.append(oqupy.TimeDependentSystemWithField(ham))
            baths.append(oqupy.Bath(rot @ np.diag(np.array(case["o"], float)) @ rot.conj().T, sd))
            rhos.append(rot @ rho_eig @ rot.conj().T)
            exps.append([rho_eig] + expected_states(case, weights, rho_eig, dt, omega0, commuting))
            rots.append(rot)
        kw = {}
        if k != KNONE:
            kw["dkmax"] = k
        if a == AINF:
            kw["add_correlation_time"] = np.inf
        elif a != ANONE:
            kw["add_correlation_time"] = a * dt
        params = oqupy.TempoParameters(dt=dt, epsrel=1e-15, subdiv_limit=None, **kw)
        mfs = oqupy.MeanFieldSystem(systems, field_eom=lambda t, st, f: 0.0)
        mft = oqupy.MeanFieldTempo(mfs, baths, params, rhos, 0.25 - 0.5j, start, unique=bool(var.get("unique")))
        dyn = mft.compute(start + n_steps * dt + dt / 4, progress_type="silent")
        for j in range(2):
            got = np.array(dyn.system_dynamics[j].states)
            for m in range(n_steps + 1):
                g = rots[j].conj().T @ got[m] @ rots[j]
                err = np.max(np.abs(g - exps[j][m]))
                if not err < TOL:
                    mismatch.append({"what": "state", "system": j, "step": m, "err": float(err)})
                    break
    except Exception as ex:  # pylint: disable=broad-except
        mismatch.append({"what": "exception", "detail": "%s: %s" % (type(ex).__name__, str(ex)[:160])})
    return {"mismatch": mismatch}


def case_id(case, variant):
    return {"alg": case["alg"], "N": case["N"], "K": case["K"], "A": case["A"],
            "o": case["o"], "sh": case["sh"], "variant": variant}


GEN_CFG = """
INIT Init
NEXT Next
INVARIANT RowMatchesDoc
INVARIANT ColMatchesDoc
INVARIANT ColPrefix
INVARIANT Tiles
INVARIANT Bounded
INVARIANT EmitCase
"""


def generate(ctx, consts, label):
    """Run TLC on Influence.tla: checks the spec-level invariants on every state and
    emits one case per finished behaviour."""
    c = dict(consts)
    c.setdefault("Emit", "TRUE")
    r = ctx.tlc("Influence", GEN_CFG, label=label, constants=c, workers=1)
    return r.cases
