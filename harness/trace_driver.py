"""Randomised driver for the code -> spec direction: histories of compute calls with decimal, off-grid, repeated and
decreasing targets and transient failures of the user's Hamiltonian, on all five method objects.  Run with
VERIF_TRACE_FILE set and harness.trace_plugin imported first; the recorded trace is validated by TLC (TraceRun.tla).

usage: python -m harness.trace_driver <seed> <histories>"""
import sys
import warnings

import numpy as np

from harness import trace_plugin  # noqa: F401  (installs the wrappers when VERIF_TRACE_FILE is set)


class Boom(Exception):
    pass


def main(seed, count):
    import oqupy
    warnings.simplefilter("ignore")
    rng = np.random.default_rng([seed, 4242])
    sx, sz = oqupy.operators.sigma("x"), oqupy.operators.sigma("z")
    corr = oqupy.PowerLawSD(alpha=0.05, zeta=1.0, cutoff=2.0, cutoff_type="exponential", temperature=0.2)
    bath = oqupy.Bath(0.5 * sz, corr)
    rho = np.array([[0.6, 0.2], [0.2, 0.4]], dtype=complex)
    for _ in range(count):
        kind = ("tempo", "mftempo", "tebd", "pttempo", "gibbs", "cd")[int(rng.integers(0, 6))]
        dt = float((0.1, 0.2, 0.05, 0.3, 0.25)[int(rng.integers(0, 5))])
        start = float((0.0, 0.5, -0.3, 1.0)[int(rng.integers(0, 4))])
        fail = {"at": int(rng.integers(0, 30)) if rng.random() < 0.4 else -1, "n": 0}

        def ham(t, fail=fail):
            if fail.get("armed"):
                fail["n"] += 1
                if fail["n"] == fail["at"] + 1:
                    raise Boom()
            return 0.5 * sx + 0.1 * np.cos(t) * sz
        if kind == "cd":
            # the stateless front ends with hand-built process tensors of different lengths
            from oqupy.process_tensor import SimpleProcessTensor
            pts = []
            for _p in range(int(rng.integers(0, 3))):
                pt = SimpleProcessTensor(2, dt=dt)
                for k in range(int(rng.integers(1, 6))):
                    pt.set_mpo_tensor(k, np.eye(4).reshape(1, 1, 4, 4))
                pt.compute_caps()
                pts.append(pt)
            ns = int(rng.integers(0, 5)) if (not pts or rng.random() < 0.3) else None
            if pts and ns is not None:
                ns = min(ns, min(len(p) for p in pts))
            kw = dict(initial_state=rho, start_time=start, record_all=bool(rng.random() < 0.7), progress_type="silent")
            if ns is not None:
                kw["num_steps"] = ns
            if not pts or rng.random() < 0.3:
                kw["dt"] = dt
            fail["armed"] = True
            try:
                if rng.random() < 0.5:
                    oqupy.compute_dynamics(oqupy.TimeDependentSystem(ham) if fail["at"] >= 0 else oqupy.System(0.5 * sx),
                                           process_tensor=pts if pts else None, **kw)
                else:
                    fs = oqupy.TimeDependentSystemWithField(lambda t, a: 0.5 * sx + 0.1 * a.real * sz)
                    mfs = oqupy.MeanFieldSystem([fs], field_eom=lambda t, st, a: -0.5j * a)
                    kw["initial_state_list"] = [kw.pop("initial_state")]
                    oqupy.compute_dynamics_with_field(mfs, 0.2 + 0j, process_tensor_list=[pts] if pts else None, **kw)
            except (Boom, AssertionError, ValueError, UnboundLocalError, IndexError):
                pass
            continue
        params = oqupy.TempoParameters(dt=dt, epsrel=1e-4, dkmax=int(rng.integers(1, 4)), subdiv_limit=None)
        ncalls = int(rng.integers(1, 5))
        try:
            if kind == "tempo":
                obj = oqupy.Tempo(oqupy.TimeDependentSystem(ham), bath, params, rho, start)
                fail["n"] = 0
            elif kind == "mftempo":
                fs = oqupy.TimeDependentSystemWithField(lambda t, a, h=ham: h(t) + 0.1 * a.real * sz)
                mfs = oqupy.MeanFieldSystem([fs], field_eom=lambda t, st, a: -0.5j * a - 0.1j * np.trace(st[0] @ sx))
                obj = oqupy.MeanFieldTempo(mfs, [bath], params, [rho], 0.2 + 0j, start)
                fail["n"] = 0
            elif kind == "tebd":
                chain = oqupy.SystemChain([2, 2])
                chain.add_site_hamiltonian(0, 0.3 * sx)
                chain.add_nn_hamiltonian(0, sz, sz)
                obj = oqupy.PtTebd(oqupy.AugmentedMPS([rho, rho]), chain, [None, None],
                                   oqupy.PtTebdParameters(dt=dt, epsrel=1e-6), start_time=start, dynamics_sites=[0])
            elif kind == "pttempo":
                m = int(rng.integers(2, 7))
                end = float(repr(round(start + m * dt, 10))) if rng.random() < 0.7 else start + (m + 0.4) * dt
                obj = oqupy.PtTempo(bath, start, end, params)
            else:
                obj = oqupy.GibbsTempo(oqupy.System(0.5 * sx + 0.2 * sz), bath,
                                       oqupy.GibbsParameters(n_steps=int(rng.integers(2, 7)), epsrel=1e-5))
        except Boom:
            continue
        fail["armed"] = True            # constructors probe the callables once: failures only during computations
        for _c in range(ncalls):
            m = int(rng.integers(0, 6))
            r = rng.random()
            if r < 0.6:
                end = float(repr(round(start + m * dt, 10)))        # the decimal literal of a grid point
            elif r < 0.85:
                end = start + (m + float(rng.choice([0.3, 0.5, 0.9]))) * dt
            else:
                end = start - dt                                       # before the start
            try:
                if kind in ("tempo", "mftempo"):
                    obj.compute(end, progress_type="silent")
                elif kind == "tebd":
                    obj.compute(m, progress_type="silent")
                elif kind == "pttempo":
                    if rng.random() < 0.5:
                        obj.compute(progress_type="silent")
                    else:
                        obj.get_process_tensor(progress_type="silent")
                else:
                    obj.compute(progress_type="silent")
            except Boom:
                pass
            except (AssertionError, ValueError) as ex:
                if kind in ("tempo", "mftempo") and end < start:
                    continue                                           # rejected input: nothing happened
                print("DRIVER-UNEXPECTED", kind, repr(ex)[:200])


if __name__ == "__main__":
    main(int(sys.argv[1]), int(sys.argv[2]))
