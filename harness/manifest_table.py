"""Single source of truth for MANIFEST.json (bin/mkmanifest)."""

HOOK_COMMITS = []

ENGINES = [
    {"name": "tlc+replay", "path": "/verif/harness",
     "serves_properties": [],
     "kind_free_text": "TLA+ specifications (specs/*.tla) model-checked with TLC; TLC emits every behaviour/configuration with the expected abstract observation; the harness replays them through the real OQuPy API with exact probes and compares the projected state after every action; traces recorded from the real code are validated against the spec"},
]

NOT_APPLICABLE = {
    "C12": "pure numerical quadrature of transcendental integrands (correlation(), eta_function(), thermal factor, cut-offs): no state, transition or finite abstraction for a TLA+ specification; the only discrete content (triangle/square/rectangle cell algebra and tiling) is specified in Influence.tla and bound to the real CustomSD.correlation_2d_integral under C01",
}

_INFL_NOTE = ("Trusted: TLC, the probe construction (CustomSD subclass with an exact lattice eta_function; "
              "clock systems with cyclic-shift propagators), numpy. Not covered: numerical value of eta for real "
              "spectral densities, SVD truncation effects (probe runs use epsrel 1e-15), finite-mode-bath comparison.")

CHECKS = {
    "C01": {
        "text": "Influence.tla models the TEMPO row algorithm and the PT-TEMPO column algorithm one action per code branch and states the documented meaning of dkmax/tcut/add_correlation_time as a set of influence cells; TLC checks algorithm = documentation on every state for all (N, dkmax, add_correlation_time) in the bound and emits the expected integer coefficient vectors, which the real Tempo / PtTempo+compute_dynamics must reproduce for every matrix element at every step (exact probe bath, commuting Hamiltonian), together with the exact sequence of 2D-integral requests; dkmax and tcut (binary and decimal dt), the library's CustomCorrelations quadrature (polynomial correlation function) and - as numerical cross-checks only - real spectral densities of every cutoff type against an independent quadrature, and finite-mode baths (1..3 modes, non-commuting dissipative system, non-diagonal coupling) against an explicit system+modes simulation with the same symmetric splitting.",
        "note": _INFL_NOTE,
        "technique": "TLA+ spec + TLC exhaustive over memory settings; spec->code replay with exact probe bath; request-trace comparison",
    },
    "C02": {
        "text": "Influence.tla: TLC checks that the TEMPO row algorithm model and the PT-TEMPO column algorithm model yield the same documented influence set at every step and that an N-step column cover restricted to n rows is the n-step cover (ColPrefix). Both real methods are replayed on non-commuting permutation (clock) systems - constant and explicitly time-dependent, sampled and integrated - and every matrix element at every step must equal the spec's integer-exponent prediction, including compute_dynamics(num_steps=n) on a longer process tensor; the times handed to H(t) are validated against the per-step sampling pattern. Generic Hamiltonians with real baths: numerical cross-check of agreement (<= 100 epsrel) and tightening.",
        "note": _INFL_NOTE + " Generic (non-permutation) Hamiltonians 'within truncation tolerance' are numerical and not covered.",
        "technique": "TLA+ spec + TLC exhaustive; spec->code replay of both algorithms against one spec state; call-time trace validation of user H(t)",
    },
    "C05": {
        "text": "Degeneracy.tla enumerates every eigenvalue tuple (repeated/zero included); for each and each V in {permutation, Fourier, real orthogonal, Haar} the real Bath must accept V diag(o) V^dagger and report a unitary U and real diagonal D with U D U^dagger = O. Influence.tla behaviours (whose expected state does not mention the basis) are replayed as (V H V^dagger, V O V^dagger, V rho V^dagger) through Tempo, PtTempo+compute_dynamics and MeanFieldTempo and rotated back.",
        "note": _INFL_NOTE,
        "technique": "TLA+ spec + TLC enumeration of spectra; spec->code replay under basis change",
    },
    "C06": {
        "text": "Degeneracy.tla: TLC checks for every eigenvalue tuple in the bound that reduce-then-scatter of the influence tensors is the identity and that north/west partitions are the coarsest ones; the real Bath's degeneracy maps are compared with the spec's partitions; Influence.tla behaviours are replayed with unique False and True for all coincidence patterns through the three methods and both must equal the single spec state.",
        "note": _INFL_NOTE,
        "technique": "TLA+ spec + TLC exhaustive over coincidence patterns; spec->code replay with unique on/off",
    },
    "C13": {
        "text": "TimeGrid.tla states the grid in exact integer (quarter-tick) arithmetic with one action per loop iteration; TLC checks coverage (n = number of whole steps, on-grid end included), sortedness, alignment and the final-only label on every state and emits the expected label sequence for every (api, dt, start, m, offset, record_all); ticks are mapped to decimal literals and the real Tempo, MeanFieldTempo, PtTempo(+compute_dynamics), compute_dynamics, compute_dynamics_with_field, compute_gradient_and_dynamics and PtTebd are run; labels, lengths and (through a precession phase) the step each stored state belongs to are compared.",
        "note": "Trusted: TLC, decimal-literal mapping, qubit precession decode (unique below 1024 steps). m up to 12 (quick) / 1000 for the cheap APIs and 120 for TEMPO (thorough).",
        "technique": "TLA+ spec + TLC exhaustive over grid parameters; spec->code replay through every API",
    },
    "C14": {
        "text": "Stepper.tla models method objects at the granularity of the code's loop iterations (evaluate user callables, mutate network, advance counter, record) for Tempo, MeanFieldTempo, PtTebd (with export/restart), PtTempo and GibbsTempo; TLC checks history independence, idempotence and no-op-when-reached over all histories of calls and all injected transient failures in the bound, proves that each named deviation (the defects found) violates them, and emits every history with per-call expected outcomes; each history is replayed on real objects and after every call raised/step/labels/content are compared (content against an uninterrupted run; chains also by prime-factor norms).",
        "note": "Trusted: TLC, reference-run oracle for content (tolerance 1e-9), failure injection by exceptions from the user's Hamiltonian / field equation. Known findings (MeanFieldTempo field-stage failure, PtTebd restart at a pre-control step) are matched only on histories where the deviated spec predicts a non-canonical state.",
        "technique": "TLA+ spec + TLC exhaustive over call histories and fault points; spec->code replay with per-action comparison; code->spec trace validation with TLC (traces of the repository's tests and a randomised driver); deviations as named spec constants",
    },
    "C03": {
        "text": "PTContract.tla is the exact reference semantics of system + ancilla environments (monomial joint dynamics tracked term by term in integer arithmetic) stepped like compute_dynamics; TLC checks injectivity/hermiticity/diagonal invariants and enumerates gate plans x control schedules x 0..3 environments, emitting the exact reduced state after every step; real SimpleProcessTensors (rank 3/4, unitary and non-unitary transforms, caps computed or by hand), Systems and Controls are built from the same gate alphabet and compute_dynamics is compared entry by entry; list permutations are asserted only for system-diagonal environments; additivity of spectral densities is bound with the probe bath.",
        "note": "Trusted: TLC, the MPO-tensor construction from a joint unitary (harness, validated against the unchanged tree), numpy. Environments are monomial unitaries (no superposition-creating gates); exhaustive for <=2 environments x 2 steps, sampled (TLC -simulate) beyond.",
        "technique": "TLA+ reference semantics + TLC enumeration / simulation; spec->code replay with hand-built process tensors",
    },
    "C18": {
        "text": "PTContract.tla fixes the meaning of a control schedule (Pre before the record, Post after it, insertion order, float times acting at the nearest step); TLC enumerates every schedule of <= 2 controls (and stacked triples) over all steps incl. first and last x pre/post x {prime-scaled kick, kick, identity, projector} x {step, float before, float after} and emits the exact recorded states; prime-scaled non-commuting monomial controls make every recorded state identify which controls acted and in which order; replayed through compute_dynamics, compute_dynamics_with_field, compute_gradient_and_dynamics (trivial and SWAP-memory ancilla environments) and PtTebd+ChainControl.",
        "note": "Trusted: TLC, monomial control alphabet, harness construction of superoperators. Known finding (mixed int/float time specifications for one step) is accepted only when the real states equal the deviated specification's prediction exactly.",
        "technique": "TLA+ reference semantics + TLC enumeration of control schedules; spec->code replay through four APIs; deviation as named spec constant",
    },
    "C07": {
        "text": "Correlations.tla gives the declarative meaning of every time specification (int, float, slice with negative steps, list in any order, interval in either direction) and of the n-dimensional result (NaN exactly at non-time-ordered tuples) plus a model of the scheduling/filtering algorithm; TLC checks algorithm = declaration for all tuples of specifications over the grid (and that the tail-index deviation violates it) and emits per entry the time tuple it must belong to; PTContract.tla supplies the exact multi-time correlation of the joint system+ancilla evolution with left/right operator insertions. Real compute_correlations (ordered, anti) and compute_correlations_nt (3 operators, mixed left/right) are compared entry by entry incl. NaN mask and returned axes; the caller's dt is checked on axes and dynamics.",
        "note": "Trusted: TLC, Gaussian-prime diagonal operators (the check verifies that values identify the time tuple), monomial ancilla process tensors with memory. Empty selections are out of scope. Bath-occupation closed forms (bath_dynamics.py) are numerical and not covered.",
        "technique": "two TLA+ specs (time-spec algebra, exact correlation semantics) + TLC enumeration; spec->code replay entry by entry",
    },
    "C16": {
        "text": "PTRoundTrip.tla: abstract process tensor, the exact file-operation sequence export() must perform for it, the reader's reconstruction and RoundTrip == Read(Export(pt)) = pt, checked by TLC over every shape (length, rank-3/4 pattern, dt or none, transforms none/unitary/non-unitary, caps or none, named or not) x import type. Each case is realised as a real ancilla process tensor; the recorded export trace must equal the spec's, every getter and every consumer (compute_dynamics, compute_correlations, state_gradient, PtTebd) of the imported object must agree with the original; file-backed vs in-memory PT-TEMPO compared gauge-invariantly.",
        "note": "Trusted: TLC, h5py proxy (records calls after they return), numpy. Rank-3 tensors are compared in delta-expanded form (the two classes differ in what the untransformed getter returns). PT-TEMPO tensors compared through consumers because their SVD gauge is not reproducible.",
        "technique": "TLA+ spec + TLC enumeration of process-tensor shapes; export-trace comparison; spec->code round-trip replay",
    },
    "C17": {
        "text": "PTFile.tla: abstract HDF5 content updated per file operation, write-back possible at any time, crash after any operation, reader classification error/warn/clean. The spec is driven by the operation trace recorded from the real writer (export(), file-backed PT-TEMPO): TLC validates the trace (every operation legal, flag raised before any data operation, closed file clean and complete, whole trace consumed) and explores every crash x flush point (CrashNeverClean, CleanCloseComplete; the identity-test deviation must violate). The same crash x flush points are realised with child processes that flush and die at the chosen operations - killed (os._exit) or interrupted by an exception that unwinds the stack (interpreter shutdown flushes HDF5) -; the surviving file is imported with both import types and must be classified within the set the spec allows and never clean (except the unavoidable final window where the content is complete). Mode matrix and remove() from the spec's ModeTable.",
        "note": "Trusted: TLC, h5py proxy, os._exit as process death, explicit flush as the write-back point (the spec allows every prefix between last flush and crash, and 'error').",
        "technique": "TLA+ crash/write-back model driven by recorded traces (code->spec trace validation with TLC) + crash-point replay in child processes",
    },
    "C19": {
        "text": "Progress.tla models the calling thread and the timer-callback threads at the granularity of the statements that touch shared state (Timer creation/start/cancel, lock acquire/release); TLC checks NoOrphanTimer and NoLateOutput on every interleaving of the repaired protocol with normal return or exit-on-exception, EventuallyQuiet under fairness, and that both the protocol as found and an exit-less abort violate them. TLC-sampled schedules are replayed on the real ProgressBar with fake Timer/Lock objects as preemption points: at every step the real thread must be at the statement the spec expects and the final timer states must agree. Every API x progress type x failing call index is run with a passive timer (no armed timer may remain) and once per API with real timers in a child process (no live thread, no output for 2.5 s).",
        "note": "Trusted: TLC, the deterministic scheduler (threads block only at the fakes' entry points), fault injection through user callables / too-short process tensors. Known findings: the three functions that call enter()/exit() by hand.",
        "technique": "TLA+ thread-interleaving model + TLC (safety and liveness); schedule replay with deterministic fake Timer/Lock; fault enumeration per API",
    },
    "C09": {
        "text": "MeanField.tla states Heun's rule and the complete list of field-equation evaluations (stage, time, state observable, field value) per step in exact dyadic fixed-point arithmetic; TLC checks the closed form for equations linear in time and time/state consistency of every evaluation, and emits expected fields and evaluations for every configuration (time-dependent and complex-coupled equations, start times != 0, 1..2 systems of different dimension, two step sizes). The field equation is the hook: a probe field_eom logs every call; MeanFieldTempo and compute_dynamics_with_field (record_all True/False) must make exactly the specified evaluations and return exactly the specified fields; field-independent systems must follow their plain clock. Agreement of the two methods for field-dependent Hamiltonians with probe-bath process tensors is checked differentially (1e-8).",
        "note": "Trusted: TLC, dyadic parameter choice (IEEE arithmetic exact), zero-coupling baths for the exact part. The differential part is numerical (tolerance 1e-8 at epsrel 1e-13).",
        "technique": "TLA+ exact-arithmetic spec + TLC enumeration; user field equation as trace hook; spec->code comparison of evaluations and fields",
    },
    "C11": {
        "text": "Gibbs.tla steps the imaginary-time propagation slice by slice in exact Gaussian-integer arithmetic (P^(2k) for Hermitian positive P, Hermiticity/positivity checked by TLC on every state) and states the slice-pair counts of the influence functional; Stepper.tla (kind gibbs) covers every history of compute()/get_state(). Real GibbsTempo runs at zero coupling with H = -(2/dbeta) logm(P), real and complex, are compared entrywise with the spec's matrix powers at every slice; commuting models with the lattice Matsubara probe bath are decoded to the slice-pair counts; histories are replayed; every returned state must be normalised, Hermitian and positive.",
        "note": "Trusted: TLC, scipy logm for building H from P, lattice probe bath. The reorganisation-energy closed form and n_steps-independence for real spectral densities are numerical: only a loose cross-check (1e-5) is run and labelled as such.",
        "technique": "TLA+ exact-arithmetic spec + TLC; spec->code replay with integer propagators; history replay from Stepper.tla",
    },
    "C08": {
        "text": "PTContract.tla tracks, for every term of the exact monomial dynamics, the system levels <<ket, bra>> at every half-step propagator; the derivative of the objective with respect to a phase parameter or a dephasing rate at half step j multiplies each term by an explicit function of those levels, so TLC's term lists give the exact 2N x M gradient. Real state_gradient runs on a genuine ParameterizedSystem (Hamiltonian and Lindblad rate depending on the parameters) with the library's numerical propagator derivatives (2e-6) and with user-supplied ones (1e-9, also shifting half steps via a subclass), one and two non-commuting ancilla environments, linear and callable targets; every gradient entry, the reported dynamics and the final state are compared.",
        "note": "Trusted: TLC, monomial gate alphabet, harness construction of propagators/derivatives; exhaustive for 2 steps, sampled for 3 steps and shifting half steps. gradprop tensors are not compared individually (only through the chain rule).",
        "technique": "TLA+ exact reference semantics with per-term trajectories + TLC enumeration/simulation; spec->code replay of gradients",
    },
    "C10": {
        "text": "Chain.tla models chains with commuting couplings, ancilla environments per site and single-site controls as exact monomial dynamics stepped like PtTebd.initialize/compute_step with the gates of each Trotter layer completing in any order; TLC explores every completion order (OrderIndependent), NormOne and consistency of reduced states, and emits the reduced state of every recorded site subset after every step. Real PtTebd runs (orders 1/2, lengths 2..4, rank-3/4 process tensors, controls) are compared subset by subset and in norm; the backend's sequence of gate layers is compared with the spec's; 'multithread'/'multiprocess' run in fresh interpreters with the real pools and with an order-controlled executor; uncoupled chains are compared with single-site compute_dynamics; generic two-site chains with the dense Liouvillian propagator (numerical).",
        "note": "Trusted: TLC, monomial gate alphabet, construction of diagonal chain Hamiltonians with root-of-unity phases. Generic (non-commuting, Trotterised) chains longer than two sites are numerical and not covered.",
        "technique": "TLA+ chain model with task interleavings + TLC; spec->code replay in all execution modes (fresh interpreters, order-controlled executor)",
    },
    "C15": {
        "text": "Translation.tla states every quantity the library derives from absolute times (sampling times of user callables, state labels, nearest step of float control and correlation times) as a function of time - start_time on an integer tick grid and TLC checks that the pattern relative to the start is identical for every start in {0, 1.0, -0.3, 0.37 dt}; expected states come from the start-free specifications (Influence.tla, PTContract.tla, Correlations.tla). For every shift: Tempo and PtTempo+compute_dynamics with H(t - tau) must reproduce the spec's states, labels shifted by exactly tau and H sampled at the spec's pattern; MeanFieldTempo / compute_dynamics_with_field with H(t - tau, a), f(t - tau, ., a) must equal the unshifted run and call f at the spec's times; float control times + tau and float correlation times + tau must act at / select the same steps.",
        "note": "Trusted: TLC, the engines of C01-C03/C07/C09. The mean-field part is metamorphic (tau vs 0, 1e-9).",
        "technique": "TLA+ spec of time-derived quantities + TLC; spec->code replay at shifted time origins; user callables as trace hooks",
    },
    "C20": {
        "text": "ObjectGraph.tla models a correlations object with a public parameter (versions), the memo table of its 2D integrals (on the lattice points of eta_function), a bath built from it (shallow copy) and computations using the bath or re-using shared objects; TLC checks Freshness, Isolation and ReuseFresh over every history in the bound, shows that the two named deviations violate them, and emits every history. Each history is replayed on real PowerLawSD / Bath / Tempo objects; every answer is mapped to the parameter version it reflects (table from fresh objects) and compared with the spec; mismatches count as known findings only where the deviated specification predicts exactly the observed version (incl. 'mixture of versions'). Seven array-taking APIs are called with Fortran-ordered, strided and read-only arrays (identical results, arguments bit-for-bit unchanged) and every sequence of computations re-using shared system/bath/parameters/process-tensor/control objects must equal fresh objects.",
        "note": "Trusted: TLC, version table from fresh objects (relative 1e-9), numpy layout constructors. Known findings: stale eta memo; bath copy closing over the original object.",
        "technique": "TLA+ object/aliasing model + TLC over histories; spec->code replay with version decoding; layout and mutation enumeration per API",
    },
    "C04": {
        "text": "Physical.tla enumerates the discrete configuration space (method x memory setting x degeneracy reduction x dimension x kind of system x coupling class up to alpha = 1.5 x temperature class x kind of initial state; 1535 configurations) and acts as a monitor: every run of the real code (Tempo, PtTempo+compute_dynamics, MeanFieldTempo, PtTebd with a PT-TEMPO process tensor, GibbsTempo; continuous parameters drawn from VERIF_SEED) is recorded as a trace of per-step deviations quantised in units of the admissible tolerance, and TLC consumes every record of every run and evaluates the invariant at every step: Hermitian and unit trace always, positive semidefinite only with full memory, chain norm one, Gibbs state normalised/Hermitian/positive.",
        "note": "Trusted: TLC as monitor, quantisation in the harness. The admissible deviation 30 * epsrel * (step+1) is a parameter, not derived (largest observed deviation on the unchanged tree: 12 % of it over all 1535 configurations). Physicality is a weak oracle for numerical values: the exact-probe checks C01-C03 carry that load.",
        "technique": "TLA+ configuration generator + TLC trace validation (monitor) of recorded per-step projections",
    },
}
# what the seeded-change rounds 3 and 4 added (DESIGN.md 12.6)
_ADDENDA = {
    "C01": " The initial state is handed over in C, Fortran and strided layouts.",
    "C03": " One-sided transforms are among the presentation variants; the plan system records the start time for which propagators are requested.",
    "C04": " Every configuration uses a complex Hermitian Hamiltonian; PT-TEBD runs include chain controls (a non-unital channel pre and post measurement, a unitary kick).",
    "C07": " The plan system records the start time for which propagators are requested; the bath-dynamics cross-check covers all dagger orders, change_only, thermal and vacuum terms and first requests on a fresh object. SysCorrCache.tla models the incremental store of system correlations behind TwoTimeBathCorrelations (pad + append of the block compute_correlations returns; caller-supplied matrices); TLC checks Square / Covers / Aligned / Monotone over all request histories and that two deviations violate them; every history is replayed on a real object with a clock system and prime-valued coupling operator, the stored matrix decoded entry by entry to time pairs after every request and every answer compared with a fresh object's. The time axis of the bath occupations is checked over a lattice of (dt, N).",
    "C11": " Numerical parts: closed form of the commuting model for T = 0.08 .. 2.5 (1e-8); Hermiticity / positivity for non-commuting models; a re-used GibbsParameters object.",
    "C14": " Transient failures are raised by the Hamiltonian, the Lindblad rate or the Lindblad operator. Code -> spec: every public compute call made by the repository's own unmodified tests and by a randomised driver is recorded (harness-side wrappers, failing calls included) and TLC validates every event against TraceRun.tla (Continuity, Monotone, Target, Records, FixedEnd); a corrupted copy of the trace must be rejected.",
    "C15": " Part (e): parameters estimated from a time-dependent system (guess_tempo_parameters) under a shift of the origin.",
    "C06": " The degeneracy maps are demanded for affine images (large offset, small scale) of every eigenvalue pattern.",
    "C08": " Cases with control operations (pre and post, same step) go through compute_gradient_and_dynamics(control=...) and the chain rule; numerically differentiated cases are partly preceded by a use of the same system object with another time step.",
    "C09": " A field-independent mean-field system (t-dependent Hamiltonian, Lindblad rate and operator) is compared with plain TEMPO (numerical).",
    "C10": " Homogeneous chains (bit-identical bond Liouvillians) are part of the configurations; the order-controlled executor implements map() and submit().",
    "C13": " PT-TEBD grids are also reached in two compute() calls followed by a call whose end step has been passed. DynamicsObj.tla includes rejected add() calls (RejectKeeps). Code -> spec: traces of the repository's tests and of a randomised driver are validated by TLC against TraceRun.tla (Target: floor((target - start)/dt) steps with on-grid targets included; Records: one sorted, aligned time point per step).",
    "C16": " Every abstract process tensor is also written tensor by tensor into a file-backed twin whose own compute_caps() must reproduce the in-memory caps (trace-preserving transforms).",
    "C17": " The mode matrix is replayed with the existing file appearing between the writer's last test and its open (a second real writer), and writers are interrupted by an exception inside the j-th propagation step (between file operations).",
    "C18": " A Control object that served another start time before is re-used (cd-reused). Controls stamped outside the computed range never act; every schedule of <= 2 step controls is also replayed through the gradient's backward pass (exact derivative from the term trajectories).",
    "C19": " The model includes failing output (any redraw may raise) and the order of exit(); schedules with failing redraws are replayed.",
    "C20": " The public attributes of every caller-supplied parameter object are compared before and after each re-use history; caller-supplied system_correlations are part of the layout/mutation enumeration; results are read again after the caller's arrays were overwritten; inputs nearly equal to inputs used before must respond linearly. Snapshot.tla: objects built from caller-owned arrays (12 constructors) reflect the contents at construction time under every history of write / build / compute (deviation Alias must violate SnapshotSemantics), and every public attribute of a PowerLawSD, once updated, answers like a fresh object.",
}
for _k, _v in _ADDENDA.items():
    CHECKS[_k]["text"] += _v
for e in ENGINES:
    e["serves_properties"] = sorted(CHECKS)
