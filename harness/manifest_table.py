"""Single source of truth for MANIFEST.json (bin/mkmanifest)."""

HOOK_COMMITS = []

ENGINES = [
    {"name": "tlc+replay", "path": "/verif/harness",
     "serves_properties": [],
     "kind_free_text": "TLA+ specifications (specs/*.tla) model-checked with TLC; TLC emits every behaviour/configuration with the expected abstract observation; the harness replays them through the real OQuPy API with exact probes and compares the projected state after every action; traces recorded from the real code are validated against the spec"},
]

NOT_APPLICABLE = {
    "C12": "pure numerical quadrature of transcendental integrands (correlation(), eta_function(), thermal factor, cut-offs): no state, transition or finite abstraction for a TLA+ specification; the only discrete content (triangle/square/rectangle cell algebra and tiling) is specified in Influence.tla and bound to the real CustomSD.correlation_2d_integral under C01",
}

_INFL_NOTE = ("Trusted: TLC, the probe construction (CustomSD subclass with an exact lattice eta_function; "
              "clock systems with cyclic-shift propagators), numpy. Not covered: numerical value of eta for real "
              "spectral densities, SVD truncation effects (probe runs use epsrel 1e-15), finite-mode-bath comparison.")

CHECKS = {
    "C01": {
        "text": "Influence.tla models the TEMPO row algorithm and the PT-TEMPO column algorithm one action per code branch and states the documented meaning of dkmax/tcut/add_correlation_time as a set of influence cells; TLC checks algorithm = documentation on every state for all (N, dkmax, add_correlation_time) in the bound and emits the expected integer coefficient vectors, which the real Tempo / PtTempo+compute_dynamics must reproduce for every matrix element at every step (exact probe bath, commuting Hamiltonian), together with the exact sequence of 2D-integral requests.",
        "note": _INFL_NOTE,
        "technique": "TLA+ spec + TLC exhaustive over memory settings; spec->code replay with exact probe bath; request-trace comparison",
    },
}
for e in ENGINES:
    e["serves_properties"] = sorted(CHECKS)
