"""pytest plugin / importable recorder for specs/NetShapeTrace.tla: one event per backend step of the TEMPO, mean-field
TEMPO, PT-TEMPO and Gibbs tensor networks (lengths of state and operator, bond dimensions), recorded while ANY program
runs - the repository's own unmodified tests or harness/extras/netshape.py's randomised driver.  For PT-TEBD: one event
per layer of gates / process-tensor step applied to the augmented chain (leg and bond dimensions of every site).

Harness-side only (methods wrapped from outside); active only when VERIF_NET_TRACE names the output file."""
import json
import os

_OUT = os.environ.get("VERIF_NET_TRACE")
_state = {"n": 0, "f": None}


def _emit(rec):
    if _state["f"] is None:
        _state["f"] = open(_OUT, "a")
    _state["f"].write(json.dumps(rec) + "\n")
    _state["f"].flush()


def _oid(obj):
    if not hasattr(obj, "_verif_net_oid"):
        _state["n"] += 1
        obj._verif_net_oid = "%d-%d" % (os.getpid(), _state["n"])      # pylint: disable=protected-access
    return obj._verif_net_oid                                          # pylint: disable=protected-access


def _k(x):
    return -1 if x is None else int(x)


def _na(be):
    mps, mpo = be._mps, be._mpo                                        # pylint: disable=protected-access
    return {"mps": len(mps), "mpo": len(mpo), "right": bool(mps.right), "bonds": [int(b) for b in mps.bond_dimensions]}


def _ti(be):
    mps = be._mps                                                      # pylint: disable=protected-access
    for a, b in zip(mps[:-1], mps[1:]):
        if a.shape[2] != b.shape[0]:
            raise ValueError("neighbouring sites disagree on their bond: %s %s" % (a.shape, b.shape))
    return {"mps": len(mps), "mpo": 0, "right": False, "bonds": [int(t.shape[2]) for t in mps[:-1]]}


def install():
    from oqupy.backends import tempo_backend as tb, pt_tempo_backend as pb

    def wrap(cls, name, ev, alg, shape, consts, step_of):
        orig = getattr(cls, name)

        def method(self, *a, **kw):
            raised = True
            out = None
            try:
                out = orig(self, *a, **kw)
                raised = False
                return out
            finally:
                try:
                    rec = {"ev": ev, "oid": _oid(self), "alg": alg, "raised": raised, "ret": bool(out) if alg == "pt" else False}
                    rec.update(consts(self))
                    if raised:
                        rec.update({"mps": 0, "mpo": 0, "right": False, "bonds": [], "step": -1})
                    else:
                        rec.update(shape(self))
                        rec["step"] = step_of(self, a, kw)
                    if not (raised and ev == "init"):
                        _emit(rec)
                except Exception as ex:  # pylint: disable=broad-except
                    _emit({"ev": "hook-error", "where": cls.__name__ + "." + name, "detail": repr(ex)[:200]})
        setattr(cls, name, method)

    def tempo_consts(self):
        d2 = int(len(self._initial_state.reshape(-1)))                 # pylint: disable=protected-access
        return {"K": _k(self._dkmax), "N": 0, "D": d2}                # pylint: disable=protected-access
    wrap(tb.BaseTempoBackend, "initialize_mps_mpo", "init", "tempo", _na, tempo_consts, lambda self, a, kw: 0)
    wrap(tb.BaseTempoBackend, "compute_system_step", "step", "tempo", _na, tempo_consts,
         lambda self, a, kw: int(kw.get("current_step", a[0] if a else -1)))

    def pt_consts(self):
        return {"K": _k(self._dkmax), "N": int(self._num_steps), "D": int(self._dimension) ** 2}    # pylint: disable=protected-access
    wrap(pb.PtTempoBackend, "initialize", "init", "pt", _na, pt_consts, lambda self, a, kw: int(self._step))      # pylint: disable=protected-access
    wrap(pb.PtTempoBackend, "compute_step", "step", "pt", _na, pt_consts, lambda self, a, kw: int(self._step))    # pylint: disable=protected-access

    def ti_consts(self):
        return {"K": _k(self._kmax), "N": _k(self._max_step), "D": int(self._dim) ** 2}             # pylint: disable=protected-access
    wrap(tb.TIBaseBackend, "initialise", "init", "gibbs", _ti, ti_consts, lambda self, a, kw: int(self._step))    # pylint: disable=protected-access
    wrap(tb.TIBaseBackend, "compute_step", "step", "gibbs", _ti, ti_consts, lambda self, a, kw: int(self._step))  # pylint: disable=protected-access


def _tebd(be):
    n = be.n
    return {"phys": [int(e.dimension) for e in be._phys_es], "pt": [int(e.dimension) for e in be._pt_es],     # pylint: disable=protected-access
            "left": [int(e.dimension) for e in be._lam_gam_es], "right": [int(e.dimension) for e in be._gam_lam_es],   # pylint: disable=protected-access
            "lam": [[int(x) for x in be._lambdas[i].shape] for i in range(n + 1)]}                              # pylint: disable=protected-access


def install_tebd():
    from oqupy.backends import pt_tebd_backend as tb

    def wrap(name, op, extra):
        orig = getattr(tb.PtTebdBackend, name)

        def method(self, *a, **kw):
            raised = True
            try:
                out = orig(self, *a, **kw)
                raised = False
                return out
            finally:
                try:
                    if not raised:
                        rec = {"ev": "tebd-init" if op == "init" else "tebd-op", "oid": _oid(self), "op": op, "ptexp": []}
                        rec.update(_tebd(self))
                        rec.update(extra(self, a, kw))
                        _emit(rec)
                    elif op != "init":
                        _emit({"ev": "tebd-raised", "oid": _oid(self), "op": op})
                except Exception as ex:  # pylint: disable=broad-except
                    _emit({"ev": "hook-error", "where": "PtTebdBackend." + name, "detail": repr(ex)[:200]})
        setattr(tb.PtTebdBackend, name, method)

    def pt_expect(self, a, kw):
        step = kw.get("step", a[0] if a else None)
        pts = kw.get("process_tensors", a[1] if len(a) > 1 else None)
        exp = []
        for pt in pts:
            bd = pt.get_bond_dimensions()
            exp.append(-1 if bd is None else int(bd[step]))
        return {"ptexp": exp, "step": int(step)}
    wrap("__init__", "init", lambda self, a, kw: {})
    wrap("apply_nn_gate_layer", "nn", lambda self, a, kw: {})
    wrap("apply_site_gate_layer", "site", lambda self, a, kw: {})
    wrap("apply_process_tensors", "pt", pt_expect)


if _OUT:
    install()
    install_tebd()
