"""Shared machinery: TLC driver, evidence, verdicts, known findings, worker pool."""
import hashlib
import json
import os
import re
import shutil
import subprocess
import sys
import tempfile
import time

VERIF = os.path.dirname(os.path.dirname(os.path.abspath(__file__)))
REPO = os.environ.get("VERIF_REPO", "/repo")
SPECS = os.path.join(VERIF, "specs")
PY = "/venv/bin/python"
TLA_JAR = "/opt/veriftools/tla/tla2tools.jar"
TLA_CP = TLA_JAR + ":/opt/veriftools/tla/CommunityModules-deps.jar"
NCPU = os.cpu_count() or 4


class MachineryError(Exception):
    """The check itself could not run (exit 2) - never a property verdict."""


# --------------------------------------------------------------------------- TLC

class TLCResult:
    def __init__(self):
        self.ok = False
        self.generated = 0
        self.distinct = 0
        self.depth = 0
        self.cases = []
        self.raw = ""
        self.violated = None
        self.wall = 0.0
        self.coverage = {}

    def __repr__(self):
        return "TLC(ok=%s gen=%d distinct=%d cases=%d violated=%s %.1fs)" % (
            self.ok, self.generated, self.distinct, len(self.cases),
            self.violated, self.wall)


_STR_RE = re.compile(r'^"((?:[^"\\]|\\.)*)"$')


def _parse_print(line):
    m = _STR_RE.match(line.strip())
    if not m:
        return None
    s = m.group(1)
    # TLA+ string escapes as printed by TLC: \" \\ \n \t
    out = []
    i = 0
    while i < len(s):
        c = s[i]
        if c == "\\" and i + 1 < len(s):
            n = s[i + 1]
            out.append({"n": "\n", "t": "\t", "r": "\r"}.get(n, n))
            i += 2
        else:
            out.append(c)
            i += 1
    return "".join(out)


TLAPS_LIB = "/opt/veriftools/tlapm/lib/tlapm/stdlib/TLAPS.tla"


def tlc(module, cfg, constants=None, workers=None, timeout=900, simulate=None,
        env=None, coverage=False, deadlock=False, extra=None, keep=False):
    """Run TLC on specs/<module>.tla.

    cfg: text of the .cfg file (constants may be appended from `constants`,
    a dict name -> TLA+ literal text).  Lines printed by the spec with
    PrintT("CASE " \\o ToJson(x)) are returned parsed in result.cases.
    """
    if workers is None:
        workers = NCPU
    tmp = tempfile.mkdtemp(prefix="vtlc_")
    res = TLCResult()
    try:
        cfg_text = cfg
        for fn in os.listdir(SPECS):
            if fn.endswith(".tla"):
                os.symlink(os.path.join(SPECS, fn), os.path.join(tmp, fn))
        if os.path.exists(TLAPS_LIB):        # modules checked by the proof system may be INSTANCEd by modules TLC runs
            os.symlink(TLAPS_LIB, os.path.join(tmp, "TLAPS.tla"))
        run_module = module
        if constants:
            # constants are arbitrary TLA+ expressions: wrap in an MC module
            run_module = "MC_" + module
            with open(os.path.join(tmp, run_module + ".tla"), "w") as f:
                f.write("---- MODULE %s ----\nEXTENDS %s\n" % (run_module, module))
                for k, v in constants.items():
                    f.write("const_%s == %s\n" % (k, v))
                f.write("====\n")
            cfg_text += "\nCONSTANTS\n" + "\n".join(
                "  %s <- const_%s" % (k, k) for k in constants) + "\n"
        cfg_path = os.path.join(tmp, run_module + ".cfg")
        with open(cfg_path, "w") as f:
            f.write(cfg_text)
        cmd = ["java", "-XX:+UseParallelGC", "-Xmx6g", "-Xss256m", "-Djava.io.tmpdir=" + tmp, "-cp", TLA_CP, "tlc2.TLC",
               "-workers", str(workers), "-metadir", os.path.join(tmp, "meta"),
               "-noGenerateSpecTE", "-config", cfg_path]
        if not deadlock:
            cmd += ["-deadlock"]
        if coverage:
            cmd += ["-coverage", "1"]
        if simulate:
            cmd += ["-simulate", simulate]
        if extra:
            cmd += list(extra)
        cmd += [run_module]
        e = dict(os.environ)
        e.pop("JAVA_TOOL_OPTIONS", None)
        if env:
            e.update({k: str(v) for k, v in env.items()})
        t0 = time.time()
        try:
            p = subprocess.run(cmd, cwd=tmp, env=e, stdout=subprocess.PIPE,
                               stderr=subprocess.STDOUT, timeout=timeout,
                               text=True)
        except subprocess.TimeoutExpired as ex:
            subprocess.run(["pkill", "-f", tmp], check=False)
            raise MachineryError("TLC timeout on %s after %ss" % (module, timeout)) from ex
        res.wall = time.time() - t0
        res.raw = p.stdout
        for line in p.stdout.splitlines():
            if line.startswith('"CASE '):
                s = _parse_print(line)
                if s is not None:
                    try:
                        res.cases.append(json.loads(s[5:]))
                    except ValueError as ex:
                        raise MachineryError("bad CASE line from TLC: %r" % line[:200]) from ex
            m = re.match(r"(\d+) states generated, (\d+) distinct states found", line)
            if m:
                res.generated = int(m.group(1))
                res.distinct = int(m.group(2))
            m = re.match(r"The number of states generated: (\d+)", line)
            if m and simulate:
                res.generated = int(m.group(1))
                res.distinct = int(m.group(1))
            m = re.match(r"The depth of the complete state graph search is (\d+)", line)
            if m:
                res.depth = int(m.group(1))
            m = re.match(r"Error: Invariant (\S+) is violated", line)
            if m:
                res.violated = m.group(1)
            m = re.match(r"Error: The invariant of (\S+) is equal to FALSE", line)      # constant-level invariant
            if m:
                res.violated = m.group(1)
            m = re.match(r"Error: Action property (\S+) is violated", line)
            if m:
                res.violated = m.group(1)
            if "Temporal properties were violated" in line:
                res.violated = res.violated or "temporal"
            if line.startswith("Error: Deadlock reached"):
                res.violated = "deadlock"
            m = re.match(r"<(\w+) line (\d+), col \d+ to line \d+, col \d+ of module (\w+)>: (\d+):(\d+)", line)
            if m:
                res.coverage[m.group(3) + "." + m.group(1) + ":" + m.group(2)] = (
                    int(m.group(4)), int(m.group(5)))
        res.ok = (p.returncode == 0 and res.violated is None
                  and ("Model checking completed. No error has been found." in p.stdout
                       or simulate is not None))
        if p.returncode != 0 and res.violated is None:
            # parse / semantic / evaluation error => machinery
            i = p.stdout.find("Error:")
            raise MachineryError("TLC failed on %s (rc=%d):\n%s\n...\n%s" % (
                module, p.returncode, p.stdout[max(i, 0):max(i, 0) + 1500] if i >= 0 else "", p.stdout[-1200:]))
        return res
    finally:
        if not keep:
            shutil.rmtree(tmp, ignore_errors=True)


# --------------------------------------------------------------------------- TLAPS

def tlaps(ctx, module, falsify):
    """Check specs/<module>.tla with the TLA+ proof system (tlapm).  `falsify` = (old text, new text): the same module with
    that replacement must NOT be provable (adequacy).  Returns the number of proved obligations."""
    tmp = tempfile.mkdtemp(prefix="vtlaps_")
    try:
        src = open(os.path.join(SPECS, module + ".tla")).read()
        if falsify[0] not in src:
            raise MachineryError("falsification text not found in %s" % module)
        outs = {}
        t0 = time.time()
        for name, text in ((module, src), (module + "Bad", src.replace("MODULE " + module, "MODULE " + module + "Bad")
                                           .replace(falsify[0], falsify[1]))):
            with open(os.path.join(tmp, name + ".tla"), "w") as f:
                f.write(text)
            try:
                p = subprocess.run(["tlapm", "--cleanfp", name + ".tla"], cwd=tmp, stdout=subprocess.PIPE,
                                   stderr=subprocess.STDOUT, text=True, timeout=1500)
            except (OSError, subprocess.TimeoutExpired) as ex:
                raise MachineryError("tlapm could not be run on %s: %r" % (name, ex)) from ex
            outs[name] = p.stdout
        m = re.search(r"All (\d+) obligations proved", outs[module])
        if not m:
            raise MachineryError("%s.tla is not proved:\n%s" % (module, outs[module][-1200:]))
        if re.search(r"All \d+ obligations proved", outs[module + "Bad"]):
            raise MachineryError("the falsified variant of %s.tla is provable too: the proof says nothing" % module)
        n = int(m.group(1))
        ctx.spec_runs.append({"module": module, "label": "TLAPS proof (tlapm, SMT): %d obligations; falsified variant rejected" % n,
                              "distinct_states": 0, "states_generated": 0, "depth": 0, "cases": 0, "ok": True,
                              "wall_s": round(time.time() - t0, 2)})
        ctx.extra.setdefault("tlaps", []).append({"module": module + ".tla", "obligations_proved": n,
                                                  "falsified_variant_rejected": True})
        return n
    finally:
        shutil.rmtree(tmp, ignore_errors=True)


def tla_seq(xs):
    return "<<" + ", ".join(tla_val(x) for x in xs) + ">>"


def tla_val(x):
    if isinstance(x, bool):
        return "TRUE" if x else "FALSE"
    if isinstance(x, int):
        return str(x)
    if isinstance(x, str):
        return '"%s"' % x
    if isinstance(x, (list, tuple)):
        return tla_seq(x)
    if isinstance(x, (set, frozenset)):
        return "{" + ", ".join(tla_val(v) for v in sorted(x)) + "}"
    if isinstance(x, dict):
        return "[" + ", ".join("%s |-> %s" % (k, tla_val(v)) for k, v in x.items()) + "]"
    raise TypeError(x)


# ---------------------------------------------------------------- known findings

def load_known():
    path = os.path.join(VERIF, "known_findings.json")
    if not os.path.exists(path):
        return []
    with open(path) as f:
        return json.load(f).get("findings", [])


# --------------------------------------------------------------------- context

class Ctx:
    """Per-run context: accumulates coverage, violations, writes evidence."""

    def __init__(self, pid, tier, seed, level="model_checking"):
        self.pid = pid
        self.tier = tier
        self.seed = seed
        self.level = level
        self.t0 = time.time()
        self.states = 0
        self.transitions = 0
        self.traces = 0
        self.evaluations = 0
        self.nontrivial = set()
        self.samples = []
        self.violations = []   # (key, what, case)
        self.known_hits = {}
        self.notes = []
        self.assumptions = []
        self.rule = ""
        self.extra = {}
        self.exhaustive = None
        self.known = [k for k in load_known() if k.get("property") == pid]
        self.spec_runs = []
        self.evidence_dir = "evidence"      # extras (coverage beyond the listed properties) write to evidence-extra

    # -- TLC bookkeeping
    def tlc(self, module, cfg, label=None, must_hold=True, **kw):
        r = tlc(module, cfg, **kw)
        self.states += r.distinct
        self.transitions += r.generated
        self.spec_runs.append({"module": module, "label": label or "",
                               "distinct_states": r.distinct,
                               "states_generated": r.generated,
                               "depth": r.depth, "cases": len(r.cases),
                               "ok": r.ok, "wall_s": round(r.wall, 2)})
        if must_hold and not r.ok:
            # the specification itself violates its property: that is a defect of
            # the machinery (spec), not of the code under test.
            raise MachineryError("spec %s (%s): TLC reports %s\n%s" % (
                module, label, r.violated, r.raw[-2500:]))
        return r

    # -- case bookkeeping
    def case(self, case, nontrivial=True, validated=True):
        self.evaluations += 1
        if validated:
            self.traces += 1
        if nontrivial:
            h = hashlib.sha1(json.dumps(case, sort_keys=True, default=str).encode()).hexdigest()
            self.nontrivial.add(h)
        if len(self.samples) < 3:
            self.samples.append(case)

    def violation(self, key, what, case=None):
        self.violations.append((key, what, case))

    def note(self, s):
        self.notes.append(s)

    # -- finish: prints verdict lines, writes evidence, returns exit code
    def finish(self):
        scratch = os.environ.get("VERIF_SCRATCH_OUT")      # seed sweeps: keep evidence/ and out/ of the real tree untouched
        if scratch:
            self.evidence_dir = os.path.join(scratch, self.evidence_dir)
        outdir = os.path.join(scratch or os.path.join(VERIF, "out"), "replays")
        os.makedirs(os.path.join(VERIF, self.evidence_dir), exist_ok=True)
        os.makedirs(outdir, exist_ok=True)
        known_keys = {k["key"]: k for k in self.known if k.get("status") == "known"}
        real = []
        seen_known = {}
        for key, what, case in self.violations:
            if key in known_keys:
                seen_known.setdefault(key, []).append(what)
            else:
                real.append((key, what, case))
        for key, whats in seen_known.items():
            print("KNOWN-FINDING: property=%s %s :: %s (%d occurrence(s); e.g. %s)" % (
                self.pid, key, known_keys[key].get("what", ""), len(whats), whats[0][:200]))
        for key, k in known_keys.items():
            if key not in seen_known and k.get("expect_in", self.tier) in (self.tier, "both"):
                print("NOTE: known finding %s did not reproduce in this run" % key)
        rc = 0
        printed = []
        nlines = 0
        for key, what, case in real:
            h = hashlib.sha1((key + what).encode()).hexdigest()[:10]
            path = os.path.join(outdir, "%s-%s.json" % (self.pid, h))
            with open(path, "w") as f:
                json.dump({"property": self.pid, "key": key, "what": what,
                           "case": case, "seed": self.seed, "tier": self.tier},
                          f, indent=1, default=str)
            nkey = sum(1 for k in printed if k == key)
            if nkey < 2 and nlines < 12:
                nlines += 1
                print("VIOLATION property=%s replay=%s  [%s] %s" % (self.pid, path, key, what[:400]))
            printed.append(key)
            rc = 1
        cov = {
            "states": self.states,
            "transitions": self.transitions,
            "traces_validated_against_impl": self.traces,
            "evaluations": self.evaluations,
            "distinct_nontrivial": len(self.nontrivial),
            "rule": self.rule,
            "samples": self.samples[:3] or ["(no case reached)"],
            "spec_runs": self.spec_runs,
            "notes": self.notes,
            "known_findings_seen": sorted(seen_known),
        }
        if self.exhaustive is not None:
            cov["exhaustive"] = self.exhaustive
        cov.update(self.extra)
        ev = {
            "property_id": self.pid,
            "tier": self.tier,
            "seed": self.seed,
            "level": self.level,
            "coverage": cov,
            "assumptions": self.assumptions,
            "wall_s": round(time.time() - self.t0, 2),
            "violations": len(real),
        }
        with open(os.path.join(VERIF, self.evidence_dir, self.pid + ".json"), "w") as f:
            json.dump(ev, f, indent=1, default=str)
        print("%s %s: %s  (TLC states=%d, impl cases=%d, nontrivial=%d, %.1fs)" % (
            self.pid, self.tier, "OK" if rc == 0 else "VIOLATED", self.states,
            self.evaluations, len(self.nontrivial), time.time() - self.t0))
        return rc


# ------------------------------------------------------------------ worker pool

def _init_worker():
    os.environ.setdefault("OMP_NUM_THREADS", "1")
    os.environ.setdefault("OPENBLAS_NUM_THREADS", "1")
    os.environ.setdefault("MKL_NUM_THREADS", "1")
    if REPO not in sys.path:
        sys.path.insert(0, REPO)
    import warnings
    warnings.filterwarnings("ignore")


def _init_pool_worker():
    _init_worker()
    if not os.environ.get("VERIF_WORKER_STDOUT"):
        sys.stdout = open(os.devnull, "w")     # the library prints debug output in places


def pmap(fn, items, workers=None, chunksize=1, timeout=7200):
    """Map fn over items in fresh worker processes (oqupy imported from REPO).
    A worker that dies (e.g. out of memory) or a map that exceeds `timeout` seconds is a
    machinery error - never a hang and never a verdict."""
    import concurrent.futures as cf
    import multiprocessing as mp
    items = list(items)
    if not items:
        return []
    if workers is None:
        workers = max(1, min(NCPU, len(items)))
    if workers == 1 or os.environ.get("VERIF_SERIAL"):
        _init_worker()
        return [fn(x) for x in items]
    ctx = mp.get_context("fork")
    ex = cf.ProcessPoolExecutor(max_workers=workers, mp_context=ctx, initializer=_init_pool_worker)
    try:
        return list(ex.map(fn, items, chunksize=chunksize, timeout=timeout))
    except cf.process.BrokenProcessPool as e:
        raise MachineryError("a worker process died (out of memory?) while running %s" % getattr(fn, "__name__", fn)) from e
    except cf.TimeoutError as e:
        raise MachineryError("worker pool timed out after %ss running %s" % (timeout, getattr(fn, "__name__", fn))) from e
    finally:
        procs = list(getattr(ex, "_processes", {}).values())
        ex.shutdown(wait=False, cancel_futures=True)
        for p in procs:
            if p.is_alive():
                p.terminate()
