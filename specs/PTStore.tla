------------------------------ MODULE PTStore ------------------------------
(***************************************************************************)
(* A process tensor as a random-access store (oqupy/process_tensor.py):    *)
(* the back ends fill it with set_mpo_tensor / set_cap_tensor /            *)
(* set_initial_tensor at arbitrary positions and every consumer reads it   *)
(* through the getters.  The in-memory class (SimpleProcessTensor) and the *)
(* file-backed class (FileProcessTensor) are two implementations of the    *)
(* same abstract object, and a file-backed one that is closed and opened   *)
(* again (read-only, either import type) is a third and fourth.            *)
(*                                                                         *)
(* Abstract state: a sequence of slots for the MPO tensors, one for the    *)
(* caps, and the initial tensor; a slot is empty (0) or holds a tensor id. *)
(* Writing beyond the end extends the sequence with empty slots.           *)
(* Observations are specified only where the documented behaviour is       *)
(* unambiguous: reading a filled slot, the length, reading a cap beyond    *)
(* the end (None), reading an MPO tensor beyond the end (IndexError), and  *)
(* the bond dimensions when no MPO slot is empty.  Reading an empty MPO    *)
(* slot and negative positions are left unspecified.                       *)
(***************************************************************************)
EXTENDS Naturals, Integers, Sequences, FiniteSets, TLC, Json

CONSTANTS MaxPos,     \* positions 0..MaxPos
          NTensors,   \* tensor ids 1..NTensors (the harness gives each a shape and content)
          MaxOps,
          Emit

VARIABLES mpo, caps, init, hist

vars == <<mpo, caps, init, hist>>

Empty == 0
Ids == 1..NTensors

\* slots are numbered from 0 in the code; sequences from 1 here
Put(s, pos, v) ==
    LET ext == IF pos + 1 > Len(s) THEN s \o [i \in 1..(pos + 1 - Len(s)) |-> Empty] ELSE s
    IN [ext EXCEPT ![pos + 1] = v]

Get(s, pos) == IF pos + 1 <= Len(s) THEN s[pos + 1] ELSE -1      \* -1: beyond the end

NoHoles(s) == \A i \in DOMAIN s : s[i] # Empty

Init == mpo = <<>> /\ caps = <<>> /\ init = Empty /\ hist = <<>>

SetMpo(pos, t) ==
    /\ mpo' = Put(mpo, pos, t) /\ UNCHANGED <<caps, init>>
    /\ hist' = Append(hist, [op |-> "set_mpo", pos |-> pos, t |-> t,
                             obs |-> [len |-> Len(Put(mpo, pos, t)), mpo |-> Put(mpo, pos, t), caps |-> caps, init |-> init,
                                      beyond |-> Len(Put(mpo, pos, t)), capnone |-> Len(caps),
                                      bonds |-> NoHoles(Put(mpo, pos, t))]])

SetCap(pos, t) ==
    /\ caps' = Put(caps, pos, t) /\ UNCHANGED <<mpo, init>>
    /\ hist' = Append(hist, [op |-> "set_cap", pos |-> pos, t |-> t,
                             obs |-> [len |-> Len(mpo), mpo |-> mpo, caps |-> Put(caps, pos, t), init |-> init,
                                      beyond |-> Len(mpo), capnone |-> Len(Put(caps, pos, t)),
                                      bonds |-> Len(mpo) > 0 /\ NoHoles(mpo)]])

SetInit(t) ==
    /\ init' = t /\ UNCHANGED <<mpo, caps>>
    /\ hist' = Append(hist, [op |-> "set_init", pos |-> 0, t |-> t,
                             obs |-> [len |-> Len(mpo), mpo |-> mpo, caps |-> caps, init |-> t,
                                      beyond |-> Len(mpo), capnone |-> Len(caps),
                                      bonds |-> Len(mpo) > 0 /\ NoHoles(mpo)]])

\* the file-backed object is closed and opened again (read-only): nothing changes
Reopen ==
    /\ Len(hist) = MaxOps - 1                        \* there is no append mode: a re-opened file is read-only
    /\ NoHoles(mpo) /\ NoHoles(caps)                  \* reading a slot that was never written is unspecified (importing reads all)
    /\ UNCHANGED <<mpo, caps, init>>
    /\ hist' = Append(hist, [op |-> "reopen", pos |-> 0, t |-> 0,
                             obs |-> [len |-> Len(mpo), mpo |-> mpo, caps |-> caps, init |-> init,
                                      beyond |-> Len(mpo), capnone |-> Len(caps),
                                      bonds |-> Len(mpo) > 0 /\ NoHoles(mpo)]])

Done == Len(hist) >= MaxOps
DoPrint == Emit => PrintT("CASE " \o ToJson([hist |-> hist]))

Next ==
    \/ /\ ~Done
       /\ \/ \E pos \in 0..MaxPos, t \in Ids : SetMpo(pos, t) \/ SetCap(pos, t)
          \/ \E t \in Ids \cup {Empty} : SetInit(t)
          \/ Reopen
    \/ (Done /\ DoPrint /\ UNCHANGED vars)

Spec == Init /\ [][Next]_vars

\* ------------------------------------------------------------------ properties
\* a write changes exactly the addressed slot (and pads with empty slots), never another tensor
WriteLocal ==
    [][\A i \in DOMAIN mpo : (i \in DOMAIN mpo' /\ (mpo'[i] = mpo[i] \/ (Len(hist') > 0 /\ hist'[Len(hist')].op = "set_mpo"
                                                                          /\ hist'[Len(hist')].pos + 1 = i)))]_vars
\* the store never shrinks
Monotone == [][Len(mpo') >= Len(mpo) /\ Len(caps') >= Len(caps)]_vars
\* the last entry of the history describes the current state
HistFaithful == Len(hist) > 0 => (hist[Len(hist)].obs.mpo = mpo /\ hist[Len(hist)].obs.caps = caps /\ hist[Len(hist)].obs.init = init)
=============================================================================
