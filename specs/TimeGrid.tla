------------------------------ MODULE TimeGrid ------------------------------
(***************************************************************************)
(* The time grid of a computation (C13).  All times are integers in units  *)
(* of a quarter tick q: dt = 4p, start = 4s, end = 4s + 4pm + off*p with   *)
(* off in 0..3 (off = 0: end is a grid point; otherwise off-grid).         *)
(* The harness maps ticks to decimal literals (tick = 0.01, 0.05, ...), so *)
(* that "end = start + m dt written as a literal" is exactly the case      *)
(* off = 0.                                                                *)
(*                                                                         *)
(* One action per loop iteration of the code:                              *)
(*   tempo.py Tempo.compute / MeanFieldTempo.compute (_get_num_step),      *)
(*   pt_tempo.py PtTempo.__init__ (num_steps),                             *)
(*   system_dynamics.py compute_dynamics(_with_field) (times),             *)
(*   gradient.py compute_gradient_and_dynamics (times),                    *)
(*   pt_tebd.py PtTebd.compute / time().                                   *)
(***************************************************************************)
EXTENDS Naturals, Integers, Sequences, Json, TLC

CONSTANTS PSet, SSet, MaxM, MinM, OffSet, ApiSet, Emit

VARIABLES api, p, s, m, off, recAll,   \* configuration
          n,                           \* number of whole steps that fit (computed once)
          k,                           \* steps done
          labels,                      \* recorded time labels (units q)
          done

vars == <<api, p, s, m, off, recAll, n, k, labels, done>>

Dt    == 4 * p
Start == 4 * s
End   == 4 * s + 4 * p * m + off * p

\* number of whole steps that fit: floor((end - start) / dt)
Fit == (End - Start) \div Dt

HasRecordAll(a) == a \in {"cd", "cdf", "grad"}

Init ==
    /\ api \in ApiSet /\ p \in PSet /\ s \in SSet /\ m \in MinM..MaxM /\ off \in OffSet
    /\ recAll \in (IF HasRecordAll(api) THEN {TRUE, FALSE} ELSE {TRUE})
    /\ (api = "pttempo" => m >= 2)
    /\ n = Fit /\ k = 0 /\ done = FALSE
    /\ labels = IF recAll THEN << Start >> ELSE << >>

Step ==
    /\ ~done /\ k < n
    /\ k' = k + 1
    /\ labels' = IF recAll THEN Append(labels, Start + (k + 1) * Dt) ELSE labels
    /\ UNCHANGED <<api, p, s, m, off, recAll, n, done>>

Finish ==
    /\ ~done /\ k = n
    /\ done' = TRUE
    /\ labels' = IF recAll THEN labels ELSE << Start + n * Dt >>
    /\ UNCHANGED <<api, p, s, m, off, recAll, n, k>>

Next == Step \/ Finish
Spec == Init /\ [][Next]_vars

\* --- properties -----------------------------------------------------------
Covers == n = m                      \* an on-grid end is included, an off-grid end is floored
Sorted == \A i \in 1..(Len(labels) - 1) : labels[i] < labels[i + 1]
OnGrid == \A i \in 1..Len(labels) : (labels[i] - Start) % Dt = 0
Aligned == recAll => \A i \in 1..Len(labels) : labels[i] = Start + (i - 1) * Dt
Complete == done => (IF recAll THEN Len(labels) = m + 1 ELSE labels = << Start + m * Dt >>)
WithinEnd == \A i \in 1..Len(labels) : labels[i] <= End

CaseRecord == [ api |-> api, p |-> p, s |-> s, m |-> m, off |-> off, recAll |-> recAll,
                n |-> n, labels |-> labels, dt |-> Dt, start |-> Start, endq |-> End ]
EmitCase == (Emit /\ done) => PrintT("CASE " \o ToJson(CaseRecord))
=============================================================================
