---------------------------- MODULE NetShapeOps ----------------------------
(***************************************************************************)
(* Bookkeeping of the tensor networks behind TEMPO, PT-TEMPO and the Gibbs  *)
(* computation (oqupy/backends/tempo_backend.py, pt_tempo_backend.py):      *)
(* lengths of the matrix product state and of the influence operator after  *)
(* every backend step, written the way the code does it (incremental:       *)
(* compare lengths, contract one site, join one site, split one off), and   *)
(* the closed forms that the documented meaning of dkmax prescribes.        *)
(* Pure operators; NetShape.tla runs them as a machine, NetShapeTrace.tla   *)
(* holds recorded backend steps against them.                               *)
(***************************************************************************)
EXTENDS Naturals, Integers, Sequences

Unl == -1                                   \* dkmax = None
Min2(a, b) == IF a <= b THEN a ELSE b

\* ---------------------------------------------------------------- TEMPO (BaseTempoBackend.compute_system_step)
\* cur = number of the step being computed (1, 2, ...); K = dkmax; Dev = named deviation or "none"
TempoInit(K) == [mps |-> 1, mpo |-> IF K = Unl THEN 1 ELSE K + 1]

TempoTmpMpo(o, cur, K, Dev) ==                       \* length of the temporary operator that is zipped into the state
    IF K = Unl THEN o.mpo
    ELSE IF (IF Dev = "CutOffByOne" THEN cur < K ELSE cur <= K) THEN cur
    ELSE K + 1

TempoStep(o, cur, K, Dev) ==
    LET tmp == TempoTmpMpo(o, cur, K, Dev)
        afterSum == IF o.mps # tmp THEN o.mps - 1 ELSE o.mps     \* the oldest site is summed out when the memory is full
    IN [mps |-> afterSum + 1,                                     \* second half-step propagator joins as the new last site
        mpo |-> IF K = Unl THEN o.mpo + 1 ELSE o.mpo]

TempoClosed(step, K) ==                               \* the documented meaning: memory of dkmax + 1 steps
    [mps |-> (IF K = Unl THEN step ELSE Min2(step, K + 1)) + 1,
     mpo |-> IF K = Unl THEN step + 1 ELSE K + 1]

\* ---------------------------------------------------------------- PT-TEMPO (PtTempoBackend.initialize / compute_step)
NumInfl(N, K) == Min2(N, K + 1)

PtInit(N, K) == [mps |-> NumInfl(N, K), mpo |-> NumInfl(N, K), right |-> TRUE]

PtEndPhase(step, N, K, Dev) ==                        \* step = number of the step being computed (2, 3, ...)
    IF Dev = "EndPhaseLate" THEN step > N - NumInfl(N, K) + 2 ELSE step > N - NumInfl(N, K) + 1

PtStep(o, step, N, K, Dev) ==
    IF PtEndPhase(step, N, K, Dev)
    THEN [mps |-> o.mps, mpo |-> o.mpo - 1, right |-> FALSE]
    ELSE [mps |-> o.mps + 1, mpo |-> o.mpo, right |-> o.right]

PtClosed(step, N, K) ==
    [mps |-> Min2(N, step + NumInfl(N, K) - 1),
     mpo |-> Min2(NumInfl(N, K), N - step + 1),
     right |-> step <= N - NumInfl(N, K) + 1]

\* ---------------------------------------------------------------- Gibbs (TIBaseBackend.initialise / compute_step)
GibbsInit == [mps |-> 2]
GibbsStep(o, K) == [mps |-> IF o.mps + 1 > K + 1 THEN o.mps ELSE o.mps + 1]
GibbsClosed(step, K) == [mps |-> Min2(step, K) + 1]

=============================================================================
