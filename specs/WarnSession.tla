---------------------------- MODULE WarnSession ----------------------------
(***************************************************************************)
(* A reader SESSION (C17): one interpreter with Python's default warning    *)
(* filters opens process-tensor files one after the other.  Python shows a  *)
(* warning once per (text, source line): the registry below.  The library   *)
(* issues the "may be corrupt" warning from one source line, so what the    *)
(* user sees depends on the TEXT.  Property: the first time an interrupted  *)
(* file is opened the user is told (FirstOpenVisible) - hence every         *)
(* interrupted file of the session is reported at least once.               *)
(* Dev = "SameText" is the library before repair 892b193 (one text for all  *)
(* files): it must violate the property.                                    *)
(* TLC emits every history with the number of warnings that must be visible *)
(* on the error stream; the harness replays it with real files in one real  *)
(* interpreter (harness/props/c17.py, session_job).                         *)
(***************************************************************************)
EXTENDS Naturals, Sequences, FiniteSets, TLC, Json

CONSTANTS Files, Flagged, MaxOpens, Dev, Emit

VARIABLES hist,      \* files opened so far, in order
          registry,  \* texts Python has shown already (for the one source line)
          visible    \* for every open: did a warning reach the error stream?
vars == <<hist, registry, visible>>

Text(f) == IF Dev = "SameText" THEN <<"may be corrupt">> ELSE <<"may be corrupt", f>>

Init == hist = <<>> /\ registry = {} /\ visible = <<>>

Open(f) ==
    /\ Len(hist) < MaxOpens
    /\ hist' = Append(hist, f)
    /\ IF f \in Flagged
       THEN /\ visible' = Append(visible, Text(f) \notin registry)
            /\ registry' = registry \cup {Text(f)}
       ELSE /\ visible' = Append(visible, FALSE)
            /\ UNCHANGED registry

Next == \E f \in Files : Open(f)
Spec == Init /\ [][Next]_vars

FirstOpenVisible ==
    \A i \in 1..Len(hist) :
        (hist[i] \in Flagged /\ \A j \in 1..(i - 1) : hist[j] # hist[i]) => visible[i]
CleanSilent == \A i \in 1..Len(hist) : hist[i] \notin Flagged => ~visible[i]

Shown == Cardinality({ i \in 1..Len(hist) : visible[i] })
EmitCase == (Emit /\ Len(hist) >= 1) => PrintT("CASE " \o ToJson([hist |-> hist, shown |-> Shown]))
=============================================================================
