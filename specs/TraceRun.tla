------------------------------ MODULE TraceRun ------------------------------
(***************************************************************************)
(* Code -> specification: validation of traces recorded from ANY program   *)
(* that uses the method objects - in particular the repository's own,       *)
(* unmodified test-suite (harness/trace_plugin.py wraps the public compute  *)
(* calls from outside and writes one event per call, also when the call     *)
(* raises).  TLC consumes the events in order, keeps the abstract state of  *)
(* every object (step counter, number of recorded time points) and          *)
(* evaluates at every event the rules that Stepper.tla / TimeGrid.tla state *)
(* for spec-generated histories:                                            *)
(*   Continuity   the object is in the state the previous event left it in  *)
(*   Monotone     the step counter never decreases                          *)
(*   Target       a call that returns leaves the object at                  *)
(*                max(current step, floor((target - start) / dt))           *)
(*                (on-grid targets included: exact tick arithmetic)          *)
(*   Records      exactly one recorded time point per step 0..step,          *)
(*                sorted, each equal to start + k dt                         *)
(*   FixedEnd     PT-TEMPO / Gibbs objects end at their fixed length and     *)
(*                repeated calls change nothing                              *)
(*   Call*        the stateless front ends compute_dynamics(_with_field):    *)
(*                number of recorded points, grid, label of the last point   *)
(* Times are integers in ticks (1e-4); events whose times are not on the     *)
(* tick grid only get the rules that do not need the target.                 *)
(***************************************************************************)
EXTENDS Naturals, Integers, Sequences, FiniteSets, TLC, Json, IOUtils

Events == ndJsonDeserialize(IOEnv.TRACE_FILE)

VARIABLES l, objs, bad
vars == <<l, objs, bad>>

Max2(a, b) == IF a >= b THEN a ELSE b
Floor(a, b) == IF a >= 0 THEN a \div b ELSE -((-a + b - 1) \div b)          \* b > 0

Init == l = 1 /\ objs = [x \in {} |-> 0] /\ bad = <<>>

E == Events[l]

Known == E.oid \in DOMAIN objs

NewObj == [kind |-> E.kind, start |-> E.start, dt |-> E.dt, ongrid |-> E.ongrid, aux |-> E.aux, step |-> -1, nrec |-> 0]

\* the rules, each a pair <<name, holds?>>
Rules(o) ==
    LET done == ~E.raised
        tsteps == IF o.kind = "tebd" THEN E.target
                  ELSE IF o.kind = "pttempo" THEN Floor(o.aux - o.start, o.dt)
                  ELSE IF o.kind = "gibbs" THEN o.aux - 1
                  ELSE Floor(E.target - o.start, o.dt)
        base == IF o.kind = "tebd" THEN o.aux ELSE 0                               \* first step of the object
        cur == IF E.step_before < 0 THEN base ELSE E.step_before
        exact == o.ongrid /\ E.ongrid
    IN << <<"Continuity", E.step_before = o.step /\ (o.kind \in {"pttempo"} \/ E.nrec_before = o.nrec)>>,
          <<"Monotone", E.step_after >= E.step_before>>,
          <<"Target", (done /\ exact /\ o.kind \in {"tempo", "mftempo", "tebd"}) => E.step_after = Max2(cur, tsteps)>>,
          <<"Records", (done /\ o.kind \in {"tempo", "mftempo", "tebd"}) =>
                          (E.nrec_after = E.step_after - base + 1 /\ E.sorted /\ E.grid)>>,
          <<"FixedEndGibbs", (done /\ o.kind = "gibbs") => (E.step_after = o.aux - 1 /\ E.nrec_after = o.aux + 1 /\ E.sorted)>>,
          <<"FixedEndPT", (done /\ o.kind = "pttempo") =>
                          ((exact => E.nrec_after = tsteps) /\ E.step_after >= E.nrec_after
                           /\ (E.call = "get_process_tensor" => E.ptlen = E.nrec_after))>>,
          <<"RaisedKeepsRecords", (E.raised /\ o.kind \in {"tempo", "mftempo"}) => E.nrec_after >= E.nrec_before>> >>

Failed(o) == LET R == Rules(o) IN { R[i][1] : i \in { j \in DOMAIN R : ~R[j][2] } }

\* stateless front ends (compute_dynamics, compute_dynamics_with_field): the number of steps is the one asked for, or
\* else the length of the shortest process tensor; one recorded time point per step 0..n (or only the last one), each
\* equal to start + k dt; the last label is start + n dt
CallRules ==
    LET n == IF E.nsteps >= 0 THEN E.nsteps ELSE E.ptmin
        done == ~E.raised /\ n >= 0 /\ E.dt > 0
    IN << <<"CallCount", done => E.nrec = (IF E.record_all THEN n + 1 ELSE 1)>>,
          <<"CallGrid", done => (E.sorted /\ E.grid)>>,
          <<"CallLastLabel", (done /\ E.ongrid /\ E.lastgrid) => E.last = E.start + n * E.dt>> >>
CallFailed == { CallRules[i][1] : i \in { j \in DOMAIN CallRules : ~CallRules[j][2] } }

Consume ==
    /\ l <= Len(Events)
    /\ l' = l + 1
    /\ CASE E.ev = "new" -> objs' = (E.oid :> NewObj) @@ objs /\ UNCHANGED bad
         [] E.ev = "compute" /\ Known ->
               /\ objs' = [objs EXCEPT ![E.oid].step = E.step_after, ![E.oid].nrec = E.nrec_after]
               /\ bad' = IF Failed(objs[E.oid]) = {} THEN bad ELSE Append(bad, [line |-> l, oid |-> E.oid, kind |-> objs[E.oid].kind, rules |-> Failed(objs[E.oid])])
         [] E.ev = "call" ->
               /\ UNCHANGED objs
               /\ bad' = IF CallFailed = {} THEN bad ELSE Append(bad, [line |-> l, oid |-> "-", kind |-> E.fn, rules |-> CallFailed])
         [] E.ev = "hook-error" -> bad' = Append(bad, [line |-> l, oid |-> "-", kind |-> "hook-error", rules |-> {"hook-error"}]) /\ UNCHANGED objs
         [] OTHER -> UNCHANGED <<objs, bad>>

Next == Consume
Spec == Init /\ [][Next]_vars

AllRulesHold == bad = <<>>
TraceAccepted == TLCGet("stats").diameter - 1 = Len(Events)
EmitBad == (l = Len(Events) + 1) => PrintT("CASE " \o ToJson([bad |-> bad, events |-> Len(Events), objects |-> Cardinality(DOMAIN objs)]))
=============================================================================
