------------------------------ MODULE Physical ------------------------------
(***************************************************************************)
(* Every reported state is a physical density matrix (C04).                *)
(*                                                                         *)
(* Generator part: the discrete configuration space (method, memory        *)
(* setting, degeneracy reduction, dimension, kind of system, coupling      *)
(* strength class, temperature class, kind of initial state).              *)
(* Monitor part: a run of the real code is a trace of per-step records     *)
(*   [k, tr, herm, mineig, norm]   (deviations quantised in units of the   *)
(* admissible tolerance: 0 or 1 = within tolerance);                       *)
(* the monitor consumes every record of every run in order and evaluates   *)
(* the physicality invariant at every step, not only at the end.           *)
(*   oqupy/tempo.py, pt_tempo.py, system_dynamics.py, pt_tebd.py,          *)
(*   backends/*: whatever produces the recorded states.                    *)
(***************************************************************************)
EXTENDS Naturals, Integers, Sequences, FiniteSets, Json, TLC, IOUtils

CONSTANTS Emit

Methods == {"tempo", "pt+dynamics", "mftempo", "tebd", "gibbs"}
Mems    == {"full", "dkmax", "dkmax+addcorr"}
Systems == {"static", "timedep", "dissipative", "defective"}     \* "defective": a decay ladder with equal rates (the Liouvillian is not diagonalisable)
Inits   == {"pure", "mixed", "rankdef"}
Couplings == {"diagonal", "real", "complex", "degenerate"}     \* coupling operator diagonal / real non-diagonal / complex Hermitian / diagonal with a repeated eigenvalue

Valid(c) ==
    /\ (c.method = "tebd" => (c.mem = "full" /\ ~c.unique))
    /\ (c.method = "gibbs" => (c.mem = "full" /\ ~c.unique /\ c.sys = "static" /\ c.init = "mixed" /\ c.temp = 1))
    /\ (c.method = "mftempo" => c.sys \notin {"static", "defective"})
    /\ (c.sys = "defective" => (c.d = 3 /\ c.method \in {"tempo", "pt+dynamics", "tebd"}))
    /\ (c.d = 3 => c.alpha # 3)                \* strong coupling only for qubits (cost)
    /\ (c.method = "gibbs" => c.coupling \in {"diagonal", "degenerate"})          \* GibbsTempo supports diagonal couplings only
    /\ (c.file => c.method \in {"pt+dynamics", "tebd"})          \* file-backed process tensors
    /\ (c.coupling \in {"real", "complex"} => c.d = 2)
    /\ (c.coupling = "degenerate" => c.d = 3)
    /\ (c.restart => c.method = "tebd")              \* chain computation continued from its exported chain state

ConfigSpace == { c \in [method : Methods, mem : Mems, unique : BOOLEAN, d : {2, 3}, sys : Systems,
                        alpha : 1..3, temp : 0..1, init : Inits, coupling : Couplings, file : BOOLEAN, restart : BOOLEAN] : Valid(c) }

VARIABLES mode, cfg, run, l, bad

vars == <<mode, cfg, run, l, bad>>

Runs == JsonDeserialize(IOEnv.TRACE_FILE)

GenInit == mode = "gen" /\ cfg \in ConfigSpace /\ run = 0 /\ l = 0 /\ bad = << >>
GenNext == FALSE /\ UNCHANGED vars

\* ---- monitor ------------------------------------------------------------
NoCfg == [method |-> "none"]
TraceInit == mode = "trace" /\ cfg = NoCfg /\ run = 1 /\ l = 1 /\ bad = << >>

Rec == Runs[run].steps[l]
FullMemory == Runs[run].cfg.mem = "full"

TraceOk(r) == r.tr <= 1
HermOk(r)  == r.herm <= 1
PsdOk(r)   == r.mineig <= 1
NormOk(r)  == r.norm <= 1
Physical(r) == TraceOk(r) /\ HermOk(r) /\ NormOk(r) /\ (FullMemory => PsdOk(r))

Consume ==
    /\ mode = "trace" /\ run <= Len(Runs) /\ l <= Len(Runs[run].steps)
    /\ Rec.k = l - 1                                   \* the records of a run are the consecutive steps 0, 1, 2, ..
    /\ bad' = IF Physical(Rec) THEN bad ELSE Append(bad, <<Runs[run].id, Rec.k>>)
    /\ IF l < Len(Runs[run].steps) THEN l' = l + 1 /\ run' = run ELSE l' = 1 /\ run' = run + 1
    /\ UNCHANGED <<mode, cfg>>

TraceNext == Consume

\* every step of every run is physical
AllPhysical == bad = << >>
\* the whole batch was consumed
Consumed == run = Len(Runs) + 1
TraceAccepted == TLCGet("stats").diameter - 1 = (LET RECURSIVE S(_) S(i) == IF i = 0 THEN 0 ELSE Len(Runs[i].steps) + S(i - 1) IN S(Len(Runs)))

EmitCfg == (Emit /\ mode = "gen") => PrintT("CASE " \o ToJson(cfg))
EmitBad == (mode = "trace" /\ run = Len(Runs) + 1 /\ bad # << >>) => PrintT("CASE " \o ToJson([bad |-> bad]))
=============================================================================
