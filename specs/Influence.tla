----------------------------- MODULE Influence -----------------------------
(***************************************************************************)
(* Discrete structure of the TEMPO / PT-TEMPO influence functional.        *)
(*                                                                         *)
(* Time points r = 1..N sit between the two half-step propagators of step  *)
(* r.  An "influence" couples time point r with the earlier time point     *)
(* r - dk and carries the 2D integral of the bath correlation function     *)
(* over a set of lattice cells c (cell c = the square at separation c,     *)
(* cell 0 = the triangle).  The abstract state is the set `cover` of       *)
(* triples <<r, dk, c>>.                                                    *)
(*                                                                         *)
(* Two algorithm models, one action per branch of the code:                *)
(*   "row"  oqupy/backends/tempo_backend.py  BaseTempoBackend              *)
(*          (initialize_mps_mpo, compute_system_step)                      *)
(*   "col"  oqupy/backends/pt_tempo_backend.py PtTempoBackend              *)
(*          (initialize, compute_step: grow phase / end phase)             *)
(* and the documented meaning DocCover of the memory settings              *)
(* (dkmax = K, add_correlation_time = A*dt).                               *)
(***************************************************************************)
EXTENDS Naturals, Integers, Sequences, FiniteSets, FiniteSetsExt, Json, TLC

CONSTANTS MaxN,      \* largest number of steps explored
          KSet,      \* memory lengths explored (KNone = no cutoff)
          ASet,      \* additional correlation times in units of dt (ANone, AInf)
          OSet,      \* coupling eigenvalue tuples explored
          ShiftSet,  \* tuples of cyclic shifts of the successive half-step propagators (periodic)
          AlgSet,    \* subset of {"row", "col"}
          MinN,
          Emit       \* TRUE: print one CASE line per finished behaviour

KNone == 1000
ANone == 1000
AInf  == 999

Min2(a, b) == IF a <= b THEN a ELSE b

VARIABLES alg, N, K, A, o, sh,   \* configuration (chosen in Init, then constant)
          n,                     \* rows finished (row) / columns finished (col)
          mpo,                   \* sequence of cell sets; row: Head = furthest, col: index i <-> dk = i-1
          cover,                 \* set of <<r, dk, c>>
          reqs                   \* sequence of 2D-integral requests <<shape, t1, t2>> (grid units)

vars == <<alg, N, K, A, o, sh, n, mpo, cover, reqs>>

(***************************************************************************)
(* Documented meaning of the memory settings.                              *)
(***************************************************************************)
Width(r) ==            \* number of cells carried by the furthest influence of row r > K
    IF A = ANone THEN 1
    ELSE IF A = AInf THEN r - K
    ELSE Min2(r - K, 1 + A)

Cells(r, dk) ==
    IF K # KNone /\ dk = K /\ r > K THEN K .. (K + Width(r) - 1) ELSE {dk}

DocCover(m) ==
    UNION { { <<r, dk, c>> : c \in Cells(r, dk) } :
              <<r, dk>> \in { <<rr, dd>> \in (1..m) \X (0..m) : dd <= Min2(rr - 1, K) } }

(***************************************************************************)
(* Requests to correlation_2d_integral (tempo.py influence_matrix):        *)
(* shape 0 = upper-triangle (t1 = 0), 1 = square at t1 = dk, 2 = rectangle *)
(* from t1 = K to t2.                                                      *)
(***************************************************************************)
ReqPlain(dk) == IF dk = 0 THEN <<0, 0, 0>> ELSE <<1, dk, 0>>
ReqRect(m)   == <<2, K, K + (IF A = AInf THEN m ELSE Min2(m, 1 + A))>>
RectCells(m) == K .. (K + (IF A = AInf THEN m ELSE Min2(m, 1 + A)) - 1)

(***************************************************************************)
(* Row algorithm (TEMPO).                                                  *)
(***************************************************************************)
RowInit ==
    /\ n = 0 /\ cover = {}
    /\ IF K = KNone
       THEN mpo = << {0} >> /\ reqs = << ReqPlain(0) >>
       ELSE /\ mpo = [ i \in 1..(K+1) |-> {K + 1 - i} ]          \* reversed(influences)
            /\ reqs = [ i \in 1..(K+1) |-> ReqPlain(i - 1) ]

Used(m, s) ==      \* cover contribution of row s using mpo list m (Head = furthest)
    { <<s, Len(m) - i, c>> : <<i, c>> \in { <<ii, cc>> \in (1..Len(m)) \X (0..(2*MaxN+2)) : cc \in m[ii] } }

RowStepNoCutoff ==          \* dkmax is None: use all, then grow to the left
    /\ K = KNone
    /\ cover' = cover \cup Used(mpo, n + 1)
    /\ mpo' = << {Len(mpo)} >> \o mpo
    /\ reqs' = Append(reqs, ReqPlain(Len(mpo)))

RowStepWithin ==            \* current_step <= dkmax: suffix of length current_step
    /\ K # KNone /\ n + 1 <= K
    /\ cover' = cover \cup Used(SubSeq(mpo, Len(mpo) - n, Len(mpo)), n + 1)
    /\ UNCHANGED <<mpo, reqs>>

RowStepBeyond ==            \* current_step > dkmax
    /\ K # KNone /\ n + 1 > K
    /\ IF A = ANone
       THEN /\ cover' = cover \cup Used(mpo, n + 1)
            /\ UNCHANGED reqs
       ELSE /\ cover' = cover \cup Used(<< RectCells(n + 1 - K) >> \o Tail(mpo), n + 1)
            /\ reqs' = Append(reqs, ReqRect(n + 1 - K))
    /\ UNCHANGED mpo

RowStep == alg = "row" /\ n < N /\ n' = n + 1
           /\ (RowStepNoCutoff \/ RowStepWithin \/ RowStepBeyond)
           /\ UNCHANGED <<alg, N, K, A, o, sh>>

(***************************************************************************)
(* Column algorithm (PT-TEMPO).  KK = backend dkmax (None -> num_steps).   *)
(***************************************************************************)
KK      == IF K = KNone THEN N ELSE K
NumInfl == Min2(N, KK + 1)

ColOf(m, j) == { <<j + i - 1, i - 1, c>> : <<i, c>> \in { <<ii, cc>> \in (1..Len(m)) \X (0..(2*MaxN+2)) : cc \in m[ii] } }

ColInit ==
    /\ n = 1
    /\ mpo = [ i \in 1..NumInfl |-> {i - 1} ]
    /\ reqs = [ i \in 1..NumInfl |-> ReqPlain(i - 1) ]
    /\ cover = ColOf(mpo, 1)

ColEnd ==                   \* end phase: drop the furthest influence
    /\ n + 1 > N - NumInfl + 1
    /\ mpo' = SubSeq(mpo, 1, Len(mpo) - 1)
    /\ UNCHANGED reqs

ColGrow ==                  \* grow phase: replace the furthest influence by the rectangle
    /\ n + 1 <= N - NumInfl + 1
    /\ IF A = ANone
       THEN UNCHANGED <<mpo, reqs>>
       ELSE /\ mpo' = SubSeq(mpo, 1, Len(mpo) - 1) \o << RectCells(n + 1) >>
            /\ reqs' = Append(reqs, ReqRect(n + 1))

ColStep == alg = "col" /\ n < N /\ n' = n + 1
           /\ (ColEnd \/ ColGrow)
           /\ cover' = cover \cup ColOf(mpo', n + 1)
           /\ UNCHANGED <<alg, N, K, A, o, sh>>

(***************************************************************************)
Init ==
    /\ alg \in AlgSet /\ N \in MinN..MaxN /\ K \in KSet /\ A \in ASet
    /\ o \in OSet /\ sh \in ShiftSet
    /\ (alg = "col" => N >= 2)
    /\ (K = KNone => A = ANone)         \* add_correlation_time without a cutoff has no effect; explored once
    /\ IF alg = "row" THEN RowInit ELSE ColInit

Next == RowStep \/ ColStep

Spec == Init /\ [][Next]_vars

(***************************************************************************)
(* Properties checked on the specification.                                *)
(***************************************************************************)
RestrictRows(S, m) == { t \in S : t[1] <= m }

RowMatchesDoc == alg = "row" => cover = DocCover(n)

\* after j columns: exactly the documented influences whose earlier point is <= j
ColMatchesDoc == alg = "col" => cover = { t \in DocCover(N) : t[1] - t[2] <= n }

\* a PT built for N steps restricted to its first m steps carries exactly the
\* influences of a PT built for m steps (C02: "first n steps of a longer PT")
ColPrefix == (alg = "col" /\ n = N) => \A m \in 1..N : RestrictRows(cover, m) = DocCover(m)

\* every lattice cell of the triangle below row m is covered exactly once per (r, c)
\* when memory is complete (no cutoff, or A = inf): the discretisation tiles the
\* double integral.
Tiles ==
    ((K = KNone \/ A = AInf) /\ alg = "row") =>
        \A r \in 1..n : \A c \in 0..(r-1) :
            Cardinality({ t \in cover : t[1] = r /\ t[3] = c }) = 1

\* cut-off memory never contains a cell beyond K + A
Bounded ==
    (K # KNone /\ A # AInf) =>
        \A t \in cover : t[3] <= K + (IF A = ANone THEN 0 ELSE A)

(***************************************************************************)
(* Expected observation for the exact probe: a d-level "clock" whose       *)
(* half-step propagators are cyclic shifts by sh[1], sh[2]; the matrix     *)
(* element that starts at (i0, j0) sits at (Pos(i0,r), Pos(j0,r)) at time  *)
(* point r.  The exponent of the element after m steps is                  *)
(*   - SUM_c ( w_c * CoefRe[c] + i w'_c * CoefIm[c] ).                      *)
(***************************************************************************)
D == Len(o)
\* sh is the sequence of cyclic shifts of the successive half-step propagators, extended periodically
\* (<<s1, s2>>: the same two half steps in every step; longer tuples: explicitly time-dependent systems)
Sh(h) == sh[((h - 1) % Len(sh)) + 1]
RECURSIVE SumShift(_)
SumShift(k) == IF k = 0 THEN 0 ELSE Sh(k) + SumShift(k - 1)
Pos(x, r) == (x + SumShift(2 * (r - 1) + 1)) % D
Om(i0, j0, r) == o[Pos(i0, r) + 1] - o[Pos(j0, r) + 1]
Op(i0, j0, r) == o[Pos(i0, r) + 1] + o[Pos(j0, r) + 1]

SumOver(S, f(_)) == FoldSet(LAMBDA t, acc : acc + f(t), 0, S)

CoefRe(i0, j0, m, c) ==
    SumOver({ t \in cover : t[1] <= m /\ t[3] = c },
           LAMBDA t : Om(i0, j0, t[1]) * Om(i0, j0, t[1] - t[2]))
CoefIm(i0, j0, m, c) ==
    SumOver({ t \in cover : t[1] <= m /\ t[3] = c },
           LAMBDA t : Om(i0, j0, t[1]) * Op(i0, j0, t[1] - t[2]))

MaxCell == IF cover = {} THEN 0 ELSE Max({ t[3] : t \in cover })

Expect ==
    [ m \in 1..N |->
        [ e \in 0..(D*D - 1) |->
            LET i0 == e \div D  j0 == e % D IN
            [ pos |-> ((i0 + SumShift(2 * m)) % D) * D + ((j0 + SumShift(2 * m)) % D),
              re  |-> [ c \in 0..MaxCell |-> CoefRe(i0, j0, m, c) ],
              im  |-> [ c \in 0..MaxCell |-> CoefIm(i0, j0, m, c) ] ] ] ]

CaseRecord ==
    [ alg |-> alg, N |-> N, K |-> K, A |-> A, o |-> o, sh |-> sh,
      maxcell |-> MaxCell,
      counts |-> [ m \in 1..N |-> [ c \in 0..MaxCell |->
                     Cardinality({ t \in cover : t[1] <= m /\ t[3] = c }) ] ],
      reqs |-> reqs,
      expect |-> Expect ]

EmitCase == (Emit /\ n = N) => PrintT("CASE " \o ToJson(CaseRecord))

=============================================================================
