----------------------------- MODULE MeanField -----------------------------
(***************************************************************************)
(* Mean-field evolution (C09): the coherent field is advanced with Heun's  *)
(* rule using the states and times at both ends of each step               *)
(*   rk1 = f(t_k, rho_k, a_k)                                              *)
(*   rk2 = f(t_k + dt, rho_{k+1}, a_k + dt rk1)                            *)
(*   a_{k+1} = a_k + dt (rk1 + rk2) / 2                                     *)
(* and the system propagators of step k use (a_k, f(t_k, rho_k, a_k)).     *)
(* (oqupy/tempo.py MeanFieldTempo._compute_field / _compute_field_derivative,*)
(*  oqupy/backends/tempo_backend.py MeanFieldTempoBackend.compute_step,    *)
(*  oqupy/system_dynamics.py compute_dynamics_with_field)                  *)
(*                                                                         *)
(* Exact arithmetic: every number is an integer multiple of 1/SC (dyadic   *)
(* fixed point), complex numbers are pairs.  The systems are clocks whose  *)
(* populations are permuted by one cyclic shift per step, so the           *)
(* observable p_k = sum_sys w_sys <n>_sys(k) entering f is exact.          *)
(*   f(t, p, a) = c0 + c1 t + c2 p + c3 a     (c3 complex)                 *)
(***************************************************************************)
EXTENDS Naturals, Integers, Sequences, FiniteSets, Json, TLC

CONSTANTS SC,        \* fixed-point scale (power of two)
          DtN,       \* dt = DtN / SC
          T0Set,     \* start times (scaled)
          NSteps,
          CoefSet,   \* set of <<c0, c1, c2, c3re, c3im>> (scaled)
          A0Set,     \* initial fields <<re, im>> (scaled)
          SysSet,    \* set of system lists; a system is <<dim, shift, pops>> with pops scaled, summing to SC
          Emit

VARIABLES t0, coef, a0, sys,     \* configuration
          k,                     \* steps done
          a,                     \* current field <<re, im>> (scaled)
          fields,                \* recorded fields
          calls,                 \* history of field-equation evaluations [stage, k, t, p, a]
          pc

vars == <<t0, coef, a0, sys, k, a, fields, calls, pc>>

\* exact division by a power of two (the parameters are chosen such that it is exact)
Half(x) == IF x % 2 = 0 THEN x \div 2 ELSE Assert(FALSE, <<"inexact halving", x>>)
MulSC(x, y) == IF (x * y) % SC = 0 THEN (x * y) \div SC ELSE Assert(FALSE, <<"inexact product", x, y>>)

Time(j) == t0 + j * DtN

\* population observable of the systems after j steps: sum over systems of sum_n n * pop[(n - shift*j) mod d]
SumTo(f(_), n) == LET RECURSIVE S(_) S(i) == IF i < 0 THEN 0 ELSE f(i) + S(i - 1) IN S(n)
PopOf(s, j, n) == s[3][((n - s[2] * j) % s[1]) + 1]
Obs1(s, j) == SumTo(LAMBDA n : n * PopOf(s, j, n), s[1] - 1)
Obs(j) == LET RECURSIVE S(_) S(i) == IF i = 0 THEN 0 ELSE i * Obs1(sys[i], j) + S(i - 1) IN S(Len(sys))

\* f(t, p, a), complex, scaled
F(t, p, z) ==
    << coef[1] + MulSC(coef[2], t) + MulSC(coef[3], p) + MulSC(coef[4], z[1]) - MulSC(coef[5], z[2]),
       MulSC(coef[4], z[2]) + MulSC(coef[5], z[1]) >>

Add(x, y) == << x[1] + y[1], x[2] + y[2] >>
Scale(x, c) == << MulSC(x[1], c), MulSC(x[2], c) >>       \* c real, scaled

Call(stage, j, t, p, z) == [stage |-> stage, k |-> j, t |-> t, p |-> p, a |-> z]

Init ==
    /\ t0 \in T0Set /\ coef \in CoefSet /\ a0 \in A0Set /\ sys \in SysSet
    /\ k = 0 /\ a = a0 /\ fields = << a0 >> /\ calls = << >> /\ pc = "deriv"

\* derivative used to linearise the field inside the step's propagators
Deriv ==
    /\ pc = "deriv" /\ k < NSteps
    /\ calls' = Append(calls, Call("deriv", k, Time(k), Obs(k), a))
    /\ pc' = "heun"
    /\ UNCHANGED <<t0, coef, a0, sys, k, a, fields>>

\* the systems have been advanced to step k+1; Heun step of the field
Heun ==
    /\ pc = "heun"
    /\ LET rk1 == F(Time(k), Obs(k), a)
           pred == Add(a, Scale(rk1, DtN))
           rk2 == F(Time(k) + DtN, Obs(k + 1), pred)
           sum == Add(rk1, rk2)
           next == Add(a, << Half(MulSC(sum[1], DtN)), Half(MulSC(sum[2], DtN)) >>)
       IN /\ a' = next
          /\ fields' = Append(fields, next)
          /\ calls' = calls \o << Call("rk1", k, Time(k), Obs(k), a),
                                  Call("rk2", k, Time(k) + DtN, Obs(k + 1), pred) >>
    /\ k' = k + 1
    /\ pc' = "deriv"
    /\ UNCHANGED <<t0, coef, a0, sys>>

Next == Deriv \/ Heun
Spec == Init /\ [][Next]_vars

(***************************************************************************)
(* Properties                                                              *)
(***************************************************************************)
\* Heun's rule is exact for equations of motion linear in time:
\*   a(t) = a0 + c0 (t - t0) + c1 (t^2 - t0^2) / 2
LinearInTime == coef[3] = 0 /\ coef[4] = 0 /\ coef[5] = 0
ExactForLinear ==
    (LinearInTime /\ pc = "deriv") =>
        LET tt == Time(k) IN
        /\ 2 * SC * (a[1] - a0[1]) = 2 * coef[1] * (tt - t0) + MulSC(MulSC(coef[2], tt - t0), tt + t0) * SC
        /\ a[2] = a0[2]

\* every evaluation uses the time and the observable of the same end of the step
CallsConsistent ==
    \A i \in 1..Len(calls) :
        LET c == calls[i] IN
        /\ c.stage \in {"deriv", "rk1"} => (c.t = Time(c.k) /\ c.p = Obs(c.k))
        /\ c.stage = "rk2" => (c.t = Time(c.k + 1) /\ c.p = Obs(c.k + 1))

CaseRecord == [ sc |-> SC, dt |-> DtN, t0 |-> t0, n |-> NSteps, coef |-> coef, a0 |-> a0, sys |-> sys,
                fields |-> fields, calls |-> calls,
                obs |-> [j \in 0..NSteps |-> Obs(j)] ]
EmitCase == (Emit /\ k = NSteps) => PrintT("CASE " \o ToJson(CaseRecord))
=============================================================================
