---------------------------- MODULE ObjectGraph ----------------------------
(***************************************************************************)
(* Shared objects, public-attribute updates, copies and memo tables (C20). *)
(*                                                                         *)
(* A correlations object `c` has a public parameter with a current         *)
(* version ver \in Versions (e.g. alpha = 0.1, 0.2, ..).  Every answer of  *)
(* an object reflects some version of the parameter; the observation       *)
(* recorded for an operation is that version.                              *)
(*   oqupy/bath_correlations.py  CustomSD.eta_function (memoised),         *)
(*       correlation_2d_integral, correlation, spectral_density, PowerLawSD*)
(*   oqupy/bath.py               Bath.__init__ (shallow copy), .correlations*)
(*   oqupy/tempo.py              Tempo / PtTempo reading bath.correlations *)
(* Strict meaning:                                                         *)
(*   Freshness  - every method of an object answers with the object's      *)
(*                current parameter;                                       *)
(*   Isolation  - an object built from another one earlier (a bath from a  *)
(*                correlations object) keeps the parameter it was built    *)
(*                with, in its attributes and in its answers;              *)
(*   Reuse      - using an object in a computation does not change any     *)
(*                later answer.                                            *)
(* Deviations (known findings):                                            *)
(*   "StaleEtaCache" - the 2D integrals are memoised per (object, args)    *)
(*                     regardless of the parameters: after an update the   *)
(*                     old value is returned for arguments used before;    *)
(*   "CopyClosure"   - the bath's copy reports the parameter it was built  *)
(*                     with but its spectral density closes over the       *)
(*                     original object: it answers with the original's     *)
(*                     current parameter.                                  *)
(* Deviation (must violate Isolation, not a finding):                      *)
(*   "HandsOutOwn"   - Bath.correlations hands out the bath's own object   *)
(*                     instead of a copy;                                  *)
(*   "SharedMemo"    - all copies of a correlations object share one memo  *)
(*                     table that ignores the parameters.                  *)
(***************************************************************************)
EXTENDS Naturals, Sequences, FiniteSets, Json, TLC

CONSTANTS Versions,   \* e.g. 1..2
          Args,       \* abstract argument tuples of the memoised function, e.g. 1..2
          MaxOps,
          UseKinds,   \* kinds of computations that may (re)use the shared system / bath / parameters /
                      \* process-tensor objects
          Devs,
          Ops,
          Emit

VARIABLES ver,        \* current parameter version of c
          memoC,      \* memo table of c:  lattice point -> version at memo time (0 = absent)
          bath,       \* 0 = not built, else the version c had when the bath was built
          memoB,      \* memo table of the bath's copy
          hist        \* sequence of [op, arg, obs]

vars == <<ver, memoC, bath, memoB, hist>>

Obs(op, arg, v) == [op |-> op, arg |-> arg, obs |-> v]
NOps == Len(hist)

Points == 0..10
Init == /\ ver = 1 /\ memoC = [a \in Points |-> 0] /\ bath = 0 /\ memoB = [a \in Args |-> 0] /\ hist = << >>

\* c.alpha = <new value>
SetParam(v) ==
    /\ NOps < MaxOps /\ v # ver
    /\ ver' = v
    /\ hist' = Append(hist, Obs("set", v, v))
    /\ UNCHANGED <<memoC, bath, memoB>>

\* c.correlation(tau) / c.spectral_density(w): never memoised
Corr ==
    /\ NOps < MaxOps
    /\ hist' = Append(hist, Obs("corr", 0, ver))
    /\ UNCHANGED <<ver, memoC, bath, memoB>>

\* c.correlation_2d_integral(square at separation a) = eta(a+1) - 2 eta(a) + eta(a-1): the memo table
\* sits on eta_function, i.e. on the lattice *points* a-1, a, a+1 (shared between neighbouring
\* arguments).  Observation: the parameter version the value reflects, 0 if it mixes versions.
Used(p) == IF "StaleEtaCache" \in Devs /\ memoC[p] # 0 THEN memoC[p] ELSE ver
Eta(a) ==
    /\ NOps < MaxOps
    /\ LET P == {a - 1, a, a + 1} \ {0}                 \* eta(0) = 0 whatever the parameters
           v == IF \A x, y \in P : Used(x) = Used(y) THEN Used(a) ELSE 0 IN
       hist' = Append(hist, Obs("eta", a, v))
    /\ memoC' = [p \in DOMAIN memoC |-> IF p \in {a - 1, a, a + 1} THEN Used(p) ELSE memoC[p]]
    /\ UNCHANGED <<ver, bath, memoB>>

\* b = Bath(op, c)
\* (a bath may be built again later, e.g. at every point of a parameter sweep: the new one replaces the old)
BuildBath ==
    /\ NOps < MaxOps /\ (bath = 0 \/ bath # ver)
    /\ bath' = IF "SharedMemo" \in Devs /\ bath # 0 THEN bath ELSE ver     \* SharedMemo: the copies share one memo, the first
                                                                         \* bath's values answer for every later bath

    /\ memoB' = [a \in Args |-> 0]        \* the copy is a new object for the memo table
    /\ hist' = Append(hist, Obs("bath", 0, ver))
    /\ UNCHANGED <<ver, memoC>>

\* b.correlations.alpha
BathAttr ==
    /\ NOps < MaxOps /\ bath # 0
    /\ hist' = Append(hist, Obs("battr", 0, bath))
    /\ UNCHANGED <<ver, memoC, bath, memoB>>

\* x = b.correlations; x.alpha = <new value>: the object handed out by the bath is the caller's to change - the bath
\* (and every computation prepared from it) keeps the parameter it was built with
SetViaBath(v) ==
    /\ NOps < MaxOps /\ bath # 0 /\ v # bath
    /\ bath' = IF "HandsOutOwn" \in Devs THEN v ELSE bath
    /\ hist' = Append(hist, Obs("setb", v, v))
    /\ UNCHANGED <<ver, memoC, memoB>>

\* the parameter the bath's copy computes with
BathParam == IF "CopyClosure" \in Devs THEN ver ELSE bath

\* b.correlations.correlation(tau)
BathCorr ==
    /\ NOps < MaxOps /\ bath # 0
    /\ hist' = Append(hist, Obs("bcorr", 0, BathParam))
    /\ UNCHANGED <<ver, memoC, bath, memoB>>

\* a computation using the bath (Tempo / PtTempo): reads the 2D integrals through a fresh copy
\* (Bath.correlations returns copy(self._correlations)): memoised per copy, so the computation
\* reflects the parameter the copy computes with at that moment
Compute ==
    /\ NOps < MaxOps /\ bath # 0
    /\ hist' = Append(hist, Obs("compute", 0, BathParam))
    /\ UNCHANGED <<ver, memoC, bath, memoB>>

\* a computation of kind k (re)using the shared objects: its result is that of freshly built equal
\* objects (observation 0 = "fresh"), whatever happened before
Use(k) ==
    /\ NOps < MaxOps
    /\ hist' = Append(hist, Obs("use", k, 0))
    /\ UNCHANGED <<ver, memoC, bath, memoB>>
NextUse == \E k \in UseKinds : Use(k)

\* Ops: the operations enabled in a configuration (all of them, or e.g. {"set", "bath", "compute"} for long parameter sweeps)
Next == \/ ("set" \in Ops /\ \E v \in Versions : SetParam(v))
        \/ ("setb" \in Ops /\ \E v \in Versions : SetViaBath(v))
        \/ ("corr" \in Ops /\ Corr)
        \/ ("eta" \in Ops /\ \E a \in Args : Eta(a))
        \/ ("bath" \in Ops /\ BuildBath)
        \/ ("battr" \in Ops /\ BathAttr)
        \/ ("bcorr" \in Ops /\ BathCorr)
        \/ ("compute" \in Ops /\ Compute)
Spec == Init /\ [][Next]_vars

(***************************************************************************)
(* Properties (on the history)                                             *)
(***************************************************************************)
\* version of c in force when operation i was performed
VerAt(i) == LET S == { j \in 1..i : hist[j].op = "set" } IN
            IF S = {} THEN 1 ELSE hist[CHOOSE j \in S : \A l \in S : l <= j].obs
\* version the bath in force at operation i was built with (the latest "bath" operation before i)
BathVerAt(i) == LET S == { j \in 1..i : hist[j].op = "bath" } IN
                IF S = {} THEN 0 ELSE hist[CHOOSE j \in S : \A l2 \in S : l2 <= j].obs

Freshness == \A i \in 1..Len(hist) : hist[i].op \in {"corr", "eta"} => hist[i].obs = VerAt(i)
Isolation == \A i \in 1..Len(hist) : hist[i].op \in {"battr", "bcorr", "compute"} => hist[i].obs = BathVerAt(i)

ReuseFresh == \A i \in 1..Len(hist) : hist[i].op = "use" => hist[i].obs = 0

Finished == NOps = MaxOps
CaseRecord == [ hist |-> hist ]
EmitCase == (Emit /\ Finished) => PrintT("CASE " \o ToJson(CaseRecord))
=============================================================================
