---------------------------- MODULE PTContract ----------------------------
(***************************************************************************)
(* Reference semantics of "system + finite ancilla environments" as exact  *)
(* monomial (permutation x root-of-unity phase) dynamics, stepped exactly  *)
(* like oqupy/system_dynamics.py compute_dynamics / compute_correlations / *)
(* gradient.py forward pass:                                               *)
(*   for step r: pre control, record, post control, first half-step        *)
(*   propagator, process-tensor MPOs in list order, second half-step       *)
(*   propagator;  finally pre control of step N and the last record.       *)
(*                                                                         *)
(* A density matrix is tracked term by term: the matrix unit |s><s'| of    *)
(* the initial system state evolves to                                     *)
(*     coefficient * |k><b|,   k = <<t, a_1..a_E>>, b = <<t', a'_1..>>     *)
(* (system level and ancilla levels on the ket and on the bra side), with  *)
(* coefficient  omega^ph * product(factors),  omega = exp(2 pi i / M).     *)
(* The reduced system state is the sum over terms whose ancilla parts      *)
(* agree.  Everything is integer arithmetic, so TLC computes the exact     *)
(* expected observation after every step.                                  *)
(***************************************************************************)
EXTENDS Naturals, Integers, Sequences, FiniteSets, Json, TLC

CONSTANTS D,          \* system dimension
          EDims,      \* sequence of ancilla dimensions (one per environment), <<>> = no environment
          A0,         \* sequence of initial ancilla levels
          N,          \* number of steps
          M,          \* phases are M-th roots of unity
          SysGates,   \* set of system gates <<shift, phaseTableId>> available for half steps
          EnvGates,   \* set of environment gate names available per step
          Controls,   \* set of control schedules; a schedule is a set of entries
                      \*   <<step, post?, ctlId, insertion index, kind>>, kind "int" (time given as step),
                      \*   "f-" / "f+" (time given as a float a little before / after the step's time)
          Dephase,    \* TRUE: every half step also applies pure dephasing exp(-g (z_k - z_b)^2), z_t = t,
                      \*  recorded as a symbolic factor <<"d", (z_k - z_b)^2>> (parameter-dependent Lindblad term)
          FixedPlan,  \* << >>: gates are chosen freely from the alphabets; otherwise the exact plan to follow
          Devs,       \* enabled deviations (known findings), {} = strict specification
          Emit

\* phase tables for diagonal system gates: PhaseTab[id][t+1]
PhaseTab == << <<0, 0, 0, 0>>, <<0, 1, 2, 3>>, <<0, 3, 1, 2>> >>

\* control operations (superoperators on the system), by id:
\*   1 identity, 2 unitary kick: shift by 1 and phase table 2, scaled by the prime of its step,
\*   3 projector onto level 0, 4 left multiplication by a diagonal operator ("A"),
\*   5 kick by shift 1 without scale, 6 left multiplication by "B",
\*   7 / 8 right multiplication by "A" / "B" (operator insertions of multi-time correlations)
CtlIds == 1..9

E == Len(EDims)

VARIABLES pc,        \* <<r, phase>> position in the step loop
          terms,     \* [ <<s, s'>> -> term ]
          ctl,       \* the chosen control schedule
          recs,      \* recorded observations (reduced states as term lists)
          plan       \* gates actually applied, in order (history for the replay)

vars == <<pc, terms, ctl, recs, plan>>

Pairs == (0..(D-1)) \X (0..(D-1))
Dead == [alive |-> FALSE, k |-> <<>>, b |-> <<>>, ph |-> 0, f |-> <<>>, tr |-> <<>>]

\* ---- gates on one side (ket or bra): return <<new side state, phase increment>> ----
SysGate(q, g) ==         \* diagonal phase first, then cyclic shift
    << [q EXCEPT ![1] = (q[1] + g[1]) % D], PhaseTab[g[2]][q[1] + 1] >>

EnvGate(q, e, name) ==   \* acts on system level q[1] and ancilla level q[e+1]
    LET t == q[1]  a == q[e + 1]  ed == EDims[e] IN
    CASE name = "I"  -> << q, 0 >>
      [] name = "CS" -> << [q EXCEPT ![e + 1] = (a + t) % ed], 0 >>          \* system-controlled shift of the ancilla
      [] name = "CP" -> << q, t * a >>                                          \* controlled phase
      [] name = "SC" -> << [q EXCEPT ![1] = (t + a) % D], 0 >>                \* ancilla-controlled shift of the system
      [] name = "SW" -> << [q EXCEPT ![1] = a % D, ![e + 1] = t % ed], 0 >>   \* swap (needs ed = D)
      [] name = "CSP" -> << [q EXCEPT ![e + 1] = (a + t) % ed], t * a + a >>  \* shift and phase
      [] name = "SX" -> << [q EXCEPT ![1] = (t + 1) % D], t >>                \* acts on the system alone (the environment
                                                                                \* decouples in this step; with ed = 1 a
                                                                                \* memoryless environment: unit bonds)

SystemDiagonal(name) == name \in {"I", "CS", "CP", "CSP"}

ApplyBoth(tm, gk(_), gb(_)) ==    \* unitary: same gate on ket and bra, bra phase conjugated
    IF ~tm.alive THEN tm
    ELSE LET rk == gk(tm.k)  rb == gb(tm.b) IN
         [tm EXCEPT !.k = rk[1], !.b = rb[1], !.ph = (tm.ph + rk[2] - rb[2]) % M]

\* a half-step propagator; the term remembers the system levels <<ket, bra>> it had when the gate
\* acted (tr): the derivative of the gate with respect to a phase or dephasing parameter multiplies
\* the term by a function of exactly these levels (C08)
ApplySys(g) ==
    [p \in Pairs |->
        LET tm == terms[p] IN
        IF ~tm.alive THEN tm
        ELSE LET x == ApplyBoth(tm, LAMBDA q : SysGate(q, g), LAMBDA q : SysGate(q, g))
                 dz == (tm.k[1] - tm.b[1]) * (tm.k[1] - tm.b[1])
             IN [x EXCEPT !.tr = Append(tm.tr, <<tm.k[1], tm.b[1]>>),
                          !.f = IF Dephase /\ dz # 0 THEN Append(tm.f, <<"d", dz>>) ELSE tm.f]]
ApplyEnv(e, nm)  == [p \in Pairs |-> ApplyBoth(terms[p], LAMBDA q : EnvGate(q, e, nm), LAMBDA q : EnvGate(q, e, nm))]

Prime(r) == << 2, 3, 5, 7, 11, 13, 17, 19 >>[r + 1]

ApplyCtl(tms, r, id) ==
    [p \in Pairs |->
        LET tm == tms[p] IN
        IF ~tm.alive THEN tm
        ELSE CASE id = 1 -> tm
               [] id = 2 -> LET x == ApplyBoth(tm, LAMBDA q : SysGate(q, <<1, 2>>), LAMBDA q : SysGate(q, <<1, 2>>))
                            IN [x EXCEPT !.f = Append(tm.f, <<"p", Prime(r)>>)]
               [] id = 3 -> IF tm.k[1] = 0 /\ tm.b[1] = 0 THEN tm ELSE Dead
               [] id = 4 -> [tm EXCEPT !.f = Append(tm.f, <<"A", tm.k[1]>>)]
               [] id = 5 -> ApplyBoth(tm, LAMBDA q : SysGate(q, <<1, 1>>), LAMBDA q : SysGate(q, <<1, 1>>))
               [] id = 6 -> [tm EXCEPT !.f = Append(tm.f, <<"B", tm.k[1]>>)]      \* left multiplication by B
               [] id = 7 -> [tm EXCEPT !.f = Append(tm.f, <<"A", tm.b[1]>>)]      \* right multiplication by A
               [] id = 8 -> [tm EXCEPT !.f = Append(tm.f, <<"B", tm.b[1]>>)]      \* right multiplication by B
               \* left multiplication by the non-diagonal monomial operator K = Shift(1) . diag(B)
               [] id = 9 -> [tm EXCEPT !.k[1] = (tm.k[1] + 1) % D, !.f = Append(tm.f, <<"B", tm.k[1]>>)]]

\* controls of step r on one side of the measurement.  Strict meaning: insertion order.
\* Deviation "MixedTimeSpecOrder" (oqupy/control.py get_controls): pre-measurement controls
\* given by float time act before those given by step, post-measurement ones after; float
\* times are ordered by time.
KindRank(c) == IF c[5] = "int" THEN (IF c[2] THEN 0 ELSE 2) ELSE 1
TimeRank(c) == IF c[5] = "f-" THEN 0 ELSE 1
Before(x, y) ==
    IF "MixedTimeSpecOrder" \in Devs
    THEN \/ KindRank(x) < KindRank(y)
         \/ KindRank(x) = KindRank(y) /\ x[5] # "int" /\ TimeRank(x) < TimeRank(y)
         \/ KindRank(x) = KindRank(y) /\ (x[5] = "int" \/ TimeRank(x) = TimeRank(y)) /\ x[4] <= y[4]
    ELSE x[4] <= y[4]
CtlSeq(r, post) ==
    LET S == { c \in ctl : c[1] = r /\ c[2] = post } IN
    LET RECURSIVE Ord(_)
        Ord(T) == IF T = {} THEN <<>>
                  ELSE LET m == CHOOSE x \in T : \A y \in T : Before(x, y) IN <<m>> \o Ord(T \ {m})
    IN Ord(S)

RECURSIVE ApplyCtlSeq(_, _, _)
ApplyCtlSeq(tms, r, cs) == IF cs = <<>> THEN tms ELSE ApplyCtlSeq(ApplyCtl(tms, r, Head(cs)[3]), r, Tail(cs))

\* reduced system state: terms whose ancilla parts agree
Reduced(tms) ==
    LET S == { p \in Pairs : tms[p].alive /\ Tail(tms[p].k) = Tail(tms[p].b) } IN
    LET RECURSIVE L(_)
        L(T) == IF T = {} THEN <<>>
                ELSE LET p == CHOOSE x \in T : TRUE IN
                     << [s |-> p[1], sp |-> p[2], kt |-> tms[p].k[1], bt |-> tms[p].b[1],
                         ph |-> tms[p].ph, f |-> tms[p].f, tr |-> tms[p].tr] >> \o L(T \ {p})
    IN L(S)

Init ==
    /\ pc = <<0, "pre">>
    /\ terms = [p \in Pairs |-> [alive |-> TRUE, k |-> <<p[1]>> \o A0, b |-> <<p[2]>> \o A0, ph |-> 0, f |-> <<>>, tr |-> <<>>]]
    /\ ctl \in Controls
    /\ recs = <<>>
    /\ plan = <<>>

Pre ==
    /\ pc[2] = "pre"
    /\ terms' = ApplyCtlSeq(terms, pc[1], CtlSeq(pc[1], FALSE))
    /\ pc' = <<pc[1], "rec">>
    /\ UNCHANGED <<ctl, recs, plan>>

Rec ==
    /\ pc[2] = "rec"
    /\ recs' = Append(recs, Reduced(terms))
    /\ pc' = IF pc[1] = N THEN <<N, "done">> ELSE <<pc[1], "post">>
    /\ UNCHANGED <<terms, ctl, plan>>

Post ==
    /\ pc[2] = "post"
    /\ terms' = ApplyCtlSeq(terms, pc[1], CtlSeq(pc[1], TRUE))
    /\ pc' = <<pc[1], "h1">>
    /\ UNCHANGED <<ctl, recs, plan>>

Half(which, nextphase) ==
    /\ pc[2] = which
    /\ \E g \in SysGates :
        /\ (IF FixedPlan = << >> THEN TRUE ELSE FixedPlan[Len(plan) + 1] = <<which, pc[1], g>>)
        /\ terms' = ApplySys(g)
        /\ plan' = Append(plan, <<which, pc[1], g>>)
    /\ pc' = nextphase
    /\ UNCHANGED <<ctl, recs>>

H1 == Half("h1", IF E = 0 THEN <<pc[1], "h2">> ELSE <<pc[1], "env", 1>>)
H2 == Half("h2", <<pc[1] + 1, "pre">>)

Env ==
    /\ pc[2] = "env"
    /\ LET e == pc[3] IN
       /\ \E nm \in EnvGates :
            /\ (nm = "SW" => EDims[e] = D)
            /\ (IF FixedPlan = << >> THEN TRUE ELSE FixedPlan[Len(plan) + 1] = <<"env", pc[1], e, nm>>)
            /\ terms' = ApplyEnv(e, nm)
            /\ plan' = Append(plan, <<"env", pc[1], e, nm>>)
       /\ pc' = IF e = E THEN <<pc[1], "h2">> ELSE <<pc[1], "env", e + 1>>
    /\ UNCHANGED <<ctl, recs>>

Next == Pre \/ Rec \/ Post \/ H1 \/ Env \/ H2
Spec == Init /\ [][Next]_vars

(***************************************************************************)
(* Properties of the reference semantics itself.                           *)
(***************************************************************************)
\* the evolution is a bijection on (ket, bra) configurations as long as no projector acted:
\* distinct initial matrix units never collide
Injective ==
    \A p, q \in Pairs : (p # q /\ terms[p].alive /\ terms[q].alive) =>
        <<terms[p].k, terms[p].b>> # <<terms[q].k, terms[q].b>>

\* diagonal terms (s = s') stay diagonal in the joint space with zero phase: populations are
\* permuted (trace preservation and positivity of the monomial dynamics)
DiagonalStaysDiagonal ==
    \A s \in 0..(D-1) : terms[<<s, s>>].alive =>
        (terms[<<s, s>>].k = terms[<<s, s>>].b /\ terms[<<s, s>>].ph = 0)

\* hermiticity: the term of (s', s) is the mirror image of the term of (s, s')
Hermitian ==
    (\A c \in ctl : c[3] \notin {4, 6, 7, 8, 9}) => \A p \in Pairs : LET q == <<p[2], p[1]>> IN
        (terms[p].alive /\ terms[q].alive) =>
            (terms[p].k = terms[q].b /\ terms[p].b = terms[q].k /\ (terms[p].ph + terms[q].ph) % M = 0)

CaseRecord == [ d |-> D, edims |-> EDims, a0 |-> A0, n |-> N, m |-> M, ctl |-> ctl,
                plan |-> plan, recs |-> recs ]
EmitCase == (Emit /\ pc[2] = "done") => PrintT("CASE " \o ToJson(CaseRecord))
=============================================================================
