--------------------------- MODULE InfluenceCover ---------------------------
(***************************************************************************)
(* Unbounded counterparts of facts TLC checks on Influence.tla for N <= 8:  *)
(* with the definitions of the documented cover (Width, Cells) copied from  *)
(* Influence.tla,                                                           *)
(*  - with add_correlation_time = infinity the memory cut-off loses          *)
(*    nothing: at every time point r the cells of the influences            *)
(*    dk = 0..min(r-1, K) are exactly the separations 0..r-1, each once;     *)
(*  - without additional time exactly the separations 0..min(r-1, K) are     *)
(*    kept;                                                                  *)
(*  - with a finite additional time A the furthest influence carries         *)
(*    min(r-K, 1+A) cells and nothing beyond separation K + A is kept.        *)
(* for EVERY r >= 1, K >= 1, A >= 0.  Checked by tlapm (SMT back end).       *)
(***************************************************************************)
EXTENDS Naturals, Integers, TLAPS

CONSTANTS K, A, Mode         \* Mode: "none" | "finite" | "inf"
ASSUME Assump == K \in Nat /\ K >= 1 /\ A \in Nat /\ Mode \in {"none", "finite", "inf"}

Min2(a, b) == IF a <= b THEN a ELSE b
Width(r) == IF Mode = "none" THEN 1 ELSE IF Mode = "inf" THEN r - K ELSE Min2(r - K, 1 + A)
Cells(r, dk) == IF dk = K /\ r > K THEN K .. (K + Width(r) - 1) ELSE {dk}
Kept(r) == UNION { Cells(r, dk) : dk \in 0..Min2(r - 1, K) }

THEOREM InfiniteAdditionalTimeLosesNothing ==
    ASSUME NEW r \in Nat, r >= 1, Mode = "inf"
    PROVE Kept(r) = 0..(r - 1)
<1>1. CASE r <= K
  <2>1. Min2(r - 1, K) = r - 1 BY <1>1, Assump DEF Min2
  <2>2. \A dk \in 0..(r - 1) : Cells(r, dk) = {dk} BY <1>1, Assump DEF Cells
  <2> QED BY <2>1, <2>2 DEF Kept
<1>2. CASE r > K
  <2>1. Min2(r - 1, K) = K BY <1>2, Assump DEF Min2
  <2>2. Cells(r, K) = K..(r - 1) BY <1>2, Assump DEF Cells, Width
  <2>3. \A dk \in 0..(K - 1) : Cells(r, dk) = {dk} BY <1>2, Assump DEF Cells
  <2>4. Kept(r) = UNION { Cells(r, dk) : dk \in 0..K } BY <2>1 DEF Kept
  <2>5. \A x : x \in Kept(r) <=> \E dk \in 0..K : x \in Cells(r, dk) BY <2>4
  <2>6. \A x \in 0..(r - 1) : x \in Kept(r)
    <3> TAKE x \in 0..(r - 1)
    <3>1. CASE x < K
      <4>1. x \in 0..(K - 1) BY <3>1, Assump
      <4>2. x \in Cells(r, x) BY <4>1, <2>3
      <4> QED BY <4>1, <4>2, <2>5, Assump
    <3>2. CASE x >= K
      <4>1. x \in Cells(r, K) BY <3>2, <2>2, Assump
      <4> QED BY <4>1, <2>5, Assump
    <3> QED BY <3>1, <3>2, Assump
  <2>7. \A x \in Kept(r) : x \in 0..(r - 1)
    <3> TAKE x \in Kept(r)
    <3>1. PICK dk \in 0..K : x \in Cells(r, dk) BY <2>5
    <3>2. CASE dk = K BY <3>1, <3>2, <2>2, <1>2, Assump
    <3>3. CASE dk # K
      <4>1. dk \in 0..(K - 1) BY <3>3, Assump
      <4>2. x = dk BY <4>1, <3>1, <2>3
      <4> QED BY <4>1, <4>2, <1>2, Assump
    <3> QED BY <3>2, <3>3
  <2> QED BY <2>6, <2>7
<1> QED BY <1>1, <1>2, Assump

THEOREM NoAdditionalTimeKeepsTheCutoff ==
    ASSUME NEW r \in Nat, r >= 1, Mode = "none"
    PROVE Kept(r) = 0..Min2(r - 1, K)
<1>1. \A dk \in 0..Min2(r - 1, K) : Cells(r, dk) = {dk} BY Assump DEF Cells, Width, Min2
<1> QED BY <1>1 DEF Kept

THEOREM FiniteAdditionalTimeIsBounded ==
    ASSUME NEW r \in Nat, r >= 1, Mode = "finite"
    PROVE \A x \in Kept(r) : x \in Nat /\ x <= K + A /\ x <= r - 1
<1> TAKE x \in Kept(r)
<1>1. PICK dk \in 0..Min2(r - 1, K) : x \in Cells(r, dk) BY DEF Kept
<1>2. CASE dk = K /\ r > K
  <2>1. Cells(r, dk) = K..(K + Min2(r - K, 1 + A) - 1) BY <1>2, Assump DEF Cells, Width
  <2> QED BY <2>1, <1>1, <1>2, Assump DEF Min2
<1>3. CASE ~(dk = K /\ r > K)
  <2>1. x = dk BY <1>1, <1>3 DEF Cells
  <2> QED BY <2>1, <1>3, Assump DEF Min2
<1> QED BY <1>2, <1>3
=============================================================================
