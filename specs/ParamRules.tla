----------------------------- MODULE ParamRules -----------------------------
(***************************************************************************)
(* Parameter objects and labels (oqupy/tempo.py TempoParameters,           *)
(* GibbsParameters; oqupy/pt_tebd.py PtTebdParameters; oqupy/base_api.py    *)
(* BaseAPIClass).                                                           *)
(*                                                                         *)
(* Part A - constructor rules.  Every argument is drawn from abstract       *)
(* value classes; the specification states which combinations are           *)
(* accepted and what the accepted object reports (the memory cut-off in     *)
(* both of its forms: tcut = dkmax * dt, dkmax = round(tcut / dt)).          *)
(*                                                                         *)
(* Part B - attribute histories.  PtTebdParameters has settable and         *)
(* deletable attributes, every API object a settable / deletable name and   *)
(* description.  After any history of set / delete operations the object    *)
(* reports, for every attribute, the last value that was accepted, or the   *)
(* default if a delete came later; a rejected set changes nothing           *)
(* (RejectedSetKeeps), attributes are independent (Independent).            *)
(*                                                                         *)
(* Values are small integers standing for numbers in units the harness      *)
(* chooses (time in tenths), 98 for None, 97 for a non-numeric object.      *)
(***************************************************************************)
EXTENDS Naturals, Integers, Sequences, FiniteSets, TLC, Json

CONSTANTS MaxOps, Emit

None == 98
Junk == 97
IsNum(v) == v # None /\ v # Junk

\* ------------------------------------------------------------------ part A
DtVals == {1, 2, 3, 0, -1, Junk}          \* tenths
EpsVals == {1, 0, -1}                     \* 1 stands for a small positive tolerance
TcutVals == {None, 0, 4, 8, -1, Junk}     \* tenths (no quotient tcut / dt is a tie)
DkVals == {None, 0, 3, -1}
AddVals == {None, 0, 2, -1, Junk}         \* tenths
SubVals == {None, 0, 5, -1}

TempoArgs == [dt : DtVals, epsrel : EpsVals, tcut : TcutVals, dkmax : DkVals, addt : AddVals, subdiv : SubVals]

RoundDiv(a, b) == (2 * a + b) \div (2 * b)        \* round(a / b), a >= 0, b > 0; ties do not occur in the chosen values

TempoAccepted(a) ==
    /\ IsNum(a.dt) /\ a.dt > 0
    /\ a.epsrel > 0
    /\ ~(a.tcut # None /\ a.dkmax # None)
    /\ (a.dkmax # None => a.dkmax >= 0)
    /\ (a.tcut # None => (IsNum(a.tcut) /\ a.tcut >= 0))
    /\ (a.addt # None => (IsNum(a.addt) /\ a.addt >= 0))
    /\ (a.subdiv # None => a.subdiv >= 0)

\* what an accepted object reports: dkmax (steps) and tcut (tenths), None for no cut-off
TempoReports(a) ==
    [dkmax |-> IF a.dkmax # None THEN a.dkmax ELSE IF a.tcut # None THEN RoundDiv(a.tcut, a.dt) ELSE None,
     tcut |-> IF a.dkmax # None THEN a.dkmax * a.dt ELSE a.tcut,
     addt |-> a.addt, subdiv |-> a.subdiv, dt |-> a.dt]

GibbsArgs == [n : {2, 5, 1, 0, -3, Junk}, epsrel : EpsVals]
GibbsAccepted(a) == IsNum(a.n) /\ a.n > 1 /\ a.epsrel > 0

\* the two forms of the memory cut-off agree with each other on every accepted object
CutoffConsistent == \A a \in TempoArgs : (TempoAccepted(a) /\ TempoReports(a).dkmax # None /\ a.dkmax # None) =>
                        TempoReports(a).tcut = TempoReports(a).dkmax * a.dt
\* a cut-off given as a time is never shorter than the steps it is rounded to by more than half a step
CutoffRounded == \A a \in TempoArgs : (TempoAccepted(a) /\ a.tcut # None) =>
                        LET k == TempoReports(a).dkmax IN 2 * k * a.dt - a.dt <= 2 * a.tcut /\ 2 * a.tcut <= 2 * k * a.dt + a.dt

\* ------------------------------------------------------------------ part B
Attrs == {"dt", "order", "epsrel", "name", "description"}
Deletable == {"order", "epsrel", "name", "description"}
Default(at) == CASE at = "order" -> 2 [] at = "epsrel" -> 1 [] at = "name" -> 50 [] at = "description" -> 51 [] OTHER -> 0
\* candidate values: numbers for the numeric attributes, 60/61 two texts, None, Junk
SetVals(at) == IF at \in {"name", "description"} THEN {60, 61, None, Junk}
               ELSE IF at = "order" THEN {1, 3, 0, -1} ELSE {2, 3, 0, -1, Junk}
ValidSet(at, v) == IF at \in {"name", "description"} THEN v \in {60, 61, None}
                   ELSE IsNum(v) /\ v > 0
Stored(at, v) == IF at \in {"name", "description"} /\ v = None THEN Default(at) ELSE v

VARIABLES obj, hist
vars == <<obj, hist>>

Init == obj = [at \in Attrs |-> IF at = "dt" THEN 2 ELSE Default(at)] /\ hist = <<>>

Set(at, v) ==
    /\ obj' = IF ValidSet(at, v) THEN [obj EXCEPT ![at] = Stored(at, v)] ELSE obj
    /\ hist' = Append(hist, [op |-> "set", at |-> at, v |-> v, ok |-> ValidSet(at, v),
                             after |-> IF ValidSet(at, v) THEN [obj EXCEPT ![at] = Stored(at, v)] ELSE obj])
Del(at) ==
    /\ obj' = IF at \in Deletable THEN [obj EXCEPT ![at] = Default(at)] ELSE obj
    /\ hist' = Append(hist, [op |-> "del", at |-> at, v |-> 0, ok |-> at \in Deletable,
                             after |-> IF at \in Deletable THEN [obj EXCEPT ![at] = Default(at)] ELSE obj])

Done == Len(hist) >= MaxOps
DoPrint == Emit => PrintT("CASE " \o ToJson([hist |-> hist]))
Next == \/ (~Done /\ \E at \in Attrs : (Del(at) \/ \E v \in SetVals(at) : Set(at, v)))
        \/ (Done /\ DoPrint /\ UNCHANGED vars)
Spec == Init /\ [][Next]_vars

RejectedSetKeeps == [][(Len(hist') > Len(hist) /\ ~hist'[Len(hist')].ok) => obj' = obj]_vars
Independent == [][\A at \in Attrs : (Len(hist') > Len(hist) /\ hist'[Len(hist')].at # at) => obj'[at] = obj[at]]_vars
AlwaysValid == \A at \in Attrs : (at \in {"name", "description"} /\ obj[at] \in {50, 51, 60, 61}) \/ (at \notin {"name", "description"} /\ obj[at] > 0)

\* ------------------------------------------------------------------ emission of part A
TableOut == (Emit /\ Len(hist) = 0) => PrintT("CASE " \o ToJson([tempo |-> {[args |-> a, accepted |-> TempoAccepted(a),
                                                        reports |-> IF TempoAccepted(a) THEN TempoReports(a) ELSE [dkmax |-> 0, tcut |-> 0, addt |-> 0, subdiv |-> 0, dt |-> 0]] : a \in TempoArgs},
                                              gibbs |-> {[args |-> a, accepted |-> GibbsAccepted(a)] : a \in GibbsArgs}]))
=============================================================================
