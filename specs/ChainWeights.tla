---------------------------- MODULE ChainWeights ----------------------------
(***************************************************************************)
(* Unbounded counterpart of two invariants TLC checks on ChainBuild.tla for *)
(* chain lengths 2..6: for EVERY chain length L >= 2 every site term        *)
(* enters the bond Liouvillians with total weight one (two halves), and     *)
(* every bond is evolved for one full time step by either Trotter order.    *)
(* The definitions are those of ChainBuild.tla with Dev = "none".           *)
(* Checked by the TLA+ proof system (tlapm, SMT back end).                  *)
(***************************************************************************)
EXTENDS Naturals, Integers, TLAPS

CONSTANT L
ASSUME LAssump == L \in Nat /\ L >= 2

Bonds == 1..(L - 1)
WL(b) == IF b = 1 THEN 2 ELSE 1
WR(b) == IF b = L - 1 THEN 2 ELSE 1
TotalWeight(s) == (IF s \in Bonds THEN WL(s) ELSE 0) + (IF s - 1 \in Bonds THEN WR(s - 1) ELSE 0)

THEOREM WeightsCompleteForAllLengths == \A s \in 1..L : TotalWeight(s) = 2
  BY LAssump DEF TotalWeight, WL, WR, Bonds

\* durations in halves of the time step: order 1 = even(2), odd(2); order 2 = even(1), odd(1), odd(1), even(1)
IsEven(b) == (b - 1) % 2 = 0
Dur1(b) == (IF IsEven(b) THEN 2 ELSE 0) + (IF ~IsEven(b) THEN 2 ELSE 0)
Dur2(b) == (IF IsEven(b) THEN 1 ELSE 0) + (IF ~IsEven(b) THEN 1 ELSE 0) + (IF ~IsEven(b) THEN 1 ELSE 0) + (IF IsEven(b) THEN 1 ELSE 0)

THEOREM TimeCompleteForAllLengths == \A b \in Bonds : Dur1(b) = 2 /\ Dur2(b) = 2
  BY DEF Dur1, Dur2, IsEven, Bonds
=============================================================================
