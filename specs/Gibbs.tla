------------------------------- MODULE Gibbs -------------------------------
(***************************************************************************)
(* Imaginary-time propagation of GibbsTempo (oqupy/tempo.py GibbsTempo,    *)
(* oqupy/backends/tempo_backend.py TIBaseBackend) in exact arithmetic      *)
(* (C11).                                                                  *)
(*                                                                         *)
(* (a) Zero coupling: with a Hermitian positive Gaussian-integer matrix P  *)
(*     as half-slice propagator exp(-H dbeta/2), the unnormalised state    *)
(*     after k slices is P^(2k); the Gibbs state is P^(2n)/Tr.             *)
(* (b) Commuting model with a lattice (probe) bath: the population of      *)
(*     level i after n slices is exp(-n dbeta E_i - o_i^2 SUM_c cnt[c] w_c) *)
(*     with cnt[c] = number of slice pairs at separation c = n - c.        *)
(* One action per imaginary-time slice.                                    *)
(***************************************************************************)
EXTENDS Naturals, Integers, Sequences, FiniteSets, Json, TLC

CONSTANTS PSet,      \* set of matrices; a matrix is a tuple of rows of <<re, im>>
          NSet,      \* numbers of slices
          Emit

VARIABLES p, n, k, mat, hist

vars == <<p, n, k, mat, hist>>

D == Len(p)
CMul(x, y) == << x[1] * y[1] - x[2] * y[2], x[1] * y[2] + x[2] * y[1] >>
CAdd(x, y) == << x[1] + y[1], x[2] + y[2] >>
RECURSIVE CSum(_, _)
CSum(f, m) == IF m = 0 THEN <<0, 0>> ELSE CAdd(f[m], CSum(f, m - 1))
MatMul(a, b) == [i \in 1..D |-> [j \in 1..D |-> CSum([l \in 1..D |-> CMul(a[i][l], b[l][j])], D)]]
Ident == [i \in 1..D |-> [j \in 1..D |-> IF i = j THEN <<1, 0>> ELSE <<0, 0>>]]

Init == /\ p \in PSet /\ n \in NSet /\ k = 0 /\ mat = Ident /\ hist = << Ident >>

Slice == /\ k < n
         /\ k' = k + 1
         /\ mat' = MatMul(MatMul(mat, p), p)
         /\ hist' = Append(hist, mat')
         /\ UNCHANGED <<p, n>>

Next == Slice
Spec == Init /\ [][Next]_vars

Hermitian(m) == \A i, j \in 1..D : m[i][j][1] = m[j][i][1] /\ m[i][j][2] = 0 - m[j][i][2]
PositiveDiagonal(m) == \A i \in 1..D : m[i][i][1] > 0 /\ m[i][i][2] = 0

InputOk == Hermitian(p) /\ PositiveDiagonal(p)
StateHermitian == Hermitian(mat)
StatePositiveDiag == PositiveDiagonal(mat)
\* 2x2: positive definite iff positive diagonal and positive determinant (real for Hermitian matrices)
Det2(m) == CAdd(CMul(m[1][1], m[2][2]), << 0 - CMul(m[1][2], m[2][1])[1], 0 - CMul(m[1][2], m[2][1])[2] >>)
StatePositive2 == (D = 2 /\ k <= 2) => (Det2(mat)[1] > 0 /\ Det2(mat)[2] = 0)

\* slice-pair counts of the influence functional after m slices
Counts(m) == [c \in 0..(m - 1) |-> m - c]

CaseRecord == [ p |-> p, n |-> n, states |-> hist, counts |-> [m \in 1..n |-> Counts(m)] ]
EmitCase == (Emit /\ k = n) => PrintT("CASE " \o ToJson(CaseRecord))
=============================================================================
