---------------------------- MODULE Degeneracy ----------------------------
(***************************************************************************)
(* Degeneracy reduction of the bath influence tensors (oqupy/bath.py       *)
(* _row_degeneracy, north/west degeneracy maps; tempo.py influence_matrix  *)
(* deg_positions; the scatter loops in tempo_backend.py /                  *)
(* pt_tempo_backend.py).                                                   *)
(*                                                                         *)
(* Liouville index e = i*d + j.  comm[e] = o_i - o_j, acomm[e] = o_i+o_j.  *)
(* An influence entry between a later index a ("north") and an earlier     *)
(* index b ("west") is a function of (comm[a], acomm[a], comm[b]) only;    *)
(* it is represented here by that key (an uninterpreted function of it).   *)
(***************************************************************************)
EXTENDS Naturals, Integers, Sequences, FiniteSets, Json, TLC

CONSTANTS OSpace,    \* set of eigenvalue tuples to explore
          Emit

VARIABLES o, phase

vars == <<o, phase>>

D == Len(o)
Idx == 0..(D*D - 1)
Comm(e)  == o[(e \div D) + 1] - o[(e % D) + 1]
Acomm(e) == o[(e \div D) + 1] + o[(e % D) + 1]

NorthKey(e) == <<Comm(e), Acomm(e)>>
WestKey(e)  == Comm(e)

\* the maps as partitions (what _row_degeneracy computes up to the labelling)
NorthPartition == { { e2 \in Idx : NorthKey(e2) = NorthKey(e) } : e \in Idx }
WestPartition  == { { e2 \in Idx : WestKey(e2) = WestKey(e) } : e \in Idx }

\* representative position of a class: its least member (np.where(map == i)[0][0])
Rep(class) == CHOOSE e \in class : \A f \in class : e <= f
NorthClass(e) == CHOOSE c \in NorthPartition : e \in c
WestClass(e)  == CHOOSE c \in WestPartition : e \in c

\* full influence matrix entry (key form) and its reduced-then-scattered version
Full(a, b)      == <<Comm(a), Acomm(a), Comm(b)>>
Reduced(ca, cb) == Full(Rep(ca), Rep(cb))
Scattered(a, b) == Reduced(NorthClass(a), WestClass(b))

\* dk = 0 vector (north only)
Full0(a)      == <<Comm(a), Acomm(a)>>
Scattered0(a) == Full0(Rep(NorthClass(a)))

Init == o \in OSpace /\ phase = "classified"
Next == UNCHANGED vars
Spec == Init /\ [][Next]_vars

\* C06 at the level of the specification: reduction followed by scattering is the identity
ReductionExact ==
    /\ \A a \in Idx : \A b \in Idx : Scattered(a, b) = Full(a, b)
    /\ \A a \in Idx : Scattered0(a) = Full0(a)

\* the partitions are the coarsest ones (cost claim; also what the code's maps must equal)
Coarsest ==
    /\ \A a \in Idx : \A b \in Idx : (NorthKey(a) = NorthKey(b)) <=> (NorthClass(a) = NorthClass(b))
    /\ \A a \in Idx : \A b \in Idx : (WestKey(a) = WestKey(b)) <=> (WestClass(a) = WestClass(b))

\* north refines west
Refines == \A c \in NorthPartition : \E w \in WestPartition : c \subseteq w

SetToSeq(S) == LET RECURSIVE F(_) F(T) == IF T = {} THEN <<>> ELSE LET m == CHOOSE x \in T : \A y \in T : x <= y IN <<m>> \o F(T \ {m}) IN F(S)

CaseRecord ==
    [ o |-> o,
      north |-> [ e \in Idx |-> Rep(NorthClass(e)) ],
      west  |-> [ e \in Idx |-> Rep(WestClass(e)) ],
      nnorth |-> Cardinality(NorthPartition),
      nwest  |-> Cardinality(WestPartition) ]

EmitCase == Emit => PrintT("CASE " \o ToJson(CaseRecord))
=============================================================================
