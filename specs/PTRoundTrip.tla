---------------------------- MODULE PTRoundTrip ----------------------------
(***************************************************************************)
(* Export / import of process tensors (C16): oqupy/process_tensor.py       *)
(* SimpleProcessTensor.export, FileProcessTensor, import_process_tensor.   *)
(*                                                                         *)
(* An abstract process tensor is a record of everything a user can         *)
(* observe: length, dt, dimension, transforms, name, description, per-step *)
(* tensor identity with its rank, cap tensors, initial tensor (none).      *)
(* Export(pt) is the exact sequence of file operations the writer must     *)
(* perform (same event alphabet as PTFile.tla); Read(events) is what a     *)
(* reader reconstructs.  Round trip: Read(Export(pt)) = pt.                *)
(***************************************************************************)
EXTENDS Naturals, Integers, Sequences, FiniteSets, Json, TLC

CONSTANTS MaxLen, Emit

None == "none"

VARIABLES pt, phase, events, imported, itype

vars == <<pt, phase, events, imported, itype>>

Ranks(n) == [1..n -> {3, 4}]

Init ==
    /\ \E n \in 1..MaxLen, rk \in UNION { Ranks(m) : m \in 1..MaxLen },
          dt \in {None, "0.25"}, tr \in {None, "unitary", "scaled", "in-only", "out-only"},
          caps \in BOOLEAN, named \in BOOLEAN :
        /\ Len(rk) = n
        /\ (tr # None => \A i \in 1..n : rk[i] = 4)      \* transformed tensors are stored with four legs
        /\ pt = [len |-> n, dt |-> dt, dim |-> 2, transforms |-> tr,
                 name |-> IF named THEN "my pt" ELSE "__unnamed__",
                 description |-> IF named THEN "a description" ELSE "__no_description__",
                 ranks |-> rk, mpo |-> [i \in 1..n |-> <<"T", i>>],
                 caps |-> IF caps THEN [i \in 1..(n + 1) |-> <<"C", i>>] ELSE << >>,
                 initial |-> None]
    /\ phase = "built" /\ events = << >> /\ imported = None /\ itype = None

Ev(op, name, val) == [op |-> op, name |-> name, val |-> val]

SetTensor(prefix, k, first) ==      \* _set_data_and_shape for index k (0-based)
    (IF first THEN << >> ELSE << Ev("resize", prefix \o "_shape", k + 1), Ev("resize", prefix \o "_data", k + 1) >>)
    \o << Ev("setitem", prefix \o "_shape", k), Ev("setitem", prefix \o "_data", k) >>

RECURSIVE Tensors(_, _, _)
Tensors(prefix, k, n) == IF k = n THEN << >> ELSE SetTensor(prefix, k, FALSE) \o Tensors(prefix, k + 1, n)

ExportEvents(p) ==
    << Ev("create", "x", 0), Ev("attr", "oqupy_version", "v"), Ev("attr", "name", p.name),
       Ev("attr", "description", p.description), Ev("attr", "writing", "TRUE"),
       Ev("dataset", "hs_dim", 1), Ev("dataset", "dt", 1),
       Ev("dataset", "transform_in", IF p.transforms \in {None, "out-only"} THEN 1 ELSE p.dim * p.dim),
       Ev("dataset", "transform_out", IF p.transforms \in {None, "in-only"} THEN 1 ELSE p.dim * p.dim),
       Ev("dataset", "initial_tensor_data", 1), Ev("dataset", "initial_tensor_shape", 1),
       Ev("dataset", "mpo_tensors_data", 0), Ev("dataset", "mpo_tensors_shape", 0),
       Ev("dataset", "cap_tensors_data", 0), Ev("dataset", "cap_tensors_shape", 0) >>
    \o SetTensor("initial_tensor", 0, TRUE)            \* _create_file: set_initial_tensor(None)
    \o SetTensor("initial_tensor", 0, TRUE)            \* export(): set_initial_tensor(self._initial_tensor)
    \o Tensors("mpo_tensors", 0, p.len)
    \o Tensors("cap_tensors", 0, Len(p.caps))
    \o << Ev("attr", "writing", "FALSE"), Ev("close", "", 0) >>

Export ==
    /\ phase = "built"
    /\ events' = ExportEvents(pt)
    /\ phase' = "exported"
    /\ UNCHANGED <<pt, imported, itype>>

\* what a reader reconstructs from the file operations
Count(evs, op, name) == Cardinality({ i \in 1..Len(evs) : evs[i].op = op /\ evs[i].name = name })
Read(evs, p) ==
    LET n == Count(evs, "setitem", "mpo_tensors_data")
        c == Count(evs, "setitem", "cap_tensors_data")
    IN [p EXCEPT !.len = n,
                 !.mpo = [i \in 1..n |-> <<"T", i>>],
                 !.caps = [i \in 1..c |-> <<"C", i>>]]

Import(t) ==
    /\ phase = "exported"
    /\ itype' = t
    /\ imported' = Read(events, pt)
    /\ phase' = "imported"
    /\ UNCHANGED <<pt, events>>

Next == Export \/ Import("file") \/ Import("simple")
Spec == Init /\ [][Next]_vars

RoundTrip == phase = "imported" => imported = pt

CaseRecord == [pt |-> pt, itype |-> itype, events |-> events]
EmitCase == (Emit /\ phase = "imported") => PrintT("CASE " \o ToJson(CaseRecord))
=============================================================================
