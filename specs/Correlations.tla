--------------------------- MODULE Correlations ---------------------------
(***************************************************************************)
(* Time specifications and result alignment of compute_correlations /      *)
(* compute_correlations_nt (oqupy/system_dynamics.py: _parse_times,        *)
(* _schedule_nt_correlations, the filtering loop of                        *)
(* compute_correlations_nt).                                               *)
(*                                                                         *)
(* Grid: steps 0..N (L = N+1 points).  A time specification is a record:   *)
(*   [k |-> "int",   v |-> step]                                           *)
(*   [k |-> "float", q |-> time in quarter steps after start_time]         *)
(*   [k |-> "slice", a |-> start, b |-> stop, s |-> step]   (None = 99)    *)
(*   [k |-> "list",  v |-> sequence of steps, any order]                   *)
(*   [k |-> "ival",  q1, q2 |-> interval ends in quarter steps]            *)
(* Declarative meaning Parse(spec) = sequence of step indices, or Error.   *)
(* The result of an n-operator request is an n-dimensional array; entry    *)
(* at positions (i_1..i_n) is the correlation at times                     *)
(* (idx_1[i_1], .., idx_n[i_n]) if these are time ordered, NaN otherwise.  *)
(***************************************************************************)
EXTENDS Naturals, Integers, Sequences, FiniteSets, Json, TLC

CONSTANTS N,         \* last step of the process tensor
          SpecSets,  \* sequence (one per operator) of sets of time specifications
          Devs,      \* deviations: "TailIndices", "ReversedToZeroEmpty"
          Emit

None == 99
L == N + 1
Error == << -1 >>

Min2(a, b) == IF a <= b THEN a ELSE b
Max2(a, b) == IF a >= b THEN a ELSE b

NOps == Len(SpecSets)

VARIABLES specs,    \* chosen specification per operator
          phase,    \* "parsed" -> "done"
          result    \* function from position tuples to time tuples (<<>> = NaN)

vars == <<specs, phase, result>>

(***************************************************************************)
(* Declarative meaning of a specification                                  *)
(***************************************************************************)
Up(lo, hi, st)   == IF hi > lo THEN [i \in 1..((hi - lo + st - 1) \div st) |-> lo + (i - 1) * st] ELSE << >>
Down(lo, hi, st) == IF lo > hi THEN [i \in 1..((lo - hi + (0 - st) - 1) \div (0 - st)) |-> lo + (i - 1) * st] ELSE << >>

SliceSeq(a, b, s) ==
    LET st == IF s = None THEN 1 ELSE s IN
    IF st > 0
    THEN Up(IF a = None THEN 0 ELSE Min2(a, L), IF b = None THEN L ELSE Min2(b, L), st)
    ELSE Down(IF a = None THEN L - 1 ELSE Min2(a, L - 1), IF b = None THEN -1 ELSE Min2(b, L - 1), st)

Nearest(q) == (q + 2) \div 4          \* q is never congruent 2 mod 4 (no ties)
InRange(i) == i >= 0 /\ i <= N

Parse(sp) ==
    CASE sp.k = "int"   -> IF InRange(sp.v) THEN << sp.v >> ELSE Error
      [] sp.k = "float" -> IF InRange(Nearest(sp.q)) THEN << Nearest(sp.q) >> ELSE Error
      [] sp.k = "slice" -> SliceSeq(sp.a, sp.b, sp.s)
      [] sp.k = "list"  -> IF \A i \in 1..Len(sp.v) : InRange(sp.v[i]) THEN sp.v ELSE Error
      [] sp.k = "ival"  -> LET i1 == Nearest(sp.q1)  i2 == Nearest(sp.q2) IN
                           IF ~InRange(i1) \/ ~InRange(i2) THEN Error
                           ELSE IF i1 <= i2 THEN Up(i1, i2 + 1, 1)
                           ELSE IF "ReversedToZeroEmpty" \in Devs /\ i2 = 0 THEN << >>   \* [i1:-1:-1] selects nothing
                           ELSE Down(i1, i2 - 1, -1)

Idx(j) == Parse(specs[j])
AnyError == \E j \in 1..NOps : Idx(j) = Error

\* position tuples of the result array
RECURSIVE PosTuples(_)
PosTuples(j) == IF j = 0 THEN { << >> }
                ELSE { Append(p, i) : p \in PosTuples(j - 1), i \in 1..Len(Idx(j)) }

TimesAt(p) == [j \in 1..NOps |-> Idx(j)[p[j]]]
Ordered(t) == \A j \in 1..(Len(t) - 1) : t[j] <= t[j + 1]

Declared == [p \in PosTuples(NOps) |-> IF Ordered(TimesAt(p)) THEN TimesAt(p) ELSE << >>]

(***************************************************************************)
(* The algorithm of compute_correlations_nt                                 *)
(***************************************************************************)
SeqMax(s) == CHOOSE m \in { s[i] : i \in 1..Len(s) } : \A i \in 1..Len(s) : s[i] <= m

\* positions (in the last operator's index sequence) written for the first-times tuple ft,
\* paired with the last time whose correlation is stored there
Written(ft) ==
    LET last == Idx(NOps)
        ftmax == IF Len(ft) = 0 THEN 0 ELSE SeqMax(ft)
        keepPos == { i \in 1..Len(last) : last[i] >= ftmax }
        keepSeq == LET RECURSIVE F(_) F(S) == IF S = {} THEN << >> ELSE
                        LET m == CHOOSE x \in S : \A y \in S : x <= y IN << m >> \o F(S \ {m}) IN F(keepPos)
        cnt == Len(keepSeq)
    IN IF ~Ordered(ft) THEN { }
       ELSE IF \A i \in 1..Len(last) : last[i] >= ftmax
            THEN { << i, last[i] >> : i \in 1..Len(last) }
       ELSE IF "TailIndices" \in Devs
            THEN { << Len(last) - cnt + j, last[keepSeq[j]] >> : j \in 1..cnt }   \* values written to the tail
            ELSE { << keepSeq[j], last[keepSeq[j]] >> : j \in 1..cnt }

Algorithm ==
    [p \in PosTuples(NOps) |->
        LET fp == SubSeq(p, 1, NOps - 1)
            ft == [j \in 1..(NOps - 1) |-> Idx(j)[fp[j]]]
            w  == { x \in Written(ft) : x[1] = p[NOps] }
        IN IF w = {} THEN << >> ELSE Append(ft, (CHOOSE x \in w : TRUE)[2]) ]

RECURSIVE SpecTuples(_)
SpecTuples(j) == IF j = 0 THEN { << >> } ELSE { Append(p, x) : p \in SpecTuples(j - 1), x \in SpecSets[j] }

Init ==
    /\ specs \in SpecTuples(NOps)
    /\ phase = "parsed"
    /\ result = << >>

Compute ==
    /\ phase = "parsed"
    /\ phase' = "done"
    /\ result' = IF AnyError THEN << >> ELSE Algorithm
    /\ UNCHANGED specs

Next == Compute
Spec == Init /\ [][Next]_vars

AlgorithmMatchesDeclaration == (phase = "done" /\ ~AnyError) => result = Declared

\* the NaN mask is exactly the complement of the time-ordered tuples
NaNExactly == (phase = "done" /\ ~AnyError) =>
    \A p \in PosTuples(NOps) : (result[p] = << >>) <=> ~Ordered(TimesAt(p))

\* every defined entry is the correlation for exactly the times on the axes at its indices
AlignedWithAxes == (phase = "done" /\ ~AnyError) =>
    \A p \in PosTuples(NOps) : result[p] # << >> => result[p] = TimesAt(p)

SetToSeq(S) == LET RECURSIVE F(_) F(T) == IF T = {} THEN << >> ELSE
                    LET m == CHOOSE x \in T : TRUE IN << m >> \o F(T \ {m}) IN F(S)

CaseRecord ==
    [ n |-> N, specs |-> specs, error |-> AnyError,
      idx |-> IF AnyError THEN << >> ELSE [j \in 1..NOps |-> Idx(j)],
      entries |-> IF AnyError THEN << >>
                  ELSE SetToSeq({ << p, result[p] >> : p \in PosTuples(NOps) }) ]

EmitCase == (Emit /\ phase = "done") => PrintT("CASE " \o ToJson(CaseRecord))
=============================================================================
