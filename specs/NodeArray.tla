----------------------------- MODULE NodeArray -----------------------------
(***************************************************************************)
(* The tensor-network layer underneath TEMPO and PT-TEMPO                  *)
(* (oqupy/backends/node_array.py): an array of nodes                       *)
(*                                                                         *)
(*        |   |   |                                                        *)
(*      --A1~~A2~~A3--          left edge, bonds, array legs, right edge   *)
(*                                                                         *)
(* and the operations the back ends are built from: apply_vector,          *)
(* apply_matrix, svd_sweep, join, split, contract, zip_up.                 *)
(*                                                                         *)
(* The specification is denotational.  Every tensor ever handed to the     *)
(* array (the nodes of the initial array, of joined / contracted / zipped  *)
(* arrays, the vectors and matrices applied to the ends) is an operand     *)
(* whose legs carry globally unique labels.  The state records             *)
(*   - which labels have been connected (conn),                            *)
(*   - which operands are still part of the array (live),                  *)
(*   - the shape of the array: per node the label of its left leg, its     *)
(*     ordered array legs and its right leg, the bond dimensions, and for  *)
(*     every bond whether it still is an original connection (clean) or    *)
(*     has been re-factorised by a singular value decomposition.           *)
(* The meaning of the array is the contraction of all live operands over   *)
(* the connected labels, its open legs ordered                             *)
(*   left edge, legs of node 1, legs of node 2, ..., right edge.           *)
(* Singular value decompositions without truncation change the             *)
(* factorisation (bond dimensions, gauge) and never the meaning.           *)
(*                                                                         *)
(* The conformance harness replays every history on real NodeArray objects *)
(* built from random complex operands and compares, after every operation, *)
(* length, edge flags, rank, every leg dimension in order, every bond      *)
(* dimension, and the dense contraction with the contraction of the        *)
(* operands prescribed here.                                               *)
(***************************************************************************)
EXTENDS Naturals, Integers, Sequences, FiniteSets, TLC, Json

CONSTANTS Inits,      \* set of initial arrays <<n, rank, left, right>>
          OpKinds,    \* subset of {"vec","mat","svd","join","split","contract","zip"}
          MaxOps,     \* length of the histories
          MaxLen,     \* joins never make the array longer than this
          Devs,       \* named deviations (adequacy checks)
          Emit

VARIABLES nodes,   \* Seq of [ops: set of operand ids, l: label or 0, legs: Seq(label), r: label or 0]
          bd,      \* Seq of bond dimensions (Len(nodes) - 1)
          clean,   \* Seq of BOOLEAN, same length: bond i is still an original connection
          opnd,    \* operand id -> Seq(label): the axes of the operand tensor, in order
          live,    \* set of operand ids that are part of the array
          conn,    \* set of connected label pairs {x, y}
          dim,     \* label -> dimension
          hist     \* the operations, with the expectation after each of them

vars == <<nodes, bd, clean, opnd, live, conn, dim, hist>>

\* ------------------------------------------------------------------ helpers

Min2(a, b) == IF a <= b THEN a ELSE b
D(x) == 2 + (x % 2)                       \* default dimension of a fresh leg

RECURSIVE ProdDims(_, _)
ProdDims(f, s) == IF s = <<>> THEN 1 ELSE f[Head(s)] * ProdDims(f, Tail(s))

RECURSIVE Cat(_)
Cat(ss) == IF ss = <<>> THEN <<>> ELSE Head(ss) \o Cat(Tail(ss))

RECURSIVE UnionOps(_)
UnionOps(ns) == IF ns = <<>> THEN {} ELSE Head(ns).ops \cup UnionOps(Tail(ns))

Remove(s, i) == SubSeq(s, 1, i - 1) \o SubSeq(s, i + 1, Len(s))

NL == Len(dim)                            \* labels 1..NL are in use
NT == Len(opnd)                           \* operands 1..NT exist

N == Len(nodes)
HasLeft  == N > 0 /\ nodes[1].l # 0
HasRight == N > 0 /\ nodes[N].r # 0
Rank == Len(nodes[1].legs)

Axes(nd) == (IF nd.l # 0 THEN <<nd.l>> ELSE <<>>) \o nd.legs \o (IF nd.r # 0 THEN <<nd.r>> ELSE <<>>)

\* open legs of the array, in the order of the dense tensor
Free == (IF HasLeft THEN <<nodes[1].l>> ELSE <<>>) \o Cat([i \in 1..N |-> nodes[i].legs])
        \o (IF HasRight THEN <<nodes[N].r>> ELSE <<>>)

(***************************************************************************)
(* A fresh operand array of n nodes of the given rank.  Node i uses the    *)
(* labels base + (i-1)(rank+2) + 1 (left), + 2 .. + rank + 1 (array legs)  *)
(* and + rank + 2 (right).  ov overrides dimensions (legs that have to     *)
(* match legs of the current array).                                       *)
(***************************************************************************)
FLabel(base, rk, i, k) == base + (i - 1) * (rk + 2) + k
FreshNodes(base, tbase, n, rk, L, R) ==
    [i \in 1..n |-> [ops  |-> {tbase + i},
                     l    |-> IF i = 1 /\ ~L THEN 0 ELSE FLabel(base, rk, i, 1),
                     legs |-> [k \in 1..rk |-> FLabel(base, rk, i, k + 1)],
                     r    |-> IF i = n /\ ~R THEN 0 ELSE FLabel(base, rk, i, rk + 2)]]
FreshDims(base, n, rk, ov) ==
    [x \in 1..(n * (rk + 2)) |->
        LET lab == base + x
            i == ((x - 1) \div (rk + 2)) + 1
            k == ((x - 1) % (rk + 2)) + 1
        IN IF lab \in DOMAIN ov THEN ov[lab]
           ELSE IF k = 1 /\ i > 1 THEN D(FLabel(base, rk, i - 1, rk + 2))   \* inner bonds match
           ELSE D(lab)]
FreshBonds(base, n, rk) == { {FLabel(base, rk, i, rk + 2), FLabel(base, rk, i + 1, 1)} : i \in 1..(n - 1) }
FreshBd(base, n, rk) == [i \in 1..(n - 1) |-> D(FLabel(base, rk, i, rk + 2))]

\* expectation recorded after every operation
Snapshot(nds, b, lv, cn) ==
    LET n == Len(nds) IN
    [n     |-> n,
     left  |-> IF n > 0 THEN nds[1].l ELSE 0,
     right |-> IF n > 0 THEN nds[n].r ELSE 0,
     legs  |-> [i \in 1..n |-> nds[i].legs],
     bd    |-> b,
     live  |-> lv,
     conn  |-> cn]

Log(entry, nds, b, lv, cn) == hist' = Append(hist, [entry EXCEPT !.after = Snapshot(nds, b, lv, cn)])

Entry(op) == [op |-> op, after |-> <<>>, side |-> "", from |-> 0, to |-> 0, n |-> 0, rank |-> 0, L |-> FALSE, R |-> FALSE,
              base |-> 0, tbase |-> 0, at |-> 0, dir |-> "", axes |-> <<>>, keep |-> ""]

\* ------------------------------------------------------------------ initial array

Init ==
    \E c \in Inits :
        LET n == c[1] rk == c[2] L == c[3] R == c[4]
            nds == FreshNodes(0, 0, n, rk, L, R) IN
        /\ nodes = nds
        /\ bd = FreshBd(0, n, rk)
        /\ clean = [i \in 1..(n - 1) |-> TRUE]
        /\ opnd = [i \in 1..n |-> Axes(nds[i])]
        /\ live = 1..n
        /\ conn = FreshBonds(0, n, rk)
        /\ dim = FreshDims(0, n, rk, << >>)
        /\ hist = << [Entry("new") EXCEPT !.n = n, !.rank = rk, !.L = L, !.R = R,
                      !.after = Snapshot(nds, FreshBd(0, n, rk), 1..n, FreshBonds(0, n, rk))] >>

\* ------------------------------------------------------------------ apply_vector / apply_matrix

ApplyVector(side) ==
    /\ "vec" \in OpKinds /\ N > 0
    /\ IF side = "left" THEN HasLeft ELSE HasRight
    /\ LET i == IF side = "left" THEN 1 ELSE N
           e == IF side = "left" THEN nodes[1].l ELSE nodes[N].r
           v == NL + 1
           t == NT + 1
           nds == [nodes EXCEPT ![i] = [@ EXCEPT !.ops = @ \cup {t},
                                               !.l = IF side = "left" THEN 0 ELSE @,
                                               !.r = IF side = "right" THEN 0 ELSE @]] IN
       /\ nodes' = nds
       /\ opnd' = Append(opnd, <<v>>)
       /\ dim' = Append(dim, dim[e])
       /\ live' = live \cup {t}
       /\ conn' = conn \cup {{e, v}}
       /\ UNCHANGED <<bd, clean>>
       /\ Log([Entry("vec") EXCEPT !.side = side, !.base = NL, !.tbase = NT], nds, bd, live \cup {t}, conn \cup {{e, v}})

ApplyMatrix(side) ==
    /\ "mat" \in OpKinds /\ N > 0
    /\ IF side = "left" THEN HasLeft ELSE HasRight
    /\ LET i == IF side = "left" THEN 1 ELSE N
           e == IF side = "left" THEN nodes[1].l ELSE nodes[N].r
           m1 == NL + 1
           m2 == NL + 2
           t == NT + 1
           newedge == IF "MatrixKeepsOldEdge" \in Devs THEN e ELSE m2
           nds == [nodes EXCEPT ![i] = [@ EXCEPT !.ops = @ \cup {t},
                                               !.l = IF side = "left" THEN newedge ELSE @,
                                               !.r = IF side = "right" THEN newedge ELSE @]] IN
       /\ nodes' = nds
       /\ opnd' = Append(opnd, <<m1, m2>>)
       /\ dim' = dim \o <<dim[e], D(m2)>>
       /\ live' = live \cup {t}
       /\ conn' = conn \cup {{e, m1}}
       /\ UNCHANGED <<bd, clean>>
       /\ Log([Entry("mat") EXCEPT !.side = side, !.base = NL, !.tbase = NT], nds, bd, live \cup {t}, conn \cup {{e, m1}})

\* ------------------------------------------------------------------ svd_sweep (no truncation)

LegProd(i) == ProdDims(dim, nodes[i].legs)

\* bond dimensions after sweeping from node a to node b (a < b: rightwards)
RECURSIVE SweepRight(_, _, _)
SweepRight(b, i, to) ==
    IF i >= to THEN b
    ELSE LET outer == IF i = 1 THEN (IF HasLeft THEN dim[nodes[1].l] ELSE 1) ELSE b[i - 1]
             m == outer * LegProd(i)
         IN SweepRight([b EXCEPT ![i] = Min2(m, b[i])], i + 1, to)

RECURSIVE SweepLeft(_, _, _)
SweepLeft(b, i, to) ==
    IF i <= to THEN b
    ELSE LET outer == IF i = N THEN (IF HasRight THEN dim[nodes[N].r] ELSE 1) ELSE b[i]
             m == outer * LegProd(i)
         IN SweepLeft([b EXCEPT ![i - 1] = Min2(m, b[i - 1])], i - 1, to)

SvdSweep(a, b) ==
    /\ "svd" \in OpKinds
    /\ a \in 1..N /\ b \in 1..N /\ a # b
    \* every factorised node needs at least one row leg (an end node without edge and without array legs has none;
    \* the back ends never sweep over such arrays, and the library underneath rejects the empty reshape)
    /\ (a < b /\ a = 1) => (HasLeft \/ nodes[1].legs # <<>>)
    /\ (a > b /\ a = N) => (HasRight \/ nodes[N].legs # <<>>)
    /\ LET nb == IF a < b THEN SweepRight(bd, a, b) ELSE SweepLeft(bd, a, b)
           lo == Min2(a, b)
           hi == IF a < b THEN b ELSE a
           nc == [i \in 1..(N - 1) |-> IF i >= lo /\ i < hi THEN FALSE ELSE clean[i]] IN
       /\ bd' = nb
       /\ clean' = nc
       /\ UNCHANGED <<nodes, opnd, live, conn, dim>>
       /\ Log([Entry("svd") EXCEPT !.from = a, !.to = b], nodes, nb, live, conn)

\* ------------------------------------------------------------------ join / split

Join(side, n2, far) ==       \* far: the joined array has a dangling edge at its far end
    /\ "join" \in OpKinds /\ N > 0 /\ N + n2 <= MaxLen
    /\ IF side = "right" THEN HasRight ELSE HasLeft
    /\ LET rk == Rank
           e == IF side = "right" THEN nodes[N].r ELSE nodes[1].l
           L2 == IF side = "right" THEN TRUE ELSE far
           R2 == IF side = "right" THEN far ELSE TRUE
           b == FreshNodes(NL, NT, n2, rk, L2, R2)
           e2 == IF side = "right" THEN b[1].l ELSE b[n2].r
           ov == (e2 :> dim[e])
           nds == IF side = "right" THEN nodes \o b ELSE b \o nodes
           nbd == IF side = "right" THEN bd \o <<dim[e]>> \o FreshBd(NL, n2, rk)
                  ELSE FreshBd(NL, n2, rk) \o <<dim[e]>> \o bd
           ncl == IF side = "right" THEN clean \o <<TRUE>> \o [i \in 1..(n2 - 1) |-> TRUE]
                  ELSE [i \in 1..(n2 - 1) |-> TRUE] \o <<TRUE>> \o clean
           nlive == live \cup ((NT + 1)..(NT + n2))
           ncn == conn \cup FreshBonds(NL, n2, rk) \cup {{e, e2}} IN
       /\ nodes' = nds
       /\ bd' = nbd
       /\ clean' = ncl
       /\ opnd' = opnd \o [i \in 1..n2 |-> Axes(b[i])]
       /\ dim' = dim \o FreshDims(NL, n2, rk, ov)
       /\ live' = nlive
       /\ conn' = ncn
       /\ Log([Entry("join") EXCEPT !.side = side, !.n = n2, !.rank = rk, !.L = L2, !.R = R2, !.base = NL, !.tbase = NT],
              nds, nbd, nlive, ncn)

\* split between node i and node i+1 and go on with one of the parts.  The meaning of a part is defined only if
\* the cut bond is an original connection (a re-factorised bond fixes the parts only up to a gauge).
Split(i, keep) ==
    /\ "split" \in OpKinds
    /\ i \in 1..(N - 1) /\ clean[i]
    /\ LET cut == {nodes[i].r, nodes[i + 1].l}
           nds == IF keep = "left" THEN SubSeq(nodes, 1, i) ELSE SubSeq(nodes, i + 1, N)
           nbd == IF keep = "left" THEN SubSeq(bd, 1, i - 1) ELSE SubSeq(bd, i + 1, N - 1)
           ncl == IF keep = "left" THEN SubSeq(clean, 1, i - 1) ELSE SubSeq(clean, i + 1, N - 1)
           nlive == UnionOps(nds)
           ncn == IF "SplitKeepsConnection" \in Devs THEN conn ELSE conn \ {cut} IN
       /\ nodes' = nds
       /\ bd' = nbd
       /\ clean' = ncl
       /\ live' = nlive
       /\ conn' = ncn
       /\ UNCHANGED <<opnd, dim>>
       /\ Log([Entry("split") EXCEPT !.at = i, !.keep = keep], nds, nbd, nlive, ncn)

\* ------------------------------------------------------------------ contract / zip_up

\* The operand array b of nb nodes is aligned with nodes li .. li+nb-1.  It may bring a left (right) edge only if
\* it starts (ends) at the first (last) node and the current array has no such edge.
Aligned(li, nb, L2, R2) ==
    /\ li >= 1 /\ li + nb - 1 <= N
    /\ L2 => (li = 1 /\ ~HasLeft)
    /\ R2 => (li + nb - 1 = N /\ ~HasRight)

\* axes: sequence of <<leg of the current node, leg of the operand node>> (1-based), the same for every node
AxesOK(axes, ra, rb) ==
    /\ \A k \in DOMAIN axes : axes[k][1] \in 1..ra /\ axes[k][2] \in 1..rb
    /\ \A k, m \in DOMAIN axes : k # m => (axes[k][1] # axes[m][1] /\ axes[k][2] # axes[m][2])

Used1(axes) == {axes[k][1] : k \in DOMAIN axes}
Used2(axes) == {axes[k][2] : k \in DOMAIN axes}
RECURSIVE Keep(_, _, _)
Keep(s, used, k) == IF k > Len(s) THEN <<>> ELSE (IF k \in used THEN <<>> ELSE <<s[k]>>) \o Keep(s, used, k + 1)

AxisOverrides(b, li, nb, axes) ==
    [lab \in {b[j].legs[axes[k][2]] : j \in 1..nb, k \in DOMAIN axes} |->
        LET j == CHOOSE j \in 1..nb : \E k \in DOMAIN axes : b[j].legs[axes[k][2]] = lab
            k == CHOOSE k \in DOMAIN axes : b[j].legs[axes[k][2]] = lab
        IN dim[nodes[li + j - 1].legs[axes[k][1]]]]
AxisConns(b, li, nb, axes) == { {nodes[li + j - 1].legs[axes[k][1]], b[j].legs[axes[k][2]]} : j \in 1..nb, k \in DOMAIN axes }

(***************************************************************************)
(* zip_up: node li+j-1 absorbs operand node j; the contracted legs         *)
(* disappear, the remaining legs of the operand node are appended to the   *)
(* remaining legs of the array node; the bonds inside the span are         *)
(* re-factorised (in the direction given) and carry the product of both    *)
(* bonds, cut down by the untruncated SVD to min(rows, columns).           *)
(***************************************************************************)
RECURSIVE ZipRight(_, _, _, _, _, _)
ZipRight(b, bb, nds, d2, i, ri) ==      \* b: bond dims so far, bb: operand bonds, nds: nodes after merging legs
    IF i >= ri THEN b
    ELSE LET li == ri - Len(bb)
             outer == IF i = 1 THEN (IF nds[1].l # 0 THEN d2[nds[1].l] ELSE 1) ELSE b[i - 1]
             m == outer * ProdDims(d2, nds[i].legs)
             v == b[i] * bb[i - li + 1]
         IN ZipRight([b EXCEPT ![i] = Min2(m, v)], bb, nds, d2, i + 1, ri)

RECURSIVE ZipLeft(_, _, _, _, _, _)
ZipLeft(b, bb, nds, d2, i, li) ==
    IF i <= li THEN b
    ELSE LET n == Len(nds)
             outer == IF i = n THEN (IF nds[n].r # 0 THEN d2[nds[n].r] ELSE 1) ELSE b[i]
             m == outer * ProdDims(d2, nds[i].legs)
             v == b[i - 1] * bb[i - li]
         IN ZipLeft([b EXCEPT ![i - 1] = Min2(m, v)], bb, nds, d2, i - 1, li)

ZipUp(li, nb, rb, L2, R2, axes, dir) ==
    /\ "zip" \in OpKinds /\ N > 0
    /\ Aligned(li, nb, L2, R2)
    /\ AxesOK(axes, Rank, rb)
    /\ Rank + rb - 2 * Len(axes) > 0
    /\ (nb = N \/ rb = 2 * Len(axes))                 \* the array keeps a uniform rank
    /\ LET ri == li + nb - 1
           b == FreshNodes(NL, NT, nb, rb, L2, R2)
           ov == AxisOverrides(b, li, nb, axes)
           d2 == dim \o FreshDims(NL, nb, rb, ov)
           merged(i) == LET j == i - li + 1 IN
                        [ops  |-> nodes[i].ops \cup b[j].ops,
                         l    |-> IF i = 1 /\ L2 THEN b[1].l ELSE nodes[i].l,
                         legs |-> IF "ZipPrependsLegs" \in Devs
                                  THEN Keep(b[j].legs, Used2(axes), 1) \o Keep(nodes[i].legs, Used1(axes), 1)
                                  ELSE Keep(nodes[i].legs, Used1(axes), 1) \o Keep(b[j].legs, Used2(axes), 1),
                         r    |-> IF i = N /\ R2 THEN b[nb].r ELSE nodes[i].r]
           nds == [i \in 1..N |-> IF i >= li /\ i <= ri THEN merged(i) ELSE nodes[i]]
           bb == FreshBd(NL, nb, rb)
           nbd == IF dir = "right" THEN ZipRight(bd, bb, nds, d2, li, ri) ELSE ZipLeft(bd, bb, nds, d2, ri, li)
           ncl == [i \in 1..(N - 1) |-> IF i >= li /\ i < ri THEN FALSE ELSE clean[i]]
           nlive == live \cup ((NT + 1)..(NT + nb))
           ncn == conn \cup FreshBonds(NL, nb, rb) \cup AxisConns(b, li, nb, axes) IN
       /\ nodes' = nds
       /\ bd' = nbd
       /\ clean' = ncl
       /\ opnd' = opnd \o [j \in 1..nb |-> Axes(b[j])]
       /\ dim' = d2
       /\ live' = nlive
       /\ conn' = ncn
       /\ Log([Entry("zip") EXCEPT !.at = li, !.n = nb, !.rank = rb, !.L = L2, !.R = R2, !.axes = axes, !.dir = dir,
                                   !.base = NL, !.tbase = NT], nds, nbd, nlive, ncn)

(***************************************************************************)
(* contract: every array leg of the span is contracted with the operand    *)
(* array (same rank, all legs); the span collapses into one node without   *)
(* array legs, which is absorbed by the neighbour in the given direction   *)
(* (the right neighbour for "right", the left one for "left"); if the      *)
(* span is the whole array, a single node without legs remains.            *)
(***************************************************************************)
Contract(li, nb, L2, R2, axes, dir) ==
    /\ "contract" \in OpKinds /\ N > 0
    /\ Aligned(li, nb, L2, R2)
    /\ AxesOK(axes, Rank, Rank) /\ Len(axes) = Rank /\ Rank > 0
    /\ LET ri == li + nb - 1 IN
       /\ (dir = "right") => (li = 1 \/ ri < N)
       /\ (dir = "left") => (li > 1 \/ N = 1)
       /\ LET rk == Rank
              b == FreshNodes(NL, NT, nb, rk, L2, R2)
              ov == AxisOverrides(b, li, nb, axes)
              d2 == dim \o FreshDims(NL, nb, rk, ov)
              spanops == UnionOps(SubSeq(nodes, li, ri)) \cup ((NT + 1)..(NT + nb))
              lft == IF li = 1 /\ L2 THEN b[1].l ELSE nodes[li].l
              rgt == IF ri = N /\ R2 THEN b[nb].r ELSE nodes[ri].r
              whole == li = 1 /\ ri = N
              intoRight == ~whole /\ (dir = "right" \/ li = 1)
              nds == IF whole THEN << [ops |-> spanops, l |-> lft, legs |-> <<>>, r |-> rgt] >>
                     ELSE IF intoRight
                     THEN SubSeq(nodes, 1, li - 1)
                          \o << [ops |-> spanops \cup nodes[ri + 1].ops, l |-> lft, legs |-> nodes[ri + 1].legs, r |-> nodes[ri + 1].r] >>
                          \o SubSeq(nodes, ri + 2, N)
                     ELSE SubSeq(nodes, 1, li - 2)
                          \o << [ops |-> spanops \cup nodes[li - 1].ops, l |-> nodes[li - 1].l, legs |-> nodes[li - 1].legs, r |-> rgt] >>
                          \o SubSeq(nodes, ri + 1, N)
              nbd == IF whole THEN <<>>
                     ELSE IF intoRight THEN SubSeq(bd, 1, li - 1) \o SubSeq(bd, ri + 1, N - 1)
                     ELSE SubSeq(bd, 1, li - 2) \o SubSeq(bd, ri, N - 1)
              ncl == IF whole THEN <<>>
                     ELSE IF intoRight THEN SubSeq(clean, 1, li - 1) \o SubSeq(clean, ri + 1, N - 1)
                     ELSE SubSeq(clean, 1, li - 2) \o SubSeq(clean, ri, N - 1)
              nlive == live \cup ((NT + 1)..(NT + nb))
              ncn == conn \cup FreshBonds(NL, nb, rk) \cup AxisConns(b, li, nb, axes) IN
          /\ nodes' = nds
          /\ bd' = nbd
          /\ clean' = ncl
          /\ opnd' = opnd \o [j \in 1..nb |-> Axes(b[j])]
          /\ dim' = d2
          /\ live' = nlive
          /\ conn' = ncn
          /\ Log([Entry("contract") EXCEPT !.at = li, !.n = nb, !.rank = rk, !.L = L2, !.R = R2, !.axes = axes, !.dir = dir,
                                           !.base = NL, !.tbase = NT], nds, nbd, nlive, ncn)

\* ------------------------------------------------------------------ next-state relation

AxesChoices(ra, rb) ==
    {<< <<1, 1>> >>}
    \cup (IF ra >= 2 THEN {<< <<2, 1>> >>} ELSE {})
    \cup (IF ra >= 2 /\ rb >= 2 THEN {<< <<1, 1>>, <<2, 2>> >>, << <<1, 2>>, <<2, 1>> >>} ELSE {})

Step ==
    \/ \E s \in {"left", "right"} : ApplyVector(s) \/ ApplyMatrix(s)
    \/ \E a, b \in 1..MaxLen : SvdSweep(a, b)
    \/ \E s \in {"left", "right"}, n2 \in 1..2, far \in BOOLEAN : Join(s, n2, far)
    \/ \E i \in 1..MaxLen, k \in {"left", "right"} : Split(i, k)
    \/ \E li \in 1..MaxLen, nb \in 1..MaxLen, rb \in 1..2, L2, R2 \in BOOLEAN, dir \in {"left", "right"} :
          \E ax \in AxesChoices(IF N > 0 THEN Rank ELSE 0, rb) : ZipUp(li, nb, rb, L2, R2, ax, dir)
    \/ \E li \in 1..MaxLen, nb \in 1..MaxLen, L2, R2 \in BOOLEAN, dir \in {"left", "right"} :
          \E ax \in AxesChoices(IF N > 0 THEN Rank ELSE 0, IF N > 0 THEN Rank ELSE 0) : Contract(li, nb, L2, R2, ax, dir)

DoPrint == Emit => PrintT("CASE " \o ToJson([hist |-> hist, opnd |-> opnd, dim |-> dim]))

Done == Len(hist) > MaxOps
Next ==
    \/ (~Done /\ Step)
    \/ (Done /\ DoPrint /\ UNCHANGED vars)

Spec == Init /\ [][Next]_vars

\* ------------------------------------------------------------------ properties

Connected == UNION conn
LiveLabels == UNION { {opnd[t][k] : k \in DOMAIN opnd[t]} : t \in live }

\* the open legs of the array are exactly the legs of the live operands that have not been connected,
\* each of them once: no leg is lost, duplicated or left dangling outside the array
OpenLegsExact ==
    /\ \A k, m \in DOMAIN Free : k # m => Free[k] # Free[m]
    /\ {Free[k] : k \in DOMAIN Free} = LiveLabels \ Connected

\* a label is connected at most once, always to a leg of the same dimension, and only legs of live operands
ConnectionsWellFormed ==
    /\ \A p \in conn : Cardinality(p) = 2 /\ \A x, y \in p : dim[x] = dim[y]
    /\ \A p, q \in conn : p # q => p \cap q = {}
    /\ \A p \in conn : (p \cap LiveLabels # {}) => p \subseteq LiveLabels

\* every node has the same number of array legs (the rank the code reports), bonds and flags have matching lengths
Uniform ==
    /\ \A i \in 1..N : Len(nodes[i].legs) = Len(nodes[1].legs)
    /\ Len(bd) = (IF N = 0 THEN 0 ELSE N - 1) /\ Len(clean) = Len(bd)
    /\ \A i \in 1..(N - 1) : bd[i] >= 1

\* a clean bond is an original connection of the two neighbouring nodes and has its dimension
CleanBonds ==
    \A i \in 1..(N - 1) : clean[i] =>
        /\ {nodes[i].r, nodes[i + 1].l} \in conn
        /\ bd[i] = dim[nodes[i].r]

\* every live operand belongs to exactly one node
Ownership ==
    /\ UnionOps(nodes) = live
    /\ \A i, j \in 1..N : i # j => nodes[i].ops \cap nodes[j].ops = {}
=============================================================================
