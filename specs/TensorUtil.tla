----------------------------- MODULE TensorUtil -----------------------------
(***************************************************************************)
(* Index helpers of oqupy/util.py used by all back ends to build influence *)
(* and process-tensor legs:                                                 *)
(*   create_delta(T, s): the tensor D with one leg per entry of s, where     *)
(*       D[r] = T[a] if r[p] = a[s[p]] for every leg p, and 0 if r repeats   *)
(*       an input leg inconsistently (legs that refer to the same input leg  *)
(*       carry a Kronecker delta);                                           *)
(*   add_singleton(T, i): a leg of dimension one inserted at position i;      *)
(*   is_diagonal_matrix(M).                                                  *)
(* Every input leg must be referred to by s (Surjective); otherwise the      *)
(* meaning is not defined and the case is not generated.                     *)
(***************************************************************************)
EXTENDS Naturals, Sequences, FiniteSets, TLC, Json

CONSTANTS MaxRank, MaxOut, Dims, Emit

VARIABLES shape, scr, done
vars == <<shape, scr, done>>

Seqs(S, n) == [1..n -> S]
Shapes == UNION {Seqs(Dims, k) : k \in 1..MaxRank}
Scramblings(k) == {s \in UNION {Seqs(0..(k - 1), n) : n \in k..MaxOut} : \A ax \in 0..(k - 1) : \E p \in DOMAIN s : s[p] = ax}

Init == shape \in Shapes /\ scr \in Scramblings(Len(shape)) /\ done = FALSE
Next == ~done /\ done' = TRUE /\ UNCHANGED <<shape, scr>>
Spec == Init /\ [][Next]_vars

OutShape == [p \in DOMAIN scr |-> shape[scr[p] + 1]]
\* all index tuples of a shape (0-based entries)
RECURSIVE Tuples(_)
Tuples(sh) == IF Len(sh) = 0 THEN {<<>>} ELSE {<<x>> \o t : x \in 0..(sh[1] - 1), t \in Tuples(Tail(sh))}
Consistent(r) == \A p, q \in DOMAIN scr : scr[p] = scr[q] => r[p] = r[q]
Source(r) == [ax \in 1..Len(shape) |-> r[CHOOSE p \in DOMAIN scr : scr[p] = ax - 1]]
\* the non-zero pattern: output index |-> input index
Pattern == {<<r, Source(r)>> : r \in {t \in Tuples(OutShape) : Consistent(t)}}

\* every input entry appears exactly once among the consistent output entries
Bijective == Cardinality(Pattern) = Cardinality(Tuples(shape)) /\ {x[2] : x \in Pattern} = Tuples(shape)
EmitCase == (Emit /\ done) => PrintT("CASE " \o ToJson([shape |-> shape, scr |-> scr, outshape |-> OutShape,
                                                         pattern |-> {[o |-> x[1], i |-> x[2]] : x \in Pattern}]))
=============================================================================
