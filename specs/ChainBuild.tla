----------------------------- MODULE ChainBuild -----------------------------
(***************************************************************************)
(* How a chain model is assembled and turned into Trotter layers           *)
(* (oqupy/system.py SystemChain, oqupy/mps_mpo.py compute_trotter_layers / *)
(* compute_tebd_propagator) - the construction layer underneath PT-TEBD.   *)
(*                                                                         *)
(* A SystemChain accumulates single-site terms (Hamiltonian, Liouvillian,  *)
(* dissipator) and nearest-neighbour terms in any order.  For the TEBD     *)
(* propagator every bond b gets a "full" Liouvillian: its own              *)
(* nearest-neighbour terms plus a share of the single-site terms of its    *)
(* two sites.  The shares are what matters: every site term must enter     *)
(* the evolution with total weight one (WeightsComplete), whatever the     *)
(* chain length and wherever the site sits.  A Trotter step is a sequence  *)
(* of layers (bonds with even / odd left site), each applied for a         *)
(* fraction of the time step: every bond must be evolved for exactly one   *)
(* time step in total (TimeComplete), the gates of one layer must not      *)
(* share a site (LayerDisjoint), and a second-order step must be a         *)
(* palindrome (Symmetric).                                                 *)
(*                                                                         *)
(* Weights are counted in halves (2 = full weight), layer durations in     *)
(* halves of the time step.                                                *)
(***************************************************************************)
EXTENDS Naturals, Integers, Sequences, FiniteSets, TLC, Json

CONSTANTS L,        \* chain length >= 2
          NTerms,   \* term ids 1..NTerms per kind (the harness gives each a matrix)
          MaxOps,
          Dev,      \* "none" | "halfends" (end sites get half weight too) | "order2full" (second order without halving dt)
                    \* | "oddfirst" (second order starts with the odd layer on the way back only)
          Emit

VARIABLES site, bond, hist

vars == <<site, bond, hist>>

Sites == 1..L
Bonds == 1..(L - 1)          \* bond b joins sites b and b+1

SiteKinds == {"H", "L", "D"}
BondKinds == {"H", "L", "D"}

Init ==
    /\ site = [s \in Sites |-> <<>>]
    /\ bond = [b \in Bonds |-> <<>>]
    /\ hist = <<>>

\* ------------------------------------------------------------ derived: full Liouvillians
WL(b) == IF Dev = "halfends" THEN 1 ELSE (IF b = 1 THEN 2 ELSE 1)           \* weight of site b in bond b
WR(b) == IF Dev = "halfends" THEN 1 ELSE (IF b = L - 1 THEN 2 ELSE 1)       \* weight of site b+1 in bond b

Full(st, bd) == [b \in Bonds |-> [wl |-> WL(b), wr |-> WR(b), left |-> st[b], right |-> st[b + 1], nn |-> bd[b]]]

\* total weight with which the terms of site s enter
TotalWeight(s) == (IF s \in Bonds THEN WL(s) ELSE 0) + (IF s - 1 \in Bonds THEN WR(s - 1) ELSE 0)

\* ------------------------------------------------------------ derived: Trotter layers
Even == {b \in Bonds : (b - 1) % 2 = 0}      \* left site index (from 0) even
Odd == Bonds \ Even

Layers(order) ==
    IF order = 1 THEN << [bonds |-> Even, dur |-> 2], [bonds |-> Odd, dur |-> 2] >>
    ELSE LET h == IF Dev = "order2full" THEN 2 ELSE 1
         IN IF Dev = "oddfirst"
            THEN << [bonds |-> Even, dur |-> h], [bonds |-> Odd, dur |-> h], [bonds |-> Even, dur |-> h], [bonds |-> Odd, dur |-> h] >>
            ELSE << [bonds |-> Even, dur |-> h], [bonds |-> Odd, dur |-> h], [bonds |-> Odd, dur |-> h], [bonds |-> Even, dur |-> h] >>

RECURSIVE SumDur(_, _, _)
SumDur(ls, b, i) == IF i > Len(ls) THEN 0 ELSE (IF b \in ls[i].bonds THEN ls[i].dur ELSE 0) + SumDur(ls, b, i + 1)

SetToSeq(S) == LET RECURSIVE F(_) F(T) == IF T = {} THEN <<>> ELSE LET x == CHOOSE y \in T : \A z \in T : y <= z IN <<x>> \o F(T \ {x}) IN F(S)
LayersOut(order) == [i \in DOMAIN Layers(order) |-> [bonds |-> SetToSeq(Layers(order)[i].bonds), dur |-> Layers(order)[i].dur]]

\* ------------------------------------------------------------ actions
Record(op, pos, kind, k, st, bd) ==
    hist' = Append(hist, [op |-> op, pos |-> pos, kind |-> kind, k |-> k, full |-> Full(st, bd)])

AddSite(s, kind, k) ==
    LET st == [site EXCEPT ![s] = Append(@, <<kind, k>>)]
    IN site' = st /\ UNCHANGED bond /\ Record("site", s, kind, k, st, bond)

AddBond(b, kind, k) ==
    LET bd == [bond EXCEPT ![b] = Append(@, <<kind, k>>)]
    IN bond' = bd /\ UNCHANGED site /\ Record("bond", b, kind, k, site, bd)

Done == Len(hist) >= MaxOps
DoPrint == Emit => PrintT("CASE " \o ToJson([L |-> L, hist |-> hist, order1 |-> LayersOut(1), order2 |-> LayersOut(2)]))

Next ==
    \/ /\ ~Done
       /\ \/ \E s \in Sites, kind \in SiteKinds, k \in 1..NTerms : AddSite(s, kind, k)
          \/ \E b \in Bonds, kind \in BondKinds, k \in 1..NTerms : AddBond(b, kind, k)
    \/ (Done /\ DoPrint /\ UNCHANGED vars)

Spec == Init /\ [][Next]_vars

\* ------------------------------------------------------------ properties
WeightsComplete == \A s \in Sites : TotalWeight(s) = 2
TimeComplete == \A order \in {1, 2} : \A b \in Bonds : SumDur(Layers(order), b, 1) = 2
LayerDisjoint == \A order \in {1, 2} : \A i \in DOMAIN Layers(order) :
                    \A b1, b2 \in Layers(order)[i].bonds : b1 # b2 => (b1 + 1 # b2 /\ b2 + 1 # b1)
Symmetric == LET ls == Layers(2) IN \A i \in DOMAIN ls : ls[i] = ls[Len(ls) + 1 - i]
AllBonds == \A order \in {1, 2} : UNION {Layers(order)[i].bonds : i \in DOMAIN Layers(order)} = Bonds
\* adding a term changes exactly the addressed site or bond
AddLocal == [][ (\E s \in Sites : \A t \in Sites \ {s} : site'[t] = site[t]) /\ (\E b \in Bonds : \A c \in Bonds \ {b} : bond'[c] = bond[c])
                /\ (site' # site => bond' = bond) ]_vars
=============================================================================
