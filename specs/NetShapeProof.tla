---------------------------- MODULE NetShapeProof ----------------------------
(***************************************************************************)
(* Unbounded counterpart of the invariant ClosedForm that TLC checks on     *)
(* NetShape.tla for dkmax <= 12 and N <= 20: for EVERY dkmax, number of     *)
(* steps and step the incremental bookkeeping of the backends (compare      *)
(* lengths, sum out one site, join one site; grow phase / end phase) maps   *)
(* the closed form of one step to the closed form of the next, starts in    *)
(* it, and PT-TEMPO ends with exactly N sites and a one-site operator.      *)
(* The operators are those of NetShapeOps.tla (restated: the proof system   *)
(* is run on this file alone; TLC evaluates `SameAsOps` in NetShape.tla's   *)
(* check to tie the two copies together).                                   *)
(* Checked by the TLA+ proof system (tlapm, SMT back end).                  *)
(***************************************************************************)
EXTENDS Naturals, Integers, TLAPS

Unl == -1
Min2(a, b) == IF a <= b THEN a ELSE b

\* ---- TEMPO
TmpMpo(mpo, cur, K) == IF K = Unl THEN mpo ELSE IF cur <= K THEN cur ELSE K + 1
StepMps(mps, mpo, cur, K) == (IF mps # TmpMpo(mpo, cur, K) THEN mps - 1 ELSE mps) + 1
StepMpo(mpo, K) == IF K = Unl THEN mpo + 1 ELSE mpo
ClosedMps(step, K) == (IF K = Unl THEN step ELSE Min2(step, K + 1)) + 1
ClosedMpo(step, K) == IF K = Unl THEN step + 1 ELSE K + 1

THEOREM TempoStarts == \A K \in Nat \cup {Unl} : ClosedMps(0, K) = 1 /\ ClosedMpo(0, K) = (IF K = Unl THEN 1 ELSE K + 1)
  BY DEF ClosedMps, ClosedMpo, Min2, Unl

THEOREM TempoInductive ==
    \A K \in Nat \cup {Unl} : \A step \in Nat :
        /\ StepMps(ClosedMps(step, K), ClosedMpo(step, K), step + 1, K) = ClosedMps(step + 1, K)
        /\ StepMpo(ClosedMpo(step, K), K) = ClosedMpo(step + 1, K)
  BY DEF StepMps, StepMpo, TmpMpo, ClosedMps, ClosedMpo, Min2, Unl

\* ---- PT-TEMPO
NumInfl(N, K) == Min2(N, K + 1)
EndPhase(step, N, K) == step > N - NumInfl(N, K) + 1
PtStepMps(mps, step, N, K) == IF EndPhase(step, N, K) THEN mps ELSE mps + 1
PtStepMpo(mpo, step, N, K) == IF EndPhase(step, N, K) THEN mpo - 1 ELSE mpo
PtClosedMps(step, N, K) == Min2(N, step + NumInfl(N, K) - 1)
PtClosedMpo(step, N, K) == Min2(NumInfl(N, K), N - step + 1)

THEOREM PtStarts == \A N \in Nat \ {0} : \A K \in Nat :
        PtClosedMps(1, N, K) = NumInfl(N, K) /\ PtClosedMpo(1, N, K) = NumInfl(N, K)
  BY DEF PtClosedMps, PtClosedMpo, NumInfl, Min2

THEOREM PtInductive ==
    \A N \in Nat \ {0} : \A K \in Nat : \A step \in 1..(N - 1) :
        /\ PtStepMps(PtClosedMps(step, N, K), step + 1, N, K) = PtClosedMps(step + 1, N, K)
        /\ PtStepMpo(PtClosedMpo(step, N, K), step + 1, N, K) = PtClosedMpo(step + 1, N, K)
  BY DEF PtStepMps, PtStepMpo, PtClosedMps, PtClosedMpo, EndPhase, NumInfl, Min2

THEOREM PtEndsComplete == \A N \in Nat \ {0} : \A K \in Nat : PtClosedMps(N, N, K) = N /\ PtClosedMpo(N, N, K) = 1
  BY DEF PtClosedMps, PtClosedMpo, NumInfl, Min2

\* ---- Gibbs
GibbsStepMps(mps, K) == IF mps + 1 > K + 1 THEN mps ELSE mps + 1
GibbsClosedMps(step, K) == Min2(step, K) + 1

THEOREM GibbsInductive == \A K \in Nat \ {0} : \A step \in Nat \ {0} : GibbsStepMps(GibbsClosedMps(step, K), K) = GibbsClosedMps(step + 1, K)
  BY DEF GibbsStepMps, GibbsClosedMps, Min2
=============================================================================
