------------------------------- MODULE Chain -------------------------------
(***************************************************************************)
(* PT-TEBD chain dynamics (C10) for chains whose gates commute, as exact   *)
(* monomial dynamics, stepped exactly like oqupy/pt_tebd.py                 *)
(* PtTebd.initialize / compute_step:                                       *)
(*   initialize: pre controls of the start step, record                    *)
(*   step: post controls, step += 1, gate layers (half step), process      *)
(*         tensors site by site, gate layers (half step), pre controls,    *)
(*         record                                                          *)
(* and oqupy/backends/pt_tebd_backend.py apply_nn_gate_layer: the gates of *)
(* one layer are independent tasks; in the parallel modes they complete in *)
(* any order.                                                              *)
(*                                                                         *)
(* The chain has L sites of dimension D with levels n_i; every site has an *)
(* ancilla (dimension ED, gate "I" = no environment).  A term is the image *)
(* of an initial matrix unit |s><s'| of the product state: ket and bra     *)
(* tuples <<n_1..n_L, a_1..a_L>>, a phase exponent (units 2 pi / (4 M)),   *)
(* and symbolic factors.  Couplings: H_bond = -(2 pi J_b / (M tau)) n n',  *)
(* H_site = -(2 pi h_i / (M tau)) phi[n], tau = dt / 2: all chain terms    *)
(* commute, so the Trotter layers are exact.                               *)
(***************************************************************************)
EXTENDS Naturals, Integers, Sequences, FiniteSets, Json, TLC

CONSTANTS L, D, ED, N, M,
          Order,       \* Trotter order 1 or 2
          J,           \* sequence of L-1 bond couplings (integers)
          H,           \* sequence of L site fields (integers), phase table Phi
          EnvPlan,     \* EnvPlan[r][i]: environment gate of site i in step r (r = 1..N)
          A0,          \* initial ancilla levels
          Ctl,         \* set of <<step, post?, site, ctlId, insertion index>>
          Subsets,     \* set of site subsets (as sequences) whose reduced state is recorded
          ParallelMode,\* TRUE: the gates of a layer complete in any order
          Emit

Phi == <<0, 1, 3, 2>>
MM == 4 * M

VARIABLES pc, step, terms, todo, layerStart, recs, trace

vars == <<pc, step, terms, todo, layerStart, recs, trace>>

Levels == 0..(D - 1)
RECURSIVE Tuples(_)
Tuples(n) == IF n = 0 THEN { << >> } ELSE { Append(t, x) : t \in Tuples(n - 1), x \in Levels }
Pairs == Tuples(L) \X Tuples(L)

\* Trotter layers of one half step: sequence of <<set of bonds, weight>> (weight in units of a quarter
\* of the half step): order 1: even, odd with weight 4; order 2: even, odd, odd, even with weight 2
Even == { b \in 1..(L - 1) : b % 2 = 1 }      \* bonds (1,2), (3,4), ...  (code: sites 0-1, 2-3, ...)
Odd  == { b \in 1..(L - 1) : b % 2 = 0 }
Layers == IF Order = 1 THEN << <<Even, 4>>, <<Odd, 4>> >>
          ELSE << <<Even, 2>>, <<Odd, 2>>, <<Odd, 2>>, <<Even, 2>> >>

\* share of the site term of site i carried by bond b (system.py get_nn_full_liouvillians), times 2
SiteShare2(b, i) ==
    IF i = b THEN (IF b = 1 THEN 2 ELSE 1)
    ELSE IF i = b + 1 THEN (IF b = L - 1 THEN 2 ELSE 1)
    ELSE 0

\* phase of one side (ket or bra) under the gate of bond b with layer weight w (units 2 pi / (4M))
\*   bond term: J_b n_b n_{b+1} w ; site terms: h_i phi[n_i] w share/2
SidePhase(q, b, w) ==
    J[b] * q[b] * q[b + 1] * w
    + ((H[b] * Phi[q[b] + 1] * w * SiteShare2(b, b)) \div 2)
    + ((H[b + 1] * Phi[q[b + 1] + 1] * w * SiteShare2(b, b + 1)) \div 2)

ApplyBond(tms, b, w) ==
    [p \in Pairs |-> LET tm == tms[p] IN
        IF ~tm.alive THEN tm
        ELSE [tm EXCEPT !.ph = (tm.ph + SidePhase(tm.k, b, w) - SidePhase(tm.b, b, w)) % MM]]

\* environment gate on site i (acts on level q[i] and ancilla q[L + i]); phases in units 2 pi / M
EnvSide(q, i, name) ==
    LET t == q[i]  a == q[L + i] IN
    CASE name = "I"   -> << q, 0 >>
      [] name = "CS"  -> << [q EXCEPT ![L + i] = (a + t) % ED], 0 >>
      [] name = "CP"  -> << q, t * a >>
      [] name = "SC"  -> << [q EXCEPT ![i] = (t + a) % D], 0 >>
      [] name = "SW"  -> << [q EXCEPT ![i] = a % D, ![L + i] = t % ED], 0 >>
      [] name = "CSP" -> << [q EXCEPT ![L + i] = (a + t) % ED], t * a + a >>

ApplyEnv(tms, i, name) ==
    [p \in Pairs |-> LET tm == tms[p] IN
        IF ~tm.alive THEN tm
        ELSE LET rk == EnvSide(tm.k, i, name)  rb == EnvSide(tm.b, i, name) IN
             [tm EXCEPT !.k = rk[1], !.b = rb[1], !.ph = (tm.ph + 4 * (rk[2] - rb[2])) % MM]]

\* single-site controls: 1 identity, 2 prime-scaled kick (shift by 1), 3 projector on level 0, 5 kick
Prime(r) == << 2, 3, 5, 7, 11, 13, 17, 19 >>[r + 1]
Dead == [alive |-> FALSE, k |-> << >>, b |-> << >>, ph |-> 0, f |-> << >>]
ApplyCtl(tms, r, i, id) ==
    [p \in Pairs |-> LET tm == tms[p] IN
        IF ~tm.alive THEN tm
        ELSE CASE id = 1 -> tm
               [] id = 2 -> [tm EXCEPT !.k[i] = (tm.k[i] + 1) % D, !.b[i] = (tm.b[i] + 1) % D,
                                       !.f = Append(tm.f, <<"p", Prime(r)>>)]
               [] id = 3 -> IF tm.k[i] = 0 /\ tm.b[i] = 0 THEN tm ELSE Dead
               [] id = 5 -> [tm EXCEPT !.k[i] = (tm.k[i] + 1) % D, !.b[i] = (tm.b[i] + 1) % D]]

CtlSeq(r, post) ==
    LET S == { c \in Ctl : c[1] = r /\ c[2] = post } IN
    LET RECURSIVE Ord(_)
        Ord(T) == IF T = {} THEN << >>
                  ELSE LET m == CHOOSE x \in T : \A y \in T : x[5] <= y[5] IN <<m>> \o Ord(T \ {m})
    IN Ord(S)
RECURSIVE ApplyCtls(_, _, _)
ApplyCtls(tms, r, cs) == IF cs = << >> THEN tms ELSE ApplyCtls(ApplyCtl(tms, r, Head(cs)[3], Head(cs)[4]), r, Tail(cs))

\* reduced state of a subset of sites (sequence of site indices): terms that agree on everything else
Others(S) == { i \in 1..(2 * L) : \A j \in 1..Len(S) : S[j] # i }
Reduced(tms, S) ==
    LET Sel == { p \in Pairs : tms[p].alive /\ \A i \in Others(S) : tms[p].k[i] = tms[p].b[i] } IN
    LET RECURSIVE Lst(_)
        Lst(T) == IF T = {} THEN << >>
                  ELSE LET p == CHOOSE x \in T : TRUE IN
                       << [s |-> p[1], sp |-> p[2],
                           ks |-> [j \in 1..Len(S) |-> tms[p].k[S[j]]], bs |-> [j \in 1..Len(S) |-> tms[p].b[S[j]]],
                           ph |-> tms[p].ph, f |-> tms[p].f] >> \o Lst(T \ {p})
    IN Lst(Sel)

SetToSeq(T) == LET RECURSIVE F(_) F(X) == IF X = {} THEN << >> ELSE
                    LET m == CHOOSE x \in X : TRUE IN << m >> \o F(X \ {m}) IN F(T)
Record(tms) == [ S \in Subsets |-> Reduced(tms, S) ]

Init ==
    /\ pc = <<"init">> /\ step = 0
    /\ terms = [p \in Pairs |-> [alive |-> TRUE, k |-> p[1] \o A0, b |-> p[2] \o A0, ph |-> 0, f |-> << >>]]
    /\ todo = {} /\ layerStart = terms /\ recs = << >> /\ trace = << >>

\* initialize(): pre controls of step 0, record
Initialize ==
    /\ pc = <<"init">>
    /\ terms' = ApplyCtls(terms, 0, CtlSeq(0, FALSE))
    /\ recs' = << Record(terms') >>
    /\ pc' = <<"post">>
    /\ UNCHANGED <<step, todo, layerStart, trace>>

PostCtl ==
    /\ pc = <<"post">> /\ step < N
    /\ terms' = ApplyCtls(terms, step, CtlSeq(step, TRUE))
    /\ step' = step + 1
    /\ pc' = <<"layer", 1, 1>>              \* <<"layer", half, index>>
    /\ UNCHANGED <<todo, layerStart, recs, trace>>

LayerStart ==
    /\ pc[1] = "layer" /\ Len(pc) = 3
    /\ todo' = Layers[pc[3]][1]
    /\ layerStart' = terms
    /\ pc' = <<"gates", pc[2], pc[3], 0>>
    /\ trace' = Append(trace, <<"layer", step, pc[2], SetToSeq(Layers[pc[3]][1])>>)
    /\ UNCHANGED <<step, terms, recs>>

\* one gate of the current layer completes; sequential mode: in list order
GateDone ==
    /\ pc[1] = "gates" /\ todo # {}
    /\ \E b \in todo :
        /\ (~ParallelMode => \A c \in todo : b <= c)
        /\ terms' = ApplyBond(terms, b, Layers[pc[3]][2])
        /\ todo' = todo \ {b}
    /\ UNCHANGED <<pc, step, layerStart, recs, trace>>

LayerEnd ==
    /\ pc[1] = "gates" /\ todo = {}
    /\ pc' = IF pc[3] < Len(Layers) THEN <<"layer", pc[2], pc[3] + 1>>
             ELSE IF pc[2] = 1 THEN <<"pt", 1>> ELSE <<"pre">>
    /\ UNCHANGED <<step, terms, todo, layerStart, recs, trace>>

\* apply_process_tensors: site by site
ApplyPT ==
    /\ pc[1] = "pt"
    /\ terms' = ApplyEnv(terms, pc[2], EnvPlan[step][pc[2]])
    /\ pc' = IF pc[2] < L THEN <<"pt", pc[2] + 1>> ELSE <<"layer", 2, 1>>
    /\ UNCHANGED <<step, todo, layerStart, recs, trace>>

PreCtlRecord ==
    /\ pc = <<"pre">>
    /\ terms' = ApplyCtls(terms, step, CtlSeq(step, FALSE))
    /\ recs' = Append(recs, Record(terms'))
    /\ pc' = IF step < N THEN <<"post">> ELSE <<"done">>
    /\ UNCHANGED <<step, todo, layerStart, trace>>

Next == Initialize \/ PostCtl \/ LayerStart \/ GateDone \/ LayerEnd \/ ApplyPT \/ PreCtlRecord
Spec == Init /\ [][Next]_vars

(***************************************************************************)
(* Properties                                                              *)
(***************************************************************************)
\* the result of a layer does not depend on the order in which its gates complete
RECURSIVE ApplyAll(_, _, _)
ApplyAll(tms, bs, w) == IF bs = {} THEN tms
                        ELSE LET b == CHOOSE x \in bs : \A y \in bs : x <= y IN ApplyAll(ApplyBond(tms, b, w), bs \ {b}, w)
OrderIndependent ==
    (pc[1] = "gates" /\ todo = {}) => terms = ApplyAll(layerStart, Layers[pc[3]][1], Layers[pc[3]][2])

\* total norm: the diagonal terms are never removed or rescaled unless a control did it
NormOne ==
    (Ctl = {}) => \A p \in Pairs : (p[1] = p[2]) => (terms[p].alive /\ terms[p].k = terms[p].b /\ terms[p].ph = 0)

\* reduced states of nested subsets are consistent under partial trace (checked on recorded states):
\* a term of the smaller subset's list appears in the larger one's list with equal levels on the rest
Consistent ==
    \A r \in 1..Len(recs) : \A S, T \in Subsets :
        (\A j \in 1..Len(S) : \E l \in 1..Len(T) : T[l] = S[j]) =>
            \A i \in 1..Len(recs[r][S]) :
                \E l \in 1..Len(recs[r][T]) : recs[r][T][l].s = recs[r][S][i].s /\ recs[r][T][l].sp = recs[r][S][i].sp
                                              /\ recs[r][T][l].ph = recs[r][S][i].ph

CaseRecord == [ l |-> L, d |-> D, ed |-> ED, n |-> N, m |-> M, order |-> Order, j |-> J, h |-> H,
                envplan |-> EnvPlan, a0 |-> A0, ctl |-> SetToSeq(Ctl), subsets |-> SetToSeq(Subsets),
                trace |-> trace,
                recs |-> [ r \in 1..Len(recs) |-> [ x \in 1..Cardinality(Subsets) |->
                            [ sub |-> SetToSeq(Subsets)[x], terms |-> recs[r][SetToSeq(Subsets)[x]] ] ] ] ]
EmitCase == (Emit /\ pc = <<"done">>) => PrintT("CASE " \o ToJson(CaseRecord))
=============================================================================
