---------------------------- MODULE Translation ----------------------------
(***************************************************************************)
(* Covariance under translation of the time origin (C15).                  *)
(*                                                                         *)
(* Everything the library derives from absolute times - the times at which *)
(* it samples user callables, the step a float control time acts at, the   *)
(* index a float correlation time selects, the labels of recorded states - *)
(* is stated here as a function of (time - start_time) on an integer tick  *)
(* grid (Dt ticks per step, Dt divisible by 4).  One action per step.      *)
(*   system.py TimeDependentSystem.get_propagators (samples at dt/4, 3dt/4)*)
(*   tempo.py MeanFieldTempo._compute_field(_derivative) (t_k, t_k, t_k+dt)*)
(*   control.py Control.get_controls, system_dynamics.py _parse_times      *)
(***************************************************************************)
EXTENDS Naturals, Integers, Sequences, FiniteSets, Json, TLC

CONSTANTS Dt, N, StartSet, FloatOffsets, Emit

VARIABLES start, k, hsamples, eomtimes, labels

vars == <<start, k, hsamples, eomtimes, labels>>

Nearest(t, s) == (2 * (t - s) + Dt) \div (2 * Dt)        \* nearest step of an absolute time (no ties in FloatOffsets)

Init == /\ start \in StartSet /\ k = 0 /\ hsamples = << >> /\ eomtimes = << >> /\ labels = << start >>

Step ==
    /\ k < N
    /\ hsamples' = hsamples \o << start + k * Dt + Dt \div 4, start + k * Dt + 3 * (Dt \div 4) >>
    /\ eomtimes' = eomtimes \o << start + k * Dt, start + k * Dt, start + (k + 1) * Dt >>
    /\ labels' = Append(labels, start + (k + 1) * Dt)
    /\ k' = k + 1
    /\ UNCHANGED start

Next == Step
Spec == Init /\ [][Next]_vars

\* the observable pattern relative to the start time does not depend on the start time
Rel(seq) == [i \in 1..Len(seq) |-> seq[i] - start]
Covariant ==
    /\ \A i \in 1..Len(hsamples) : Rel(hsamples)[i] = ((i - 1) \div 2) * Dt + (IF i % 2 = 1 THEN Dt \div 4 ELSE 3 * (Dt \div 4))
    /\ \A i \in 1..Len(labels) : Rel(labels)[i] = (i - 1) * Dt
    /\ \A o \in FloatOffsets : \A s2 \in StartSet : Nearest(start + o, start) = Nearest(s2 + o, s2)

CaseRecord == [ start |-> start, dt |-> Dt, n |-> N,
                hsamples |-> Rel(hsamples), eomtimes |-> Rel(eomtimes), labels |-> Rel(labels),
                floatsteps |-> [ i \in 1..Cardinality(FloatOffsets) |->
                                   LET o == CHOOSE x \in FloatOffsets : Cardinality({ y \in FloatOffsets : y < x }) = i - 1
                                   IN << o, Nearest(start + o, start) >> ] ]
EmitCase == (Emit /\ k = N) => PrintT("CASE " \o ToJson(CaseRecord))
=============================================================================
