------------------------------ MODULE NetShape ------------------------------
(***************************************************************************)
(* The backends as step machines over the lengths of their tensor networks  *)
(* (operators in NetShapeOps.tla).  TLC explores every algorithm x dkmax x  *)
(* number of steps within the bounds and checks that the incremental        *)
(* bookkeeping of the code is the closed form that the documented meaning   *)
(* of dkmax prescribes:                                                     *)
(*   TEMPO     the state keeps min(step, dkmax + 1) memory sites + 1,       *)
(*             the operator has dkmax + 1 sites (step + 1 without cut-off)  *)
(*   PT-TEMPO  min(N, dkmax + 1) influence columns; the state grows to N    *)
(*             sites, then the operator shrinks to one; at step N the state *)
(*             has exactly N sites (what get_mpo_tensor asserts)            *)
(*   Gibbs     min(step, kmax) + 1 sites                                    *)
(* Named deviations (Dev) must violate ClosedForm.                          *)
(***************************************************************************)
EXTENDS NetShapeOps, TLC, Json

CONSTANTS MaxK, MaxN, Dev, Emit

VARIABLES alg, K, N, step, net
vars == <<alg, K, N, step, net>>

Init ==
    /\ alg \in {"tempo", "pt", "gibbs"}
    /\ K \in (IF alg = "tempo" THEN {Unl} ELSE {}) \cup (IF alg = "tempo" THEN 0..MaxK ELSE 1..MaxK)
    /\ N \in (IF alg = "pt" THEN 1..MaxN ELSE {MaxN})
    /\ step = IF alg = "tempo" THEN 0 ELSE 1
    /\ net = CASE alg = "tempo" -> TempoInit(K) [] alg = "pt" -> PtInit(N, K) [] OTHER -> GibbsInit

Step ==
    /\ step < N
    /\ step' = step + 1
    /\ net' = CASE alg = "tempo" -> TempoStep(net, step + 1, K, Dev)
                [] alg = "pt" -> PtStep(net, step + 1, N, K, Dev)
                [] OTHER -> GibbsStep(net, K)
    /\ UNCHANGED <<alg, K, N>>

Next == Step
Spec == Init /\ [][Next]_vars

ClosedForm ==
    CASE alg = "tempo" -> net = TempoClosed(step, K)
      [] alg = "pt" -> net = PtClosed(step, N, K)
      [] OTHER -> net = GibbsClosed(step, K)

Bounded ==
    /\ net.mps >= 1
    /\ alg = "tempo" /\ K # Unl => net.mps <= K + 2
    /\ alg = "pt" => (net.mps <= N /\ net.mpo >= 1 /\ net.mpo <= K + 1)
    /\ alg = "gibbs" => net.mps <= K + 1

PtEnds == (alg = "pt" /\ step = N) => (net.mps = N /\ net.mpo = 1 /\ (N > 1 => ~net.right))

\* the operator applied at TEMPO step cur has exactly as many sites as the documented memory has cells in that row
\* (Influence.tla: row r covers columns max(0, r - K) .. r)
RowWidth == (alg = "tempo" /\ step >= 1) =>
               LET cur == step IN
               (IF K = Unl THEN cur ELSE Min2(cur, K + 1)) = net.mps - 1

\* the restated operators that the proof system works on (NetShapeProof.tla) are the operators used here
P == INSTANCE NetShapeProof
SameAsOps ==
    CASE alg = "tempo" -> /\ TempoStep(net, step + 1, K, "none") = [mps |-> P!StepMps(net.mps, net.mpo, step + 1, K), mpo |-> P!StepMpo(net.mpo, K)]
                          /\ TempoClosed(step, K) = [mps |-> P!ClosedMps(step, K), mpo |-> P!ClosedMpo(step, K)]
      [] alg = "pt" -> /\ PtStep(net, step + 1, N, K, "none").mps = P!PtStepMps(net.mps, step + 1, N, K)
                       /\ PtStep(net, step + 1, N, K, "none").mpo = P!PtStepMpo(net.mpo, step + 1, N, K)
                       /\ PtClosed(step, N, K).mps = P!PtClosedMps(step, N, K)
                       /\ PtClosed(step, N, K).mpo = P!PtClosedMpo(step, N, K)
      [] OTHER -> /\ GibbsStep(net, K).mps = P!GibbsStepMps(net.mps, K)
                  /\ GibbsClosed(step, K).mps = P!GibbsClosedMps(step, K)

EmitCase == Emit => PrintT("CASE " \o ToJson([alg |-> alg, K |-> K, N |-> N, step |-> step, net |-> net]))
=============================================================================
