------------------------------ MODULE Snapshot ------------------------------
(***************************************************************************)
(* Arrays owned by the caller (C20): an object constructed from an array    *)
(* (an initial state, a control operation, a Hamiltonian, a coupling        *)
(* operator, a tensor) stands for the *contents the array had when the      *)
(* object was built*.  The caller may overwrite its array at any time       *)
(* afterwards (work buffers are re-used); every later computation with the  *)
(* object must still reflect the contents at construction time, and a        *)
(* computation never changes the caller's array.                            *)
(*                                                                         *)
(* The array's contents are abstracted to a version number; the harness      *)
(* maps versions to concrete matrices and decodes which version a result     *)
(* reflects.                                                                 *)
(***************************************************************************)
EXTENDS Naturals, Sequences, FiniteSets, TLC, Json

CONSTANTS Versions,   \* e.g. 1..3
          MaxOps,
          Devs,       \* {} | {"Alias"}: the object keeps a reference and reflects the current contents
          Emit

VARIABLES arr,        \* current contents of the caller's array
          obj,        \* sequence of objects built so far: the version each one must reflect
          hist

vars == <<arr, obj, hist>>

Init == arr = 1 /\ obj = <<>> /\ hist = <<>>

Write(v) == /\ v # arr
            /\ arr' = v /\ UNCHANGED obj
            /\ hist' = Append(hist, [op |-> "write", arg |-> v, obs |-> 0])
Build == /\ Len(obj) < 2
         /\ obj' = Append(obj, arr) /\ UNCHANGED arr
         /\ hist' = Append(hist, [op |-> "build", arg |-> Len(obj) + 1, obs |-> 0])
Compute(k) == /\ k \in DOMAIN obj
              /\ UNCHANGED <<arr, obj>>
              /\ hist' = Append(hist, [op |-> "compute", arg |-> k,
                                       obs |-> IF "Alias" \in Devs THEN arr ELSE obj[k]])

Done == Len(hist) >= MaxOps
Next == ~Done /\ ((\E v \in Versions : Write(v)) \/ Build \/ (\E k \in 1..2 : Compute(k)))
Spec == Init /\ [][Next]_vars

\* version of the array when object k was built, from the history alone
BuiltAt(k) == LET i == CHOOSE j \in DOMAIN hist : hist[j].op = "build" /\ hist[j].arg = k
                  W == { j \in 1..i : hist[j].op = "write" }
              IN IF W = {} THEN 1 ELSE hist[CHOOSE j \in W : \A x \in W : x <= j].arg

SnapshotSemantics == \A i \in DOMAIN hist : hist[i].op = "compute" => hist[i].obs = BuiltAt(hist[i].arg)
\* a computation never changes the caller's array (arr changes only by Write)
NoMutation == [][arr' # arr => hist'[Len(hist')].op = "write"]_vars

EmitCase == (Emit /\ Done) => PrintT("CASE " \o ToJson([hist |-> hist]))
=============================================================================
