----------------------------- MODULE InputParse -----------------------------
(***************************************************************************)
(* Input rules of compute_dynamics / compute_dynamics_with_field /         *)
(* compute_gradient_and_dynamics (oqupy/system_dynamics.py                 *)
(* _compute_dynamics_input_parse) for a list of process tensors (C03):     *)
(*  - every process tensor must have the Hilbert space dimension of the    *)
(*    system;                                                              *)
(*  - process tensors that store a time step must agree on it, and with a  *)
(*    time step given by the caller; the step is inherited from them if    *)
(*    the caller gives none; if nobody knows the step the call is rejected; *)
(*  - the shortest process tensor bounds num_steps; if num_steps is not    *)
(*    given it is that length, and at least one process tensor must be     *)
(*    finite (trivial process tensors are infinitely long).                *)
(* Every combination in the bound is one behaviour: Init chooses it, Parse *)
(* decides accept (with the effective dt and num_steps) or reject.         *)
(***************************************************************************)
EXTENDS Naturals, Integers, Sequences, FiniteSets, Json, TLC

CONSTANTS MaxPTs, Emit

None == 0                      \* "not given"
Dts == {None, 1, 2}            \* 1, 2: two different time steps (0.25, 0.5)
Lens == {99, 2, 3}             \* 99: trivial process tensor (no length)
Dims == {2, 3}

PT == [dt : Dts, len : Lens, dim : Dims]

VARIABLES pts, callerDt, numSteps, phase, verdict

vars == <<pts, callerDt, numSteps, phase, verdict>>

RECURSIVE Lists(_)
Lists(n) == IF n = 0 THEN { << >> } ELSE Lists(n - 1) \cup { Append(l, p) : l \in { x \in Lists(n - 1) : Len(x) = n - 1 }, p \in PT }

Init ==
    /\ pts \in Lists(MaxPTs)
    /\ \A i \in 1..Len(pts) : (pts[i].len = 99 => pts[i].dt = None)      \* a trivial process tensor stores no dt
    /\ callerDt \in Dts /\ numSteps \in {None, 2, 3, 4}
    /\ phase = "given" /\ verdict = [ok |-> FALSE, dt |-> None, n |-> None]

SysDim == 2
KnownDts == { pts[i].dt : i \in 1..Len(pts) } \ {None}
AllDts == KnownDts \cup (IF callerDt = None THEN {} ELSE {callerDt})
MinLen == IF pts = << >> THEN 99
          ELSE CHOOSE m \in { pts[i].len : i \in 1..Len(pts) } : \A i \in 1..Len(pts) : m <= pts[i].len

Accept ==
    /\ \A i \in 1..Len(pts) : pts[i].dim = SysDim
    /\ Cardinality(AllDts) = 1
    /\ (numSteps # None => numSteps <= MinLen)
    /\ (numSteps = None => MinLen # 99)

Parse ==
    /\ phase = "given"
    /\ phase' = "parsed"
    /\ verdict' = IF Accept
                  THEN [ok |-> TRUE, dt |-> CHOOSE d \in AllDts : TRUE,
                        n |-> IF numSteps # None THEN numSteps ELSE MinLen]
                  ELSE [ok |-> FALSE, dt |-> None, n |-> None]
    /\ UNCHANGED <<pts, callerDt, numSteps>>

Next == Parse
Spec == Init /\ [][Next]_vars

\* an accepted call never runs beyond a finite process tensor and always knows its time step
Sound == (phase = "parsed" /\ verdict.ok) =>
            /\ verdict.dt # None
            /\ \A i \in 1..Len(pts) : verdict.n <= pts[i].len
            /\ \A i \in 1..Len(pts) : (pts[i].dt # None => pts[i].dt = verdict.dt)

CaseRecord == [ pts |-> pts, callerDt |-> callerDt, numSteps |-> numSteps, verdict |-> verdict ]
EmitCase == (Emit /\ phase = "parsed") => PrintT("CASE " \o ToJson(CaseRecord))
=============================================================================
