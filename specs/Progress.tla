------------------------------ MODULE Progress ------------------------------
(***************************************************************************)
(* The progress bar's timer protocol (oqupy/util.py ProgressBar) with the  *)
(* calling thread and the timer-callback threads as processes, one action  *)
(* per statement that touches shared state (C19).                          *)
(*                                                                         *)
(*   enter():   t = Timer(print_status); field = t; t.start()              *)
(*   update():  [acquire lock; if stopped: release, return]                *)
(*              field.cancel(); field = Timer(update); field.start()       *)
(*              [release lock]; print                                      *)
(*   exit():    [acquire lock; stopped = True] field.cancel() [release];   *)
(*              print                                                      *)
(* Bracketed statements exist only in Protocol = "locked" (the repaired    *)
(* code); Protocol = "asis" is the code as found.  A timer that is armed   *)
(* may fire at any time; firing starts a thread that runs its callback     *)
(* (print_status for the timer of enter(), update for all others).         *)
(* The caller performs enter, NUpdates updates and then either exit        *)
(* (normal return or an exception inside a with-block / try-finally) or    *)
(* nothing (Abort: an exception in an API that calls enter()/exit() by     *)
(* hand).  With OutFail every redraw may raise: in update() the exception  *)
(* leaves the with-block, so exit() runs; in exit() it ends the call; in a *)
(* callback thread it ends that thread.                                    *)
(***************************************************************************)
EXTENDS Naturals, Integers, Sequences, FiniteSets, Json, TLC

CONSTANTS Protocol,     \* "asis" | "locked"
          NUpdates,     \* number of caller updates
          MaxTimers,    \* bound on timers ever created
          AbortModes,   \* subset of {"none", "exit", "noexit"}: how the caller ends
          OutFail,      \* TRUE: any write to the output stream may raise (closed stream, broken pipe, bad format)
          ExitOrder,    \* "stop-first" (the code): exit() stops and cancels, then redraws;
                        \* "print-first" (named deviation): exit() redraws, then stops and cancels
          Emit

Threads == 0..MaxTimers           \* 0 = caller, i = callback thread of timer i
NoTimer == 0

VARIABLES tstate,    \* [1..MaxTimers -> {"none","new","armed","cancelled","fired"}]
          tkind,     \* [1..MaxTimers -> {"print","update"}]
          field,     \* self._timer (timer id)
          ntimers,   \* timers created so far
          pc,        \* [Threads -> program counter]
          tmp,       \* [Threads -> timer id just created by that thread]
          lock,      \* holder of the lock (-1 = free)
          stopped,
          updates,   \* caller updates done
          abort,     \* chosen way the caller ends
          late,      \* number of prints after the caller returned
          hist       \* schedule: sequence of <<thread, action>>

vars == <<tstate, tkind, field, ntimers, pc, tmp, lock, stopped, updates, abort, late, hist>>

\* the schedule history is an observation only: excluded from the state identity when model checking
View == <<tstate, tkind, field, ntimers, pc, tmp, lock, stopped, updates, abort, late>>

Locked == Protocol = "locked"
Log(th, a) == hist' = Append(hist, <<th, a>>)

Cancel(ts, t) == IF t = NoTimer THEN ts
                 ELSE IF ts[t] \in {"new", "armed"} THEN [ts EXCEPT ![t] = "cancelled"] ELSE ts
Start(ts, t) == IF ts[t] = "new" THEN [ts EXCEPT ![t] = "armed"] ELSE ts

Init ==
    /\ tstate = [t \in 1..MaxTimers |-> "none"] /\ tkind = [t \in 1..MaxTimers |-> "update"]
    /\ field = NoTimer /\ ntimers = 0
    /\ pc = [th \in Threads |-> IF th = 0 THEN "enter_new" ELSE "idle"]
    /\ tmp = [th \in Threads |-> NoTimer]
    /\ lock = -1 /\ stopped = FALSE /\ updates = 0
    /\ abort \in AbortModes /\ late = 0 /\ hist = << >>

CallerDone == pc[0] = "done"

(***************************************************************************)
(* Statements.  `th` is the executing thread.                               *)
(***************************************************************************)
Goto(th, p) == pc' = [pc EXCEPT ![th] = p]

\* Timer(...) creation: allocate the next timer id
NewTimer(th, kind, next) ==
    /\ ntimers < MaxTimers
    /\ ntimers' = ntimers + 1
    /\ tstate' = [tstate EXCEPT ![ntimers + 1] = "new"]
    /\ tkind' = [tkind EXCEPT ![ntimers + 1] = kind]
    /\ field' = ntimers + 1                       \* self._timer = Timer(...)
    /\ tmp' = [tmp EXCEPT ![th] = ntimers + 1]
    /\ Goto(th, next)
    /\ Log(th, "new")
    /\ UNCHANGED <<lock, stopped, updates, abort, late>>

StartField(th, next) ==                            \* self._timer.start()
    /\ tstate' = Start(tstate, field)
    /\ Goto(th, next)
    /\ Log(th, "start")
    /\ UNCHANGED <<tkind, field, ntimers, tmp, lock, stopped, updates, abort, late>>

CancelField(th, next) ==                           \* self._timer.cancel()
    /\ tstate' = Cancel(tstate, field)
    /\ Goto(th, next)
    /\ Log(th, "cancel")
    /\ UNCHANGED <<tkind, field, ntimers, tmp, lock, stopped, updates, abort, late>>

Acquire(th, next) ==
    /\ lock = -1
    /\ lock' = th
    /\ Goto(th, next)
    /\ Log(th, "acquire")
    /\ UNCHANGED <<tstate, tkind, field, ntimers, tmp, stopped, updates, abort, late>>

Release(th, next) ==
    /\ lock = th
    /\ lock' = -1
    /\ Goto(th, next)
    /\ Log(th, "release")
    /\ UNCHANGED <<tstate, tkind, field, ntimers, tmp, stopped, updates, abort, late>>

DoPrint(th, next) ==
    /\ late' = IF CallerDone /\ th # 0 THEN late + 1 ELSE late
    /\ Goto(th, next)
    /\ Log(th, "print")
    /\ UNCHANGED <<tstate, tkind, field, ntimers, tmp, lock, stopped, updates, abort>>

\* the redraw raises (OutFail): where control goes depends on who was drawing
FailPrint(th, next) ==
    /\ OutFail
    /\ Goto(th, next)
    /\ Log(th, "print_fail")
    /\ UNCHANGED <<tstate, tkind, field, ntimers, tmp, lock, stopped, updates, abort, late>>

PrintFirst == ExitOrder = "print-first"
ExitBody == IF Locked THEN "x_acq" ELSE "x_cancel"
ExitEntry == IF PrintFirst THEN "x_print" ELSE ExitBody

\* --- the body of update(), executed by the caller (th = 0) or a callback thread ---------
UpdateBody(th, after) ==
    \/ /\ pc[th] = "u_acq" /\ Acquire(th, "u_chk")
    \/ /\ pc[th] = "u_chk"
       /\ IF stopped THEN Release(th, after) ELSE
             /\ Goto(th, "u_cancel") /\ Log(th, "check")
             /\ UNCHANGED <<tstate, tkind, field, ntimers, tmp, lock, stopped, updates, abort, late>>
    \/ /\ pc[th] = "u_cancel" /\ CancelField(th, "u_new")
    \/ /\ pc[th] = "u_new" /\ NewTimer(th, "update", "u_start")
    \/ /\ pc[th] = "u_start" /\ StartField(th, IF Locked THEN "u_rel" ELSE "u_print")
    \/ /\ pc[th] = "u_rel" /\ Release(th, "u_print")
    \/ /\ pc[th] = "u_print" /\ DoPrint(th, after)
    \/ /\ pc[th] = "u_print" /\ FailPrint(th, IF th = 0 THEN ExitEntry ELSE "finished")

UpdateEntry == IF Locked THEN "u_acq" ELSE "u_cancel"

(***************************************************************************)
(* The caller                                                               *)
(***************************************************************************)
Caller ==
    \/ /\ pc[0] = "enter_new" /\ NewTimer(0, "print", "enter_start")
    \/ /\ pc[0] = "enter_start" /\ StartField(0, "loop")
    \/ /\ pc[0] = "loop"                      \* next statement of the API's loop
       /\ \/ /\ updates < NUpdates            \* prog_bar.update(step)
             /\ updates' = updates + 1
             /\ Goto(0, UpdateEntry) /\ Log(0, "call_update")
             /\ UNCHANGED <<tstate, tkind, field, ntimers, tmp, lock, stopped, abort, late>>
          \/ /\ (updates = NUpdates /\ abort = "none") \/ abort = "exit"     \* normal end, or exception with exit
             /\ Goto(0, ExitEntry) /\ Log(0, "call_exit")
             /\ UNCHANGED <<tstate, tkind, field, ntimers, tmp, lock, stopped, updates, abort, late>>
          \/ /\ abort = "noexit"                                            \* exception, exit() never called
             /\ Goto(0, "done") /\ Log(0, "raise")
             /\ UNCHANGED <<tstate, tkind, field, ntimers, tmp, lock, stopped, updates, abort, late>>
    \/ UpdateBody(0, "loop")
    \/ /\ pc[0] = "x_acq" /\ Acquire(0, "x_stop")
    \/ /\ pc[0] = "x_stop"
       /\ stopped' = TRUE /\ Goto(0, "x_cancel") /\ Log(0, "stop")
       /\ UNCHANGED <<tstate, tkind, field, ntimers, tmp, lock, updates, abort, late>>
    \/ /\ pc[0] = "x_cancel" /\ CancelField(0, IF Locked THEN "x_rel" ELSE (IF PrintFirst THEN "done" ELSE "x_print"))
    \/ /\ pc[0] = "x_rel" /\ Release(0, IF PrintFirst THEN "done" ELSE "x_print")
    \/ /\ pc[0] = "x_print" /\ DoPrint(0, IF PrintFirst THEN ExitBody ELSE "done")
    \/ /\ pc[0] = "x_print" /\ FailPrint(0, "done")

(***************************************************************************)
(* Timers fire; callback threads                                            *)
(***************************************************************************)
Fire(t) ==
    /\ tstate[t] = "armed"
    /\ tstate' = [tstate EXCEPT ![t] = "fired"]
    /\ pc' = [pc EXCEPT ![t] = IF tkind[t] = "print" THEN "p_print" ELSE UpdateEntry]
    /\ Log(t, "fire")
    /\ UNCHANGED <<tkind, field, ntimers, tmp, lock, stopped, updates, abort, late>>

Callback(t) ==
    \/ /\ pc[t] = "p_print" /\ DoPrint(t, "finished")
    \/ /\ pc[t] = "p_print" /\ FailPrint(t, "finished")
    \/ UpdateBody(t, "finished")

Next == Caller \/ (\E t \in 1..MaxTimers : Fire(t) \/ Callback(t))

Spec == Init /\ [][Next]_vars
FairSpec == Spec /\ WF_vars(Caller) /\ \A t \in 1..MaxTimers : WF_vars(Fire(t)) /\ WF_vars(Callback(t))

(***************************************************************************)
(* Properties                                                              *)
(***************************************************************************)
Running(t) == pc[t] \notin {"idle", "finished"}
Quiescent == CallerDone /\ \A t \in 1..MaxTimers : ~Running(t)
Armed == { t \in 1..MaxTimers : tstate[t] = "armed" }

\* after the call has returned or raised and running callbacks have finished, no timer is armed
NoOrphanTimer == Quiescent => Armed = {}

\* nothing is printed by a callback that starts after the call returned
\* (a callback that was already running when the call returned may still finish its print)
NoLateOutput == late <= Cardinality({ t \in 1..MaxTimers : tstate[t] = "fired" })

\* bounded-model guard: the exploration never needs more timers than allowed
\* (violated = the protocol keeps creating timers: the re-arming chain)
BoundedTimers == ntimers < MaxTimers

\* under fairness the activity dies out
EventuallyQuiet == <>[](Armed = {} /\ \A t \in 1..MaxTimers : ~Running(t))

Stuck == ~ENABLED Next
CaseRecord == [ protocol |-> Protocol, abort |-> abort, hist |-> hist,
                armed |-> Cardinality(Armed), ntimers |-> ntimers,
                tstate |-> tstate, late |-> late, quiescent |-> Quiescent ]
EmitCase == (Emit /\ Stuck) => PrintT("CASE " \o ToJson(CaseRecord))
=============================================================================
