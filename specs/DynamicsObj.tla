---------------------------- MODULE DynamicsObj ----------------------------
(***************************************************************************)
(* The Dynamics / MeanFieldDynamics containers (oqupy/dynamics.py): states *)
(* may be added in any order of their times; times stay sorted, every      *)
(* state (and field) stays attached to its time, entries with equal times  *)
(* keep their insertion order.  (C13: "times and states stay sorted and    *)
(* aligned".)                                                              *)
(***************************************************************************)
EXTENDS Naturals, Integers, Sequences, Json, TLC

CONSTANTS Times,     \* set of (integer) time values that may be added
          MaxAdds, Emit

VARIABLES content,   \* sequence of <<time, tag>>; the tag identifies the state that was added
          hist,      \* sequence of times in the order they were added
          rej        \* rejected add() calls: <<number of accepted adds before it, time, kind of invalid input>>

vars == <<content, hist, rej>>

Init == content = << >> /\ hist = << >> /\ rej = << >>

\* insertion point: after the last entry whose time is <= t   (bisect_right)
InsertAt(seq, t) == LET S == { i \in 1..Len(seq) : seq[i][1] <= t } IN
                    IF S = {} THEN 0 ELSE CHOOSE i \in S : \A j \in S : j <= i

Add(t) ==
    /\ Len(hist) < MaxAdds
    /\ LET k == InsertAt(content, t)  tag == Len(hist) + 1 IN
       content' = SubSeq(content, 1, k) \o << <<t, tag>> >> \o SubSeq(content, k + 1, Len(content))
    /\ hist' = Append(hist, t)
    /\ UNCHANGED rej

\* an add() with invalid input (a state of another shape, a field that is not a number, a wrong number of states) is
\* rejected and leaves the container exactly as it was
RejectKinds == {"shape", "field", "count"}
Reject(t, k) ==
    /\ Len(rej) < 1 /\ Len(hist) >= 1 /\ Len(hist) < MaxAdds
    /\ rej' = Append(rej, <<Len(hist), t, k>>)
    /\ UNCHANGED <<content, hist>>

Next == \E t \in Times : (Add(t) \/ \E k \in RejectKinds : Reject(t, k))
Spec == Init /\ [][Next]_vars

Sorted == \A i \in 1..(Len(content) - 1) : content[i][1] <= content[i + 1][1]
Aligned == \A i \in 1..Len(content) : hist[content[i][2]] = content[i][1]      \* the state added with time t sits under t
Stable == \A i \in 1..(Len(content) - 1) : content[i][1] = content[i + 1][1] => content[i][2] < content[i + 1][2]
Complete == Len(content) = Len(hist)

RejectKeeps == [][rej' # rej => content' = content]_vars
CaseRecord == [ adds |-> hist, content |-> content, rejects |-> rej ]
EmitCase == (Emit /\ Len(hist) = MaxAdds) => PrintT("CASE " \o ToJson(CaseRecord))
=============================================================================
