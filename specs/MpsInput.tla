------------------------------ MODULE MpsInput ------------------------------
(***************************************************************************)
(* Input rules of AugmentedMPS (oqupy/mps_mpo.py): the initial state of a  *)
(* chain computation is given site by site in one of four formats which     *)
(* are completed to full gamma tensors with four legs                       *)
(*     <<left bond, physical, augmented, right bond>>                       *)
(* (the order the code uses; the class docstring lists the legs in another  *)
(* order), and optional lambda matrices between neighbouring sites.         *)
(*                                                                         *)
(*   "vec"  rank 1, vectorised density matrix (d*d)      -> <<1, d*d, 1, 1>> *)
(*   "mat"  rank 2, density matrix (d, d)                -> <<1, d*d, 1, 1>> *)
(*   "mps"  rank 3, canonical MPS tensor (l, d*d, r)     -> <<l, d*d, 1, r>> *)
(*   "aug"  rank 4, augmented MPS tensor (l, d*d, a, r)  -> unchanged        *)
(*                                                                         *)
(* An input is accepted exactly when neighbouring bond dimensions match,     *)
(* the number of lambdas (if given) is one less than the number of sites,    *)
(* and every lambda given is a positive vector of the bond's length or a     *)
(* diagonal matrix with such a diagonal.  The state it stands for is the     *)
(* contraction gamma_1 lambda_1 gamma_2 ... (the harness evaluates it        *)
(* densely and compares with what a chain computation reports at step 0).   *)
(***************************************************************************)
EXTENDS Naturals, Integers, Sequences, FiniteSets, TLC, Json

CONSTANTS NSites,     \* 1..3
          Dims,       \* sequence of local dimensions
          BondDims,   \* e.g. {1, 2}
          Emit

VARIABLES gam, lam, phase

vars == <<gam, lam, phase>>

Formats == {"vec", "mat", "mps", "aug"}
LamKinds == {"none", "vec", "diag", "offdiag", "negative", "zero", "short"}

\* a gamma input: format, left bond, right bond, augmented dimension
GammaInputs(d) ==
    {[f |-> "vec", l |-> 1, r |-> 1, a |-> 1, d |-> d], [f |-> "mat", l |-> 1, r |-> 1, a |-> 1, d |-> d]}
    \cup {[f |-> "mps", l |-> l, r |-> r, a |-> 1, d |-> d] : l \in BondDims, r \in BondDims}
    \cup {[f |-> "aug", l |-> l, r |-> r, a |-> a, d |-> d] : l \in BondDims, r \in BondDims, a \in {1, 2}}

FullShape(g) == <<g.l, g.d * g.d, g.a, g.r>>

Init == gam = <<>> /\ lam = <<>> /\ phase = "gammas"

AddGamma == /\ phase = "gammas" /\ Len(gam) < NSites
            /\ \E g \in GammaInputs(Dims[Len(gam) + 1]) : gam' = Append(gam, g)
            /\ UNCHANGED <<lam, phase>>
\* lambdas: "absent" (argument not given) or a list with one entry per bond (or one too few: rejected)
ChooseLambdas ==
    /\ phase = "gammas" /\ Len(gam) >= 1
    /\ \/ lam' = <<"absent">>
       \/ \E ls \in [1..(Len(gam) - 1) -> LamKinds] : lam' = <<"given", ls>>
       \/ (Len(gam) >= 2 /\ lam' = <<"given", [i \in 1..(Len(gam) - 2) |-> "none"]>>)     \* too few
    /\ phase' = "done" /\ UNCHANGED gam

BondsMatch == \A i \in 1..(Len(gam) - 1) : gam[i].r = gam[i + 1].l
LamOk(k) == k \in {"none", "vec", "diag"}
Accepted ==
    /\ BondsMatch
    /\ (lam[1] = "given" => (Len(lam[2]) = Len(gam) - 1 /\ \A i \in DOMAIN lam[2] : LamOk(lam[2][i])))
\* the outer bonds must be closed for the input to stand for a state
Closed == gam[1].l = 1 /\ gam[Len(gam)].r = 1 /\ \A i \in DOMAIN gam : gam[i].a = 1

DoPrint == Emit => PrintT("CASE " \o ToJson([gammas |-> gam, lambdas |-> lam, accepted |-> Accepted,
                                              shapes |-> [i \in DOMAIN gam |-> FullShape(gam[i])],
                                              state |-> (Accepted /\ Closed)]))

Next == AddGamma \/ ChooseLambdas \/ (phase = "done" /\ DoPrint /\ UNCHANGED vars)

Spec == Init /\ [][Next]_vars

\* ------------------------------------------------------------------ properties
\* product formats never carry a bond
ProductClosed == \A i \in DOMAIN gam : gam[i].f \in {"vec", "mat"} => (FullShape(gam[i])[1] = 1 /\ FullShape(gam[i])[4] = 1)
\* completion never changes the number of entries of a tensor
SizePreserved == \A i \in DOMAIN gam : LET s == FullShape(gam[i]) IN s[1] * s[2] * s[3] * s[4] = gam[i].l * gam[i].d * gam[i].d * gam[i].a * gam[i].r
\* an all-product input is always accepted when no lambdas are given
ProductsAccepted == (phase = "done" /\ lam[1] = "absent" /\ \A i \in DOMAIN gam : gam[i].f \in {"vec", "mat"}) => Accepted
=============================================================================
