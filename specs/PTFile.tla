------------------------------- MODULE PTFile -------------------------------
(***************************************************************************)
(* The HDF5 write protocol of FileProcessTensor (oqupy/process_tensor.py:  *)
(* _create_file, set_initial/mpo/cap_tensor via _set_data_and_shape,       *)
(* close, _read_file) with a crash / write-back model (C17), driven by a   *)
(* trace of the file operations the real writer performed (recorded by the *)
(* harness's h5py proxy; one event per h5py call).                         *)
(*                                                                         *)
(* Events:  [op |-> "create" | "attr" | "dataset" | "resize" | "setitem"   *)
(*                  | "close", name |-> .., val |-> ..]                    *)
(* The abstract file content `disk` is updated by every event; `durable`   *)
(* is the content that is guaranteed to be on disk (snapshot at the last   *)
(* Flush, which HDF5 may perform at any time).  A Crash can happen after   *)
(* any event.  Opening a crashed file sees the durable content (or fails). *)
(***************************************************************************)
EXTENDS Naturals, Integers, Sequences, FiniteSets, Json, TLC, IOUtils

CONSTANTS Devs,       \* "FlagIdentityTest": the writing flag is tested with `is True` on a numpy bool:
                      \*  never reset by close(), never reported by the reader
          Emit

Trace == JsonDeserialize(IOEnv.TRACE_FILE)

AttrNames == {"oqupy_version", "name", "description", "writing"}
DataSets  == {"hs_dim", "dt", "transform_in", "transform_out",
              "initial_tensor_data", "initial_tensor_shape",
              "mpo_tensors_data", "mpo_tensors_shape",
              "cap_tensors_data", "cap_tensors_shape"}
Growable  == {"mpo_tensors_data", "mpo_tensors_shape", "cap_tensors_data", "cap_tensors_shape"}
Required  == {"name", "description", "writing"}

NoDS == [len |-> -1, set |-> {}]
Empty == [exists |-> FALSE,
          attrs |-> [a \in AttrNames |-> "unset"],
          ds |-> [n \in DataSets |-> NoDS]]

VARIABLES l,          \* next event of the trace
          disk,       \* abstract content after the events so far
          durable,    \* content guaranteed on disk
          closed,     \* the writer closed the file normally
          crashed     \* the writer process died

vars == <<l, disk, durable, closed, crashed>>

Ev == Trace[l]
More == l <= Len(Trace)

(***************************************************************************)
(* Effect of one writer event on the abstract content                      *)
(***************************************************************************)
Apply(d, e) ==
    CASE e.op = "create"  -> [Empty EXCEPT !.exists = TRUE]
      [] e.op = "attr"    -> [d EXCEPT !.attrs[e.name] = e.val]
      [] e.op = "dataset" -> [d EXCEPT !.ds[e.name] = [len |-> e.val, set |-> IF e.name \in Growable \/ e.name \in {"initial_tensor_data", "initial_tensor_shape"} THEN {} ELSE 0..(e.val - 1)]]
      [] e.op = "resize"  -> [d EXCEPT !.ds[e.name].len = e.val]
      [] e.op = "setitem" -> [d EXCEPT !.ds[e.name].set = @ \cup {e.val}]
      [] e.op = "close"   -> d

\* the writer only performs operations that are legal on the current content
Legal(d, e) ==
    CASE e.op = "create"  -> ~d.exists
      [] e.op = "attr"    -> d.exists /\ e.name \in AttrNames
      [] e.op = "dataset" -> d.exists /\ e.name \in DataSets /\ d.ds[e.name] = NoDS
      [] e.op = "resize"  -> d.exists /\ e.name \in Growable /\ d.ds[e.name].len >= 0 /\ e.val > d.ds[e.name].len
      [] e.op = "setitem" -> d.exists /\ d.ds[e.name].len > e.val /\ e.val >= 0
      [] e.op = "close"   -> d.exists

Step ==
    /\ More /\ ~crashed /\ ~closed
    /\ Legal(disk, Ev)
    /\ disk' = Apply(disk, Ev)
    /\ closed' = (Ev.op = "close")
    /\ durable' = IF Ev.op = "close" THEN disk' ELSE durable     \* closing the file flushes it
    /\ l' = l + 1
    /\ UNCHANGED crashed

\* HDF5 may write its caches back at any time
Flush ==
    /\ ~crashed /\ ~closed /\ durable # disk
    /\ durable' = disk
    /\ UNCHANGED <<l, disk, closed, crashed>>

Crash ==
    /\ ~crashed /\ ~closed /\ l > 1
    /\ crashed' = TRUE
    /\ UNCHANGED <<l, disk, durable, closed>>

Init == l = 1 /\ disk = Empty /\ durable = Empty /\ closed = FALSE /\ crashed = FALSE
Next == Step \/ Flush \/ Crash
Spec == Init /\ [][Next]_vars

(***************************************************************************)
(* What a reader gets (FileProcessTensor(mode="read") / import)            *)
(***************************************************************************)
MetaComplete(d) ==
    /\ d.exists
    /\ \A a \in Required : d.attrs[a] # "unset"
    /\ \A n \in DataSets : d.ds[n] # NoDS

OpenClass(d) ==
    IF ~d.exists THEN "error"
    ELSE IF ~MetaComplete(d) THEN "error"
    ELSE IF "FlagIdentityTest" \in Devs THEN "clean"
    ELSE IF d.attrs["writing"] = "TRUE" THEN "warn" ELSE "clean"

NoHoles(d) ==
    /\ \A n \in Growable \cup {"initial_tensor_data", "initial_tensor_shape"} :
          d.ds[n].set = 0..(d.ds[n].len - 1)
    /\ d.ds["mpo_tensors_data"].len = d.ds["mpo_tensors_shape"].len
    /\ d.ds["cap_tensors_data"].len = d.ds["cap_tensors_shape"].len

(***************************************************************************)
(* Properties                                                              *)
(***************************************************************************)
\* C17: a file whose writer died before close() never opens clean - except in the one window
\* that no flag protocol can avoid: the flag has been lowered as the very last operation before
\* the file is closed; then the content is already complete (identical to the closed file).
DataOps == {"dataset", "resize", "setitem"}
NoMoreData(k) == \A j \in k..Len(Trace) : Trace[j].op \notin DataOps
CrashNeverClean ==
    crashed => \/ OpenClass(durable) # "clean"
               \/ (durable = disk /\ NoHoles(disk) /\ NoMoreData(l))

\* a file that was closed normally opens clean and has no missing tensors
CleanCloseComplete == closed => (OpenClass(durable) = "clean" /\ NoHoles(durable))

\* every operation that creates or changes tensor data happens while the writing flag is up
FlagCoversData ==
    (More /\ ~closed /\ Ev.op \in DataOps) => disk.attrs["writing"] = "TRUE"

\* the whole trace is consumed on the crash-free path (conformance of the real writer)
TraceAccepted == (TLCGet("stats").diameter >= Len(Trace) + 1)

(***************************************************************************)
(* Creating / removing files (FileProcessTensor.__init__, remove).         *)
(*   mode "write" never overwrites, "overwrite" does, "read" needs a file; *)
(*   remove() is allowed only for temporary files (no name given) and for  *)
(*   files opened with "overwrite".                                        *)
(***************************************************************************)
\* kinds of pre-existing file: "no" (missing), "complete" (a process tensor closed normally), "flagged" (an HDF5 file
\* whose writing flag is up: the leftover of a writer that ended without closing), "garbage" (not an HDF5 file at all)
ExistingKinds == {"no", "complete", "flagged", "garbage"}
ModeOutcome(mode, existing, named) ==
    [ opens   |-> CASE mode = "write" -> existing = "no"
                    [] mode = "overwrite" -> TRUE
                    [] mode = "read" -> existing \in {"complete", "flagged"},     \* "flagged" opens with the warning
      intact  |-> (mode # "overwrite"),           \* the pre-existing file keeps its content, whatever it is
      removable |-> (mode = "overwrite" \/ (mode = "write" /\ ~named)),
      \* a refused remove() is refused as a whole: the object stays open and usable, the file's flag stays as it was
      refusalKeeps |-> TRUE ]
ModeTable == { [mode |-> mo, existing |-> ex, named |-> nm, out |-> ModeOutcome(mo, ex, nm)] :
                 mo \in {"write", "overwrite", "read"}, ex \in ExistingKinds, nm \in BOOLEAN }
SetToSeq(S) == LET RECURSIVE F(_) F(T) == IF T = {} THEN << >> ELSE
                    LET m == CHOOSE x \in T : TRUE IN << m >> \o F(T \ {m}) IN F(S)

\* per-prefix classification for the crash experiments on the real file
Prefix(k) == LET RECURSIVE F(_) F(j) == IF j = 0 THEN Empty ELSE Apply(F(j - 1), Trace[j]) IN F(k)
CaseRecord == [ n |-> Len(Trace),
                cls |-> [k \in 1..Len(Trace) |-> OpenClass(Prefix(k))],
                nmpo |-> [k \in 1..Len(Trace) |-> Prefix(k).ds["mpo_tensors_shape"].len],
                holes |-> [k \in 1..Len(Trace) |-> ~NoHoles(Prefix(k))],
                modes |-> SetToSeq(ModeTable) ]
EmitCase == (Emit /\ l = 1 /\ ~crashed /\ durable = Empty) => PrintT("CASE " \o ToJson(CaseRecord))
=============================================================================
