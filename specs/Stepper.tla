------------------------------ MODULE Stepper ------------------------------
(***************************************************************************)
(* Histories of compute / get calls on one method object (C14, C11).       *)
(*                                                                         *)
(* Abstract state of a method object:                                      *)
(*   step  : -1 (not initialised) or the backend's step counter            *)
(*   net   : the content of the tensor network = sequence of events that   *)
(*           were applied to it (<<"U",k>> propagation of step k-1 -> k,   *)
(*           <<"pre",k>> / <<"post",k>> control operations)                *)
(*   rec   : recorded dynamics = sequence of [label, content]              *)
(* One action per loop iteration of the code:                              *)
(*   tempo   tempo.py Tempo.compute + tempo_backend.py TempoBackend        *)
(*   mf      tempo.py MeanFieldTempo.compute + MeanFieldTempoBackend       *)
(*   tebd    pt_tebd.py PtTebd.initialize/compute/compute_step/            *)
(*           get_augmented_mps (restart)                                   *)
(*   ptt     pt_tempo.py PtTempo.compute/get_process_tensor                *)
(*   gibbs   tempo.py GibbsTempo.compute/get_state                         *)
(* A transient failure of a user callable is injected at one (step, stage);*)
(* it fires once.                                                          *)
(*                                                                         *)
(* Deviations (Devs) model behaviour of the code that is known to violate  *)
(* the property; the strict specification has Devs = {}.                   *)
(*   "StepBeforeEval"   TEMPO back-end advanced its step counter before    *)
(*                      evaluating the user's propagators (fixed)          *)
(*   "MFMutateBeforeField" mean-field back-end advances the networks       *)
(*                      before the Runge-Kutta stages of the field         *)
(*   "RestartReappliesPre" a restarted chain applies the pre-measurement   *)
(*                      control of its start step again                    *)
(*   "SecondComputeRaises" PtTempo.compute on a finished object raised     *)
(*   "GibbsRecompute"   GibbsTempo.compute on a finished object advanced   *)
(***************************************************************************)
EXTENDS Naturals, Integers, Sequences, FiniteSets, Json, TLC

CONSTANTS Kind,        \* "tempo" | "mf" | "tebd" | "ptt" | "gibbs"
          MaxStep,     \* grid length N (ptt/gibbs: the fixed end)
          MaxCalls,    \* API calls per history
          FailSet,     \* set of <<step, stage>> at which the transient failure may be injected, or {<<99,"none">>}
          PreSet,      \* tebd: set of sets of steps carrying a pre-measurement control
          Devs,        \* enabled deviations
          Emit

NoFail == <<99, "none">>

VARIABLES step, net, rec,       \* the object
          pc, target,           \* call in progress
          fail, fired,          \* transient failure: where, and whether it has fired
          stale,                \* fixed-end methods: records left behind by a failed call (deviation RecordBeforeEval)
          pre,                  \* tebd: steps with a pre control
          origin,               \* tebd: start step of the current (possibly restarted) object
          restarted,            \* tebd: the current object was built from an exported chain state
          hist                  \* history of API calls with outcomes (observation)

vars == <<step, net, rec, pc, target, fail, fired, pre, origin, restarted, hist, stale>>

U(k)    == <<"U", k>>
PreE(k) == <<"pre", k>>

\* canonical content of the network at step k
RECURSIVE Canon(_)
Canon(k) == IF k = 0 THEN (IF 0 \in pre THEN << PreE(0) >> ELSE << >>)
            ELSE Canon(k - 1) \o << U(k) >> \o (IF k \in pre THEN << PreE(k) >> ELSE << >>)

Stages ==
    CASE Kind = "tempo" -> << "H", "C" >>                             \* "C": the user's bath correlation function
      [] Kind = "mf"    -> << "deriv", "H", "H2", "rk1", "rk2" >>     \* "H2": Hamiltonian of a second system
      [] OTHER          -> << >>

FailsAt(k, stage) == ~fired /\ fail = <<k, stage>>

RecCanon(r) ==
    \A i \in 1..Len(r) :
        /\ r[i].content = Canon(r[i].label)
        /\ (i > 1 => r[i].label = r[i - 1].label + 1)

\* outcome of an API call as the caller can observe it; `canon`: the object is in the canonical state
\* after the call (used to tell on which histories a deviation shows)
Outcome(op, tgt, raised) ==
    [ op |-> op, target |-> tgt, raised |-> raised, step |-> step', nrec |-> Len(rec') + stale,
      canon |-> (step' < 0 \/ (net' = Canon(step') /\ RecCanon(rec'))) ]

(***************************************************************************)
(* Calls                                                                    *)
(***************************************************************************)
NCalls == Len(hist)

\* ---- continuing methods: tempo, mf, tebd --------------------------------
Begin(tgt) ==
    /\ pc = "idle" /\ NCalls < MaxCalls /\ Kind \in {"tempo", "mf", "tebd"}
    /\ pc' = "run" /\ target' = tgt
    /\ IF step = -1
       THEN /\ step' = origin
            /\ net' = (IF ~restarted THEN Canon(0)          \* fresh object: pre control of step 0 acts once
                       ELSE IF origin \in pre /\ "RestartReappliesPre" \in Devs
                            THEN net \o << PreE(origin) >> ELSE net)
            /\ rec' = << [label |-> origin, content |-> net'] >>
       ELSE UNCHANGED <<step, net, rec>>
    /\ UNCHANGED <<fail, fired, pre, origin, restarted, hist, stale>>

\* one loop iteration that succeeds
IterOk ==
    /\ pc = "run" /\ step < target
    /\ \A i \in 1..Len(Stages) : ~FailsAt(step, Stages[i])
    /\ step' = step + 1
    /\ net' = net \o << U(step + 1) >> \o (IF Kind = "tebd" /\ (step + 1) \in pre THEN << PreE(step + 1) >> ELSE << >>)
    /\ rec' = Append(rec, [label |-> step + 1, content |-> net'])
    /\ UNCHANGED <<pc, target, fail, fired, pre, origin, restarted, hist, stale>>

\* one loop iteration in which the user callable raises: the call is aborted
IterFail ==
    /\ pc = "run" /\ step < target
    /\ \E i \in 1..Len(Stages) :
        /\ FailsAt(step, Stages[i])
        /\ fired' = TRUE
        /\ pc' = "idle"
        /\ LET stage == Stages[i] IN
           IF Kind = "tempo" /\ "StepBeforeEval" \in Devs
           THEN step' = step + 1 /\ UNCHANGED <<net, rec>>            \* counter advanced, network not
           ELSE IF Kind = "tempo" /\ stage = "C" /\ "HalfStepBeforeCorr" \in Devs
           THEN net' = net \o << <<"half", step + 1>> >> /\ UNCHANGED <<step, rec>>   \* half a step applied before the
                                                                                     \* correlation function is evaluated
           ELSE IF Kind = "mf" /\ stage \in {"rk1", "rk2"} /\ "MFMutateBeforeField" \in Devs
           THEN net' = net \o << U(step + 1) >> /\ UNCHANGED <<step, rec>>   \* networks advanced, counter not
           ELSE UNCHANGED <<step, net, rec>>
        /\ hist' = Append(hist, Outcome("compute", target, TRUE))
    /\ UNCHANGED <<target, fail, pre, origin, restarted, stale>>

End ==
    /\ pc = "run" /\ step >= target
    /\ pc' = "idle"
    /\ UNCHANGED <<step, net, rec, target, fail, fired, pre, origin, restarted, stale>>
    /\ hist' = Append(hist, Outcome("compute", target, FALSE))

\* get_dynamics / get_results: pure observation
Get ==
    /\ pc = "idle" /\ NCalls < MaxCalls /\ step >= 0
    /\ Kind \in {"tempo", "mf", "tebd"}
    /\ UNCHANGED <<step, net, rec, pc, target, fail, fired, pre, origin, restarted, stale>>
    /\ hist' = Append(hist, Outcome("get", 0, FALSE))

\* tebd: get_current_density_matrix(sites): pure observation of the current chain state
Peek ==
    /\ pc = "idle" /\ NCalls < MaxCalls /\ step >= 0 /\ Kind = "tebd"
    /\ UNCHANGED <<step, net, rec, pc, target, fail, fired, pre, origin, restarted, stale>>
    /\ hist' = Append(hist, Outcome("peek", 0, FALSE))

\* tebd: export the chain state and step, build a new object from them
Restart ==
    /\ pc = "idle" /\ NCalls < MaxCalls /\ Kind = "tebd" /\ step >= 0
    /\ origin' = step /\ restarted' = TRUE
    /\ step' = -1
    /\ rec' = << >>
    /\ hist' = Append(hist, Outcome("restart", step, FALSE))
    /\ UNCHANGED <<net, pc, target, fail, fired, pre, stale>>

\* ---- fixed-end methods: ptt, gibbs ----------------------------------------
\* compute(): run to the fixed end MaxStep (no user callables modelled)
ComputeFixed ==
    /\ pc = "idle" /\ NCalls < MaxCalls /\ Kind \in {"ptt", "gibbs"}
    /\ (step >= MaxStep \/ fail = NoFail \/ fired)          \* a pending failure fires in the first call that computes
    /\ IF step < MaxStep
       THEN /\ step' = MaxStep
            /\ net' = Canon(MaxStep)
            /\ rec' = [ i \in 1..(MaxStep + 1) |-> [label |-> i - 1, content |-> Canon(i - 1)] ]
            /\ hist' = Append(hist, Outcome("compute", MaxStep, FALSE))
       ELSE IF Kind = "ptt" /\ "SecondComputeRaises" \in Devs
            THEN /\ UNCHANGED <<step, net, rec>>
                 /\ hist' = Append(hist, Outcome("compute", MaxStep, TRUE))
       ELSE IF Kind = "gibbs" /\ "GibbsRecompute" \in Devs
            THEN /\ step' = step + (MaxStep - 2)
                 /\ net' = net \o [ i \in 1..(MaxStep - 2) |-> U(step + i) ]
                 /\ rec' = rec \o [ i \in 1..(MaxStep - 2) |-> [label |-> step + i, content |-> << >>] ]
                 /\ hist' = Append(hist, Outcome("compute", MaxStep, FALSE))
       ELSE /\ UNCHANGED <<step, net, rec>>
            /\ hist' = Append(hist, Outcome("compute", MaxStep, FALSE))
    /\ UNCHANGED <<pc, target, fail, fired, pre, origin, restarted, stale>>

\* compute() of a fixed-end method during which the user's spectral density / correlation function raises once: the
\* call fails and must leave the object such that the repeated call gives what an undisturbed one gives.
\* Deviation "RecordBeforeEval": a state was recorded before the callable was evaluated and stays recorded.
ComputeFixedFail ==
    /\ pc = "idle" /\ NCalls < MaxCalls /\ Kind \in {"ptt", "gibbs"}
    /\ ~fired /\ fail # NoFail /\ step < MaxStep
    /\ fired' = TRUE
    /\ stale' = IF "RecordBeforeEval" \in Devs THEN stale + 1 ELSE stale
    /\ UNCHANGED <<step, net, rec>>
    /\ hist' = Append(hist, [Outcome("compute", MaxStep, TRUE) EXCEPT !.nrec = stale'])
    /\ UNCHANGED <<pc, target, fail, pre, origin, restarted>>

\* get_process_tensor() / get_state(): computes if necessary, then observes
GetFixed ==
    /\ pc = "idle" /\ NCalls < MaxCalls /\ Kind \in {"ptt", "gibbs"}
    /\ (Kind = "gibbs" => step >= 0)            \* GibbsTempo.get_state needs a computed object
    /\ (step >= MaxStep \/ fail = NoFail \/ fired)
    /\ IF step < MaxStep
       THEN /\ step' = MaxStep /\ net' = Canon(MaxStep)
            /\ rec' = [ i \in 1..(MaxStep + 1) |-> [label |-> i - 1, content |-> Canon(i - 1)] ]
       ELSE UNCHANGED <<step, net, rec>>
    /\ hist' = Append(hist, Outcome("get", MaxStep, FALSE))
    /\ UNCHANGED <<pc, target, fail, fired, pre, origin, restarted, stale>>

\* get_state() of a Gibbs object whose compute() failed: whatever it answers (an intermediate state, or an error), asking
\* must not change what the repeated compute() and later get_state() calls give
GetPartial ==
    /\ pc = "idle" /\ NCalls < MaxCalls /\ Kind = "gibbs" /\ fired /\ step < MaxStep
    /\ UNCHANGED <<step, net, rec>>
    /\ hist' = Append(hist, Outcome("get", MaxStep, FALSE))
    /\ UNCHANGED <<pc, target, fail, fired, pre, origin, restarted, stale>>

Init ==
    /\ step = -1 /\ net = << >> /\ rec = << >> /\ pc = "idle" /\ target = 0
    /\ fail \in FailSet /\ fired = FALSE /\ stale = 0
    /\ pre \in PreSet /\ origin = 0 /\ restarted = FALSE
    /\ hist = << >>

Next ==
    \/ \E t \in 0..MaxStep : Begin(t)
    \/ IterOk \/ IterFail \/ End \/ Get \/ Peek \/ Restart
    \/ ComputeFixed \/ GetFixed \/ ComputeFixedFail \/ GetPartial

Spec == Init /\ [][Next]_vars

(***************************************************************************)
(* Properties                                                              *)
(***************************************************************************)
\* every recorded state carries the canonical content of its label, labels are consecutive
RecCanonical ==
    \A i \in 1..Len(rec) :
        /\ rec[i].content = Canon(rec[i].label)
        /\ (i > 1 => rec[i].label = rec[i - 1].label + 1)

\* C14: at quiescence the object is exactly what a single call to the furthest target leaves
HistoryIndependent ==
    (pc = "idle" /\ step >= 0) =>
        /\ net = Canon(step)
        /\ RecCanonical
        /\ Len(rec) = step - origin + 1
        /\ rec[1].label = origin

\* fixed-end methods never go beyond their end and never fail on repetition
Idempotent ==
    (Kind \in {"ptt", "gibbs"}) =>
        /\ step <= MaxStep
        /\ stale = 0
        /\ Cardinality({ i \in 1..Len(hist) : hist[i].raised }) <= (IF fired THEN 1 ELSE 0)

\* a call whose target has been reached changes nothing
NoOpWhenReached ==
    [][ (pc = "idle" /\ \E t \in 0..MaxStep : (Begin(t) /\ step >= 0 /\ t <= step)) => UNCHANGED <<step, net, rec>> ]_vars

CaseRecord ==
    [ kind |-> Kind, N |-> MaxStep, fail |-> fail, pre |-> pre, hist |-> hist,
      finalstep |-> step, origin |-> origin,
      canonical |-> (step < 0 \/ (net = Canon(step) /\ RecCanonical)),
      labels |-> [ i \in 1..Len(rec) |-> rec[i].label ],
      net |-> net ]

Finished == pc = "idle" /\ NCalls = MaxCalls
EmitCase == (Emit /\ Finished) => PrintT("CASE " \o ToJson(CaseRecord))
=============================================================================
