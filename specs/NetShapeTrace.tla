--------------------------- MODULE NetShapeTrace ---------------------------
(***************************************************************************)
(* Code -> specification for NetShapeOps.tla: one event per backend step    *)
(* (harness/net_plugin.py wraps initialize_mps_mpo / compute_system_step of *)
(* BaseTempoBackend, initialize / compute_step of PtTempoBackend and        *)
(* initialise / compute_step of TIBaseBackend from outside, while the       *)
(* repository's own tests or the randomised driver run).  TLC keeps the     *)
(* abstract network of every backend object and evaluates at every event:   *)
(*   Continuity  the step computed is the successor of the last one         *)
(*   Mechanism   lengths after the step = the incremental rule applied to   *)
(*               the lengths before it                                      *)
(*   Meaning     lengths after the step = closed form of dkmax / N          *)
(*   Bonds       one bond per neighbouring pair, each within the bound of   *)
(*               the sites on either side                                   *)
(*   PtReturn    PT-TEMPO's compute_step says "more to do" exactly while    *)
(*               step < N; at step N the state has N sites, operator one    *)
(* and for PT-TEBD (PtTebdBackend) the rules stated at TebdRules below.     *)
(***************************************************************************)
EXTENDS NetShapeOps, FiniteSets, TLC, Json, IOUtils

Events == ndJsonDeserialize(IOEnv.TRACE_FILE)

\* ---------------------------------------------------------------- bond dimensions
\* a bond that separates a sites on the left from b sites on the right, every site with at most D physical values,
\* never exceeds D^min(a, b) (exponents beyond 6 are not bounded here: 32-bit integers)
RECURSIVE Pow(_, _)
Pow(D, e) == IF e = 0 THEN 1 ELSE D * Pow(D, e - 1)
BondOk(b, D, a, c) == b >= 1 /\ (Min2(a, c) <= 6 => b <= Pow(D, Min2(a, c)))
BondsOk(bonds, mps, D) ==
    /\ Len(bonds) = mps - 1
    /\ \A i \in 1..Len(bonds) : BondOk(bonds[i], D, i, mps - i)

VARIABLES l, objs, bad
vars == <<l, objs, bad>>

Init == l = 1 /\ objs = [x \in {} |-> 0] /\ bad = <<>>

E == Events[l]
Known == E.oid \in DOMAIN objs

Net(e) == IF e.alg = "pt" THEN [mps |-> e.mps, mpo |-> e.mpo, right |-> e.right]
          ELSE IF e.alg = "tempo" THEN [mps |-> e.mps, mpo |-> e.mpo]
          ELSE [mps |-> e.mps]

Sites(e) == e.mps + (IF e.alg = "pt" /\ e.right THEN 1 ELSE 0)     \* an open right leg counts as one more site
BondRule(e) == /\ Len(e.bonds) = e.mps - 1
               /\ \A i \in 1..Len(e.bonds) : BondOk(e.bonds[i], e.D, i, Sites(e) - i)

InitRules ==
    LET want == CASE E.alg = "tempo" -> TempoInit(E.K) [] E.alg = "pt" -> PtInit(E.N, E.K) [] OTHER -> GibbsInit
        step0 == IF E.alg = "tempo" THEN 0 ELSE 1
    IN << <<"InitShape", Net(E) = want /\ E.step = step0>>,
          <<"Bonds", BondRule(E)>> >>

StepRules(o) ==
    LET cur == o.step + 1
        mech == CASE o.alg = "tempo" -> TempoStep(o.net, cur, o.K, "none")
                  [] o.alg = "pt" -> PtStep(o.net, cur, o.N, o.K, "none")
                  [] OTHER -> GibbsStep(o.net, o.K)
        mean == CASE o.alg = "tempo" -> TempoClosed(cur, o.K)
                  [] o.alg = "pt" -> PtClosed(cur, o.N, o.K)
                  [] OTHER -> GibbsClosed(cur, o.K)
        e == [E EXCEPT !.alg = o.alg]
    IN << <<"Continuity", E.step = cur>>,
          <<"Mechanism", Net(e) = mech>>,
          <<"Meaning", Net(e) = mean>>,
          <<"Bonds", BondRule([e EXCEPT !.D = o.D])>>,
          <<"PtReturn", o.alg = "pt" => (E.ret = (cur < o.N) /\ (cur = o.N => (E.mps = o.N /\ E.mpo = 1)))>> >>

\* ---- PT-TEBD: the augmented chain after every layer of gates / process-tensor step (PtTebdBackend)
\*   Sites           one physical leg, one process-tensor leg, one bond to either side per site; n + 1 lambdas
\*   Chain           every lambda is square and has the dimension of the bonds it sits between
\*   Phys            physical dimensions never change
\*   PtLeg           after process-tensor step k the leg of site i has the bond dimension the tensor declares between its
\*                   steps k and k + 1 (unchanged where there is no environment)
\*   PtKeep          gates do not touch process-tensor legs
\*   SiteKeepsBonds  single-site gates (controls) do not touch bonds
TebdShapeOk(e) ==
    LET n == Len(e.phys) IN
    /\ Len(e.pt) = n /\ Len(e.left) = n /\ Len(e.right) = n /\ Len(e.lam) = n + 1
    /\ \A i \in 1..(n + 1) : e.lam[i][1] = e.lam[i][2]
    /\ \A i \in 1..n : e.lam[i][2] = e.left[i] /\ e.right[i] = e.lam[i + 1][1]
TebdInitRules == << <<"Chain", TebdShapeOk(E)>> >>
TebdRules(o) ==
    LET n == Len(o.phys)
        sites == Len(E.phys) = n /\ Len(E.pt) = n /\ Len(E.left) = n /\ Len(E.right) = n /\ Len(E.lam) = n + 1
    IN << <<"Sites", sites>>,
          <<"Chain", sites => TebdShapeOk(E)>>,
          <<"Phys", E.phys = o.phys>>,
          <<"PtLeg", (sites /\ E.op = "pt") =>
                        (Len(E.ptexp) = n /\ \A i \in 1..n : E.pt[i] = (IF E.ptexp[i] < 0 THEN o.pt[i] ELSE E.ptexp[i]))>>,
          <<"PtKeep", E.op \in {"nn", "site"} => E.pt = o.pt>>,
          <<"SiteKeepsBonds", E.op = "site" => (E.left = o.left /\ E.right = o.right)>> >>

FailedOf(R) == { R[i][1] : i \in { j \in DOMAIN R : ~R[j][2] } }

Consume ==
    /\ l <= Len(Events)
    /\ l' = l + 1
    /\ CASE E.ev = "init" ->
               /\ objs' = (E.oid :> [alg |-> E.alg, K |-> E.K, N |-> E.N, D |-> E.D, step |-> E.step, net |-> Net(E), broken |-> FALSE]) @@ objs
               /\ bad' = IF FailedOf(InitRules) = {} THEN bad
                         ELSE Append(bad, [line |-> l, oid |-> E.oid, kind |-> E.alg, rules |-> FailedOf(InitRules)])
         [] E.ev = "step" /\ Known /\ E.raised ->                  \* a step that raised leaves a network nothing is said about
               /\ objs' = [objs EXCEPT ![E.oid].broken = TRUE]
               /\ UNCHANGED bad
         [] E.ev = "step" /\ Known /\ ~E.raised /\ ~objs[E.oid].broken ->
               /\ objs' = [objs EXCEPT ![E.oid].step = E.step, ![E.oid].net = Net([E EXCEPT !.alg = objs[E.oid].alg])]
               /\ bad' = IF FailedOf(StepRules(objs[E.oid])) = {} THEN bad
                         ELSE Append(bad, [line |-> l, oid |-> E.oid, kind |-> objs[E.oid].alg, rules |-> FailedOf(StepRules(objs[E.oid]))])
         [] E.ev = "tebd-init" ->
               /\ objs' = (E.oid :> [alg |-> "tebd", phys |-> E.phys, pt |-> E.pt, left |-> E.left, right |-> E.right, broken |-> FALSE]) @@ objs
               /\ bad' = IF FailedOf(TebdInitRules) = {} THEN bad
                         ELSE Append(bad, [line |-> l, oid |-> E.oid, kind |-> "tebd", rules |-> FailedOf(TebdInitRules)])
         [] E.ev = "tebd-raised" /\ Known -> objs' = [objs EXCEPT ![E.oid].broken = TRUE] /\ UNCHANGED bad
         [] E.ev = "tebd-op" /\ Known /\ ~objs[E.oid].broken ->
               /\ objs' = [objs EXCEPT ![E.oid].pt = E.pt, ![E.oid].left = E.left, ![E.oid].right = E.right]
               /\ bad' = IF FailedOf(TebdRules(objs[E.oid])) = {} THEN bad
                         ELSE Append(bad, [line |-> l, oid |-> E.oid, kind |-> "tebd", rules |-> FailedOf(TebdRules(objs[E.oid]))])
         [] E.ev = "hook-error" -> bad' = Append(bad, [line |-> l, oid |-> "-", kind |-> "hook-error", rules |-> {"hook-error"}]) /\ UNCHANGED objs
         [] OTHER -> UNCHANGED <<objs, bad>>

Next == Consume
Spec == Init /\ [][Next]_vars

TraceAccepted == TLCGet("stats").diameter - 1 = Len(Events)
EmitBad == (l = Len(Events) + 1) =>
              PrintT("CASE " \o ToJson([bad |-> bad, events |-> Len(Events), objects |-> Cardinality(DOMAIN objs)]))
=============================================================================
