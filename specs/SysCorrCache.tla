---------------------------- MODULE SysCorrCache ----------------------------
(***************************************************************************)
(* The incremental store of system correlations behind                     *)
(* TwoTimeBathCorrelations (oqupy/bath_dynamics.py): every request         *)
(* (generate_system_correlations(T), correlation(.., t1, .., t2),           *)
(* occupation(..)) needs the ordered two-time correlations                  *)
(* <O(t_j) O(t_i)>, i <= j < m, of the coupling operator up to a step m     *)
(* that depends on the request; the object keeps the matrix computed so     *)
(* far and extends it by the missing columns.  A caller may also hand in a  *)
(* previously computed matrix ("an upper triangular array with all ordered  *)
(* correlations up to a certain time").                                     *)
(*                                                                         *)
(* The algorithm is modelled the way the code does it: the new block is     *)
(* what compute_correlations returns for times_a = slice(m), times_b =      *)
(* slice(c0, m) (Correlations.tla: entry (i, j) is the correlation at the   *)
(* pair (i, j) when i <= j and NaN otherwise), the old matrix is padded     *)
(* with NaN rows and the block appended as new columns.                     *)
(*                                                                         *)
(* Property (Aligned): after any history of requests the stored matrix is   *)
(* square, at least as large as the largest request, and entry (i, j)       *)
(* holds the correlation at exactly the time pair (i, j) for i <= j and     *)
(* NaN for i > j - hence every answer is independent of the history.        *)
(* Times are given in quarter steps (q = 4 t / dt) so that float times      *)
(* that round down / up are part of the space.                              *)
(***************************************************************************)
EXTENDS Naturals, Integers, Sequences, FiniteSets, TLC, Json

CONSTANTS N,         \* length of the process tensor
          MaxReq,    \* requests per history
          Supplied,  \* set of dimensions of a matrix handed in by the caller (0 = none)
          Dev,       \* "none" | "onerow" (an empty store that reports one row) | "tail" (new block starts at column 0 whenever rows were padded)
          Emit

VARIABLES rows, cols, mat, hist, start

vars == <<rows, cols, mat, hist, start>>

Nan == <<99, 99>>

Expected(i, j) == IF i <= j THEN <<i, j>> ELSE Nan

Round(q) == (q + 2) \div 4           \* q mod 4 # 2 in every request (no ties)

\* what compute_correlations(times_a = slice(m), times_b = slice(c0, m)) returns
Block(m, c0) == [p \in (0..(m - 1)) \X (c0..(m - 1)) |-> Expected(p[1], p[2])]

Init ==
    /\ \E n0 \in Supplied :
          /\ start = n0
          /\ IF n0 = 0 /\ Dev = "onerow"
             THEN rows = 1 /\ cols = 0 /\ mat = [p \in {} |-> Nan]
             ELSE rows = n0 /\ cols = n0 /\ mat = [p \in (0..(n0 - 1)) \X (0..(n0 - 1)) |-> Expected(p[1], p[2])]
    /\ hist = <<>>

\* generate_system_correlations up to step m
Extended(m) ==
    LET c0 == IF rows * cols = 0 \/ Dev = "tail" THEN 0 ELSE rows       \* first new column
        diff == m - rows
    IN IF diff <= 0 THEN [r |-> rows, c |-> cols, m |-> mat]
       ELSE LET blk == Block(m, c0)
                nr == rows + diff
                nc == cols + (m - c0)
            IN [r |-> nr, c |-> nc,
                m |-> [p \in (0..(nr - 1)) \X (0..(nc - 1)) |->
                          IF p[2] < cols
                          THEN (IF p[1] < rows THEN mat[p] ELSE Nan)             \* old entries, padded rows
                          ELSE blk[<<p[1], c0 + (p[2] - cols)>>]]]                \* appended columns

AsRows(r, c, m) == [i \in 0..(r - 1) |-> [j \in 0..(c - 1) |-> m[<<i, j>>]]]

Request(op, q1, q2) ==
    LET m == IF op = "occ" THEN N ELSE Round(q2)
        e == Extended(m)
    IN /\ rows' = e.r /\ cols' = e.c /\ mat' = e.m /\ UNCHANGED start
       /\ hist' = Append(hist, [op |-> op, q1 |-> q1, q2 |-> q2, m |-> m,
                                rows |-> e.r, cols |-> e.c, mat |-> AsRows(e.r, e.c, e.m)])

Quarter(m) == {4 * m - 1, 4 * m, 4 * m + 1}

Done == Len(hist) >= MaxReq
DoPrint == Emit => PrintT("CASE " \o ToJson([start |-> start, hist |-> hist]))

Next ==
    \/ /\ ~Done
       /\ \/ \E m \in 1..N : \E q \in Quarter(m) : Request("gen", 0, q)
          \/ \E m2 \in 1..N : \E m1 \in 1..m2 : \E q \in Quarter(m2) : Request("corr", 4 * m1, q)
          \/ Request("occ", 0, 0)
    \/ (Done /\ DoPrint /\ UNCHANGED vars)

Spec == Init /\ [][Next]_vars

\* ------------------------------------------------------------------ properties
Largest == IF Len(hist) = 0 THEN 0
           ELSE LET S == {hist[k].m : k \in DOMAIN hist} IN CHOOSE x \in S : \A y \in S : y <= x

Square == rows = cols \/ (Len(hist) = 0 /\ rows * cols = 0)
Covers == rows >= Largest /\ cols >= Largest
Aligned == \A p \in DOMAIN mat : mat[p] = Expected(p[1], p[2])
\* the store never forgets and never recomputes what it has
Monotone == [][rows' >= rows /\ cols' >= cols /\ \A p \in DOMAIN mat : p \in DOMAIN mat' /\ mat'[p] = mat[p]]_vars
=============================================================================
